"""C08 — HTTP/1 responses are correctly framed on persistent connections."""
import resource
import sys

import kv
from kv import Case, xn, xb, xl, xlist, xbool, xparse, xtext
from pipe import H, cfg

# responses of more than a MiB go through the extracted (not tail-recursive) parser: give the model driver, a child of
# this process, the stack the hard limit allows
try:
    _soft, _hard = resource.getrlimit(resource.RLIMIT_STACK)
    resource.setrlimit(resource.RLIMIT_STACK, (_hard, _hard))
except (ValueError, OSError):
    pass

ID = "C08"
MODULE = "C08"
IMPORTS = "Bytes RustInt Range Cache Http1Write Http1WriteProofs"
PROFILES = ("dev",)
SENDQ = "forall (error_body : N -> option bytes -> bytes) (package : head -> head), package_ok package -> "
CONNQ = ("forall (Q A : Type) (q_method : Q -> N) (q_content_length : Q -> option bytes) (q_known_host : Q -> bool) "
         "(q_head : Q -> bytes) (app : A -> Q -> A * reply0 * option N) (error_body : N -> option bytes -> bytes) "
         "(package : Q -> head -> head) (too_many_body : bytes), ")
CLOSEQ = ("exists pre h post ss s, with_actions (c8_limit cfg) 1 reqs = pre ++ h :: post /\\ n = S (length pre) /\\ "
          "c8_run_hs true true cfg (pre ++ [h]) = (map Some (ss ++ [s]), Closed) /\\ length ss = length pre /\\ "
          "announced (hd_headers (st_head s)) = None /\\ assoc s_connection (hd_headers (st_head s)) = Some (B \"close\") /\\ "
          "parse_closing (map (fun h => rq_method (q_req (h_q h))) (pre ++ [h])) (written (map Some (ss ++ [s]))) "
          "= Some (map observable (ss ++ [s]))")
THEOREMS = [
    ("framing_roundtrip",
     "forall l : list (N * sent), Forall (fun p => framed (fst p) (snd p)) l -> "
     "parse_responses (map fst l) (concat (map (fun p => wire (snd p)) l)) = Some (map (fun p => observable (snd p)) l)"),
    ("send_output_framed",
     SENDQ + "forall (m : N) (r : reply0) (s : sent), reply_ok r -> unframed r = false -> send error_body package m r = Ok s -> framed m s"),
    ("send_total",
     SENDQ + "forall (m : N) (r : reply0), reply_ok r -> exists s, send error_body package m r = Ok s"),
    ("length_is_body",
     SENDQ + "forall (m : N) (r : reply0) (s : sent), reply_ok r -> unframed r = false -> m <> M_HEAD -> send error_body package m r = Ok s -> "
     "announced (hd_headers (st_head s)) = Some (N.of_nat (length (st_body s)))"),
    ("head_has_no_body",
     SENDQ + "forall (r : reply0) (s : sent), reply_ok r -> send error_body package M_HEAD r = Ok s -> "
     "st_body s = [] /\\ exists g, send error_body package M_GET r = Ok g /\\ st_head g = st_head s /\\ "
     "(unframed r = false -> announced (hd_headers (st_head s)) = Some (N.of_nat (length (st_body g))))"),
    ("unframed_stream_is_close_delimited",
     SENDQ + "forall (m : N) (r : reply0) (s : sent), reply_ok r -> unframed r = true -> send error_body package m r = Ok s -> "
     "close_framed m s /\\ assoc s_connection (hd_headers (st_head s)) = Some (B \"close\") /\\ "
     "announced (hd_headers (st_head s)) = None"),
    ("one_response_per_request",
     CONNQ[:-2] + " (I : A -> Prop), app_ok Q A app I -> packages_ok Q package -> forall (hs : list (hreq Q)) (a : A), I a -> "
     "Forall (polite Q q_method q_content_length q_known_host) hs -> exists ss : list sent, "
     "conn_run Q A q_method q_content_length q_known_host q_head app error_body package too_many_body true true a (Open []) hs "
     "= (map Some ss, Open []) /\\ length ss = length hs /\\ "
     "serve_seq Q A q_method app error_body package too_many_body true a hs = map Ok ss /\\ "
     "parse_responses (map (fun h => q_method (h_q h)) hs) (written (map Some ss)) = Some (map observable ss)"),
    ("closing_history",
     CONNQ + "packages_ok Q package -> forall (hs : list (hreq Q)) (a : A) (h : hreq Q), "
     "run_ok Q A app a hs -> Forall (polite Q q_method q_content_length q_known_host) (hs ++ [h]) -> h_action h = APassed -> "
     "reply_ok (snd (fst (app (app_after Q A app a hs) (h_q h)))) -> "
     "unframed (snd (fst (app (app_after Q A app a hs) (h_q h)))) = true -> "
     "exists (ss : list sent) (s : sent), "
     "conn_run Q A q_method q_content_length q_known_host q_head app error_body package too_many_body true true a (Open []) (hs ++ [h]) "
     "= (map Some (ss ++ [s]), Closed) /\\ length ss = length hs /\\ "
     "announced (hd_headers (st_head s)) = None /\\ assoc s_connection (hd_headers (st_head s)) = Some (B \"close\") /\\ "
     "parse_closing (map (fun h => q_method (h_q h)) (hs ++ [h])) (written (map Some (ss ++ [s]))) = Some (map observable (ss ++ [s]))"),
    ("stream_body_announces",
     "forall (content : bytes) (r : request) (f : option N * list bytes), stream_body_future true content r = Some f -> "
     "fst f = Some (N.of_nat (length (concat (snd f))))"),
    ("stream_body_refuses",
     "forall (content : bytes) (r : request), stream_body_future true content r = None <-> "
     "exists s e, sanitize_range (header (B \"range\") r) = Ok (Some (s, e)) /\\ N.of_nat (length content) <= s"),
    ("stream_body_content_range",
     "forall (content : bytes) (r : request) (s e0 : N) (f : option N * list bytes), stream_body_range r = Some (s, e0) -> s < e0 -> "
     "stream_body_future true content r = Some f -> let n := N.of_nat (length (concat (snd f))) in 0 < n /\\ "
     "stream_body_head content r = (206, [(B \"content-range\", B \"bytes \" ++ dec s ++ B \"-\" ++ dec (s + n - 1) ++ B \"/\" ++ "
     "dec (N.of_nat (length content)))]) /\\ concat (snd f) = firstn (N.to_nat n) (skipn (N.to_nat s) content)"),
    ("unread_body",
     "forall (Q : Type) (q_method : Q -> N) (q_content_length : Q -> option bytes) (h : hreq Q) (lim : option N), "
     "let declared := body_length (q_method (h_q h)) (q_content_length (h_q h)) in "
     "let total := N.of_nat (length (h_body h)) in "
     "N.min (N.of_nat (h_early h)) total <= declared -> "
     "match lim with Some l => N.min declared l | None => 0 end <= total -> "
     "after_body Q q_method q_content_length true h lim = "
     "if total =? declared then Open [] else if total <? declared then Closed else Unmodelled"),
    ("checked_history_is_instance",
     "forall (cfg : c8cfg) (reqs : list (c8req * bytes * nat)), "
     "c8_hyps cfg (c8_state0 cfg) (with_actions (c8_limit cfg) 1 reqs) = true -> "
     "exists ss, c8_run true true cfg reqs = (map Some ss, Open []) /\\ "
     "length ss = length (with_actions (c8_limit cfg) 1 reqs) /\\ "
     "parse_responses (map (fun h => rq_method (q_req (h_q h))) (with_actions (c8_limit cfg) 1 reqs)) "
     "(written (map Some ss)) = Some (map observable ss)"),
    ("checked_closing_history_is_instance",
     "forall (cfg : c8cfg) (reqs : list (c8req * bytes * nat)) (n : nat), "
     "c8_hyps_closing cfg (c8_state0 cfg) (with_actions (c8_limit cfg) 1 reqs) O = Some n -> " + CLOSEQ),
    ("closed_is_silent",
     CONNQ[:-2] + " (drain head_rule : bool) (hs : list (hreq Q)) (a : A), "
     "conn_run Q A q_method q_content_length q_known_host q_head app error_body package too_many_body drain head_rule a Closed hs "
     "= (map (fun _ => None) hs, Closed)"),
    ("closing_requests",
     CONNQ[:-2] + " (drain head_rule : bool) (h : hreq Q) (a : A), "
     "(q_known_host (h_q h) = false -> "
     "conn_step Q A q_method q_content_length q_known_host q_head app error_body package too_many_body drain true a [] h "
     "= (a, Some (no_host error_body true (q_method (h_q h))), Closed) /\\ "
     "framed (q_method (h_q h)) (no_host error_body true (q_method (h_q h)))) /\\ "
     "(q_known_host (h_q h) = true -> h_action h = ADrop -> "
     "conn_step Q A q_method q_content_length q_known_host q_head app error_body package too_many_body drain head_rule a [] h "
     "= (a, None, Closed))"),
    ("unread_body_v0_refuted",
     "(let '(os, fin) := c8_run false true w_cfg w_unread in "
     "statuses os = [Some 405; None] /\\ fin = Closed /\\ parse_responses [M_POST; M_GET] (written os) = None) /\\ "
     "(let '(os, fin) := c8_run true true w_cfg w_unread in "
     "statuses os = [Some 405; Some 200] /\\ fin = Open [] /\\ "
     "option_map (map p_status) (parse_responses [M_POST; M_GET] (written os)) = Some [405; 200])"),
    ("limited_head_v0_refuted",
     "parse_responses [M_HEAD; M_GET] (wire (limited TOO_MANY false M_HEAD) ++ wire (limited TOO_MANY false M_GET)) = None /\\ "
     "option_map (map p_status) (parse_responses [M_HEAD; M_GET] (wire (limited TOO_MANY true M_HEAD) ++ "
     "wire (limited TOO_MANY true M_GET))) = Some [429; 429]"),
    ("bodyless_status_with_body_v0_refuted",
     "(exists s, w_send_v0 M_GET w_204 = Ok s /\\ parse_responses [M_GET] (wire s) = None) /\\ "
     "(exists s, w_send M_GET w_204 = Ok s /\\ st_body s = [] /\\ "
     "option_map (map p_status) (parse_responses [M_GET] (wire s)) = Some [204])"),
    ("head_stream_v0_refuted",
     "parse_responses [M_HEAD; M_GET] (w_pair w_send_v0 w_stream) = None /\\ "
     "option_map (map (fun p => (p_status p, p_body p))) (parse_responses [M_HEAD; M_GET] (w_pair w_send w_stream)) "
     "= Some [(200, []); (200, B \"hello world\")]"),
    ("unframed_stream_v0_refuted",
     "(exists s, w_send_v0 M_GET w_nolen = Ok s /\\ announced (hd_headers (st_head s)) = None /\\ "
     "assoc s_connection (hd_headers (st_head s)) = Some s_keep_alive /\\ parse_responses [M_GET] (wire s) = None) /\\ "
     "(exists s, w_send M_GET w_nolen = Ok s /\\ assoc s_connection (hd_headers (st_head s)) = Some (B \"close\") /\\ "
     "option_map (map p_body) (parse_closing [M_GET] (wire s)) = Some [B \"abcdefg\"])"),
    ("te_with_length_v0_refuted",
     "(exists s, w_send_v0 M_GET w_te = Ok s /\\ parse_responses [M_GET] (wire s) = None) /\\ "
     "(exists s, w_send M_GET w_te = Ok s /\\ option_map (map p_body) (parse_responses [M_GET] (wire s)) = Some [B \"with te\"])"),
    ("stream_body_range_v0_refuted",
     "exists content r f, stream_body_future false content r = Some f /\\ "
     "fst f <> Some (N.of_nat (length (concat (snd f))))"),
]
RULE = ("(a) histories of 1-12 requests on ONE loopback connection handled by the public kvarn::handle_connection (6 quick / 1000 thorough also "
        "by a RunConfig::execute server on a loopback port taken from the kernel), each request sent after the previous response was read: "
        "GET/HEAD/POST/OPTIONS/PUT/DELETE/PATCH/TRACE/CONNECT x existing files (20 B, 3 kB, empty, index.html, in a directory; in some histories "
        "70 kB, in two 1.3 MB) / missing / '/' / unsafe path / 16 handler-backed paths (static, compressible, 204, 500, counter, echo, body "
        "readers read_to_bytes(1000) and (5), handlers that set connection: close / upgrade, a false content-length, a BODY on 204 and on 304, "
        "transfer-encoding: chunked on a whole body, a 2.9 kB head) / 8 STREAMING paths (kvarn's stream_body() on files of 33 B, 0 B, 70 kB, 1.3 MB "
        "and on a missing file - ranged requests get 206 + content-range cut at the file's end, or its 416 page; with_future_and_len of 11 and 0 bytes; with_future WITHOUT a length) x Accept-Encoding (gzip, br, zstd, identity, "
        "*, q-values) x Range (satisfiable, single byte, open, at / beyond the end, reversed, other unit) x If-Modified-Since (fresh, stale, "
        "garbage) x Origin x response cache on/off x default extensions on/off x limiter off / max 4-6 (429 answers) / max 1-3 crossed up to the "
        "drop level x request bodies of 0..70000 bytes (incl. 4095/4096/4097/8192 and such that exactly one or two 4096-byte windows stay "
        "unread) read / read in part / unread, arriving with the head, after it, or split x request heads of EVERY length class around the "
        "server's reads (505-519, 1019-1029, 1535-1537, 2045-2051, 3071-3073, 4093-4099, 8191-8193, 512k and 512k+1, random up to 9000; thorough: "
        "every length 200..4200) x head written at once / byte by byte / in pieces of 2, 3, 7, 64 bytes / with the last 1-4 bytes (the blank "
        "line) in a segment of their own x HTTP/1.1 and HTTP/1.0 request lines x server socket with the kernel's or a 4 kB send buffer (short "
        "writes); HEAD/GET pairs of one resource; an unknown Host (409 + close) as last request; a stream of unknown length anywhere (it is the "
        "last answer: the server closes). EVERY byte received is given to the extracted Coq parse_responses - parse_closing when the history "
        "meets a stream of unknown length - (oracle: exactly one well-formed response per request, in order, nothing left over, connection "
        "still usable / closed by the server after the length-less stream whose head says connection: close, HEAD announces GET's length); a "
        "request that gets no answer within 8 s is run again on a fresh host, and is a VIOLATION with the history as replay when it gets none "
        "in 3 attempts. The parsed list is compared with the model's prediction (version, status, content-range, accept-ranges, connection, "
        "x-tag, reason headers, body; error pages by class, reason phrases not at all; for a content-coded answer the decoded body, and only "
        "the framing when a range of a coded representation was asked; answers of the CORS / 406 machinery are framed but not predicted). "
        "(b) kvarn_async::write::response called directly on random version/status/headers/body (heads up to 5 kB) against print_response, byte "
        "for byte up to the reason phrase. distinct_nontrivial counts distinct model outputs")
ASSUMPTIONS = [
    "theorems are about any application (handle_cache and below) that keeps a state invariant under which its replies are reply_ok; "
    "for the fixture host this is checked per generated history by the executable c8_hyps / c8_hyps_closing, whose soundness is proved "
    "(checked_history_is_instance, checked_closing_history_is_instance; the counts are in coverage.histories_that_are_instances_of_the_"
    "connection_theorem / _closing_theorem). reply_ok: what handle_cache returns satisfies the http crate's invariants (status 100..999, "
    "lower-case token names, values without CR/LF, not HTTP/0.9), the range comes from sanitize_request (start < end), and for a reply with "
    "a future (stream_body, with_future): it is not a 1xx/204/304 (protocol switches such as WebSocket are outside), the length it "
    "announces is the number of bytes its body and its future write (proved for stream_body: stream_body_announces, and its 206 / "
    "content-range name those bytes: stream_body_content_range; a request it refuses gets the 416 page without a future: "
    "stream_body_refuses; a handler's own "
    "future is trusted to keep its word), and a stream of unknown length carries no transfer-encoding / content-length of the handler's "
    "own (a handler that chunk-encodes by hand, as the reverse proxy does for a chunked upstream on HTTP/1, frames its body itself: outside "
    "the model). No longer assumed, because send now repairs it: an empty body on 1xx/204/304, no transfer-encoding beside a known length. "
    "Package extensions leave version, status and content-length alone and add no transfer-encoding; Post extensions write nothing to the "
    "body pipe",
    "the client of the connection theorem is 'polite': configured Host, not beyond the limiter's drop level (3 x max_requests: the "
    "connection is closed by design, C12; run against the model in the history-limiter-drop cases), and it sends exactly the body its "
    "request declares, where the declared length is kvarn's get_body_length_request: 0 for GET/HEAD/OPTIONS/CONNECT/TRACE whatever "
    "content-length says (a GET or TRACE that carries a body is outside)",
    "a response that announces no length cannot be followed by another on the same connection: after it the property's 'one response per "
    "request' holds for the requests up to and including that one (closing_history); the server says connection: close and closes",
    "the request reader (kvarn_async::read::request) is C07's; here a request is a parsed head plus body bytes with an early/late split; "
    "that the reader finds the end of every head whatever its length and segmentation is tested (head-length sweeps), not proved here",
    "kvarn closes a connection on which no request arrives for 5 s: the client of the run never idles that long (final-state waits are "
    "2.5 s at most)",
    "the executable prediction reuses Model/Cache.v + Model/Fixture.v (C03/C04) for handle_cache; content negotiation is not predicted "
    "(the harness decodes coded bodies with flate2/brotli/zstd), last-modified / vary / cache-control / content-type are not compared; "
    "the order of headers of different names after HeaderMap::remove (swap-remove) is not modelled, no statement depends on it",
]
TRUSTED = ["modelled: async/src/lib.rs write::response; src/lib.rs SendKind::send (bodyless statuses, range, ensure_length, ensure_version, "
           "resolve_package, body rule, the future's writes and the HEAD rule for them), handle_connection request loop (409, limiter Send/Drop, "
           "sequential HTTP/1 handling, drain, close after a stream of unknown length); src/application.rs ResponsePipe::send_response "
           "(connection header incl. close for a head without a length), ensure_length (removes transfer-encoding) / ensure_version, "
           "Http1Body::{read_to_bytes accounting, drain}; src/extensions.rs stream_body (206 + content-range, end cut at the file, 416 page "
           "when the start is outside, announced length, bytes sent); utils "
           "set_content_length, method_has_response_body, get_body_length_request, hardcoded_error_body; http::StatusCode::canonical_reason table",
           "the second stage of the run (driver/props/c08.py) hands the harness's raw bytes to the extracted parser; the harness's own "
           "lenient framing only paces the requests",
           "the fixture futures of harness/src/c08.rs (with_future / with_future_and_len writing fixed chunks) behave as the model's chunk lists"]
EXHAUSTIVE = False
IMPL_SHARDS = 16
PER_SHARD = 8
KERNEL_SAMPLE = 24

CONN = "h1w.conn"
REPORT = [b"content-range", b"accept-ranges", b"connection", b"x-tag", b"reason"]
METHOD_CODE = {b"GET": 0, b"HEAD": 1, b"POST": 2, b"OPTIONS": 3}

BIG = bytes((97 + (i * 7) % 26) if i % 11 else 10 for i in range(3000))
F20 = b"0123456789abcdefghij"
SFILE = b"streamed file content: 0123456789"


def _blob(n, k):
    return bytes((65 + ((i * k) ^ (i >> 7)) % 57) if i % 61 else 10 for i in range(n))


M70 = _blob(70000, 7)            # more than the 64 KiB chunk of stream_body and than one socket write
HUGE = _blob(1300000, 11)        # more than a socket buffer takes at once
FILES = [(b"public/f.txt", F20), (b"public/big.txt", BIG), (b"public/e.txt", b""), (b"public/index.html", b"<html><body>index page</body></html>"),
         (b"public/dir/g.txt", b"file g in dir"), (b"public/s/file.txt", SFILE), (b"public/s/e.txt", b"")]
FILES_M = FILES + [(b"public/m.bin", M70), (b"public/s/big.bin", M70)]
FILES_HUGE = FILES + [(b"public/huge.bin", HUGE), (b"public/s/huge.bin", HUGE)]
HANDLERS = [
    H(b"/h/a", body=b"handler-a says hello", headers=[(b"content-type", b"text/plain"), (b"x-tag", b"A")], compress=False),
    H(b"/h/c", body=b"compressible " * 40, headers=[(b"content-type", b"text/plain")], compress=True),
    H(b"/h/n", status=204, body=b"", spref=0, compress=False),
    H(b"/h/e", status=500, body=b"boom", headers=[(b"content-type", b"text/plain")], spref=0, compress=False),
    H(b"/h/r", body=b"read it all", headers=[(b"content-type", b"text/plain")], spref=0, compress=False),
    H(b"/h/r5", body=b"read five", headers=[(b"content-type", b"text/plain")], spref=0, compress=False),
    H(b"/h/k", kind=2, body=b"count=", headers=[(b"content-type", b"text/plain")], spref=0, compress=False),
    H(b"/h/q", kind=1, body=b"echo:", headers=[(b"content-type", b"text/plain")], spref=1, compress=False),
    H(b"/h/m", kind=4, body=b"method:", headers=[(b"content-type", b"text/plain")], spref=0, compress=False),
    H(b"/h/x", body=b"says close", headers=[(b"content-type", b"text/plain"), (b"connection", b"close"), (b"x-tag", b"X")], spref=0, compress=False),
    H(b"/h/u", body=b"says upgrade", headers=[(b"content-type", b"text/plain"), (b"connection", b"upgrade")], spref=2, compress=False),
    H(b"/h/l", body=b"lies about its length", headers=[(b"content-type", b"text/plain"), (b"content-length", b"999")], spref=0, compress=False),
    # what a careless handler or a proxied upstream may hand over: a body on 204 / 304, transfer-encoding on a whole body
    H(b"/h/n2", status=204, body=b"oops: a body on 204", headers=[(b"x-tag", b"N2")], spref=0, compress=False),
    H(b"/h/nm", status=304, body=b"oops: a body on 304", headers=[(b"x-tag", b"NM")], spref=0, compress=False),
    H(b"/h/te", body=b"not chunked at all", headers=[(b"content-type", b"text/plain"), (b"transfer-encoding", b"chunked"), (b"x-tag", b"TE")],
      spref=0, compress=False),
    # a head larger than the 2 KiB buffer send_response writes it through
    H(b"/h/long", body=b"long head", headers=[(b"content-type", b"text/plain")] + [(b"set-cookie", b"k%d=" % j + b"v" * 300) for j in range(9)] + [(b"x-tag", b"L")],
      spref=0, compress=False),
]
# only beside the larger files (every case carries its whole configuration)
HBIG = H(b"/h/big", body=_blob(66000, 5), headers=[(b"content-type", b"application/octet-stream")], spref=2, compress=False)
READERS = [(b"/h/r", 1000), (b"/h/r5", 5)]


def S(path, kind, announced=0, chunks=()):
    """a handler whose reply carries a future: kind 0 = kvarn's stream_body() on the file of that path, 1 = with_future
    (no length), 2 = with_future_and_len(announced), 3 = with_future and a content-length header of the handler's own"""
    return xl(xb(path), xn(kind), xn(announced), xlist([xb(c) for c in chunks]))


STREAMS = [S(b"/s/file.txt", 0), S(b"/s/e.txt", 0), S(b"/s/missing.txt", 0), S(b"/s/big.bin", 0), S(b"/s/huge.bin", 0),
           S(b"/st/len", 2, 11, [b"hello ", b"", b"world"]), S(b"/st/len0", 2, 0, []),
           S(b"/st/nolen", 1, 0, [b"abc", b"", b"defg"]), S(b"/st/own", 3, 10, [b"own ", b"length"])]
NOLEN = b"/st/nolen"
TARGETS = [b"/f.txt", b"/f.txt", b"/big.txt", b"/e.txt", b"/dir/g.txt", b"/missing.txt", b"/", b"/dir/", b"/./f.txt", b"/h/a", b"/h/a", b"/h/c", b"/h/n",
           b"/h/e", b"/h/r", b"/h/r5", b"/h/k", b"/h/q", b"/h/q?x=1", b"/h/m", b"/h/x", b"/h/u", b"/h/l", b"/f.txt?v=2", b"/h/zz",
           b"/s/file.txt", b"/s/file.txt", b"/s/e.txt", b"/s/missing.txt", b"/st/len", b"/st/len", b"/st/len0", b"/st/own", b"/h/n2", b"/h/nm", b"/h/te",
           b"/h/big", b"/./s/file.txt", b"/h/long"]
ACCEPT = [None, None, None, None, b"gzip", b"br", b"identity", b"gzip, br", b"*", b"zstd, gzip;q=0.5", b"deflate", b"gzip", b"br", b"zstd",
          b"identity;q=0", b"gzip;q=0, identity"]
RANGES = [None, None, None, None, b"bytes=0-4", b"bytes=5-", b"bytes=2-2", b"bytes=0-0", b"bytes=100-200", b"bytes=3-2", b"bytes=0-99999", b"bytes=19-19",
          b"bytes=20-25", b"items=0-4", b"bytes=-5", b"bytes=32-40", b"bytes=33-34"]
IMS = [None, None, None, b"@T+3600", b"@T-3600", b"yesterday"]
ORIGIN = [None, None, None, b"http://evil.test", b"http://localhost"]
METHODS = [b"GET"] * 10 + [b"HEAD"] * 6 + [b"POST"] * 6 + [b"OPTIONS"] * 4 + [b"PUT"] * 2 + [b"DELETE", b"PATCH", b"TRACE", b"CONNECT"]
BODY_METHODS = (b"POST", b"PUT", b"DELETE", b"PATCH")
HOST = b"localhost"
# flags of a request (harness/src/c08.rs)
F_NOHOST, F_SHUTDOWN, F_HTTP10 = 1, 2, 4


def f_pieces(n):
    return n << 8


def f_tail(k):
    return k << 24


def make_cfg(cache=True, default_ext=False, disable_ims=False, limit=0, server=False, wait_close=0, files=FILES, retry=True, sndbuf=0):
    return cfg(cache=cache, default_ext=default_ext, disable_ims=disable_ims,
               handlers=HANDLERS + ([HBIG] if files is not FILES else []), files=[xl(xb(p), xb(c)) for p, c in files],
               readers=[xl(xb(p), xn(l)) for p, l in READERS], limit=xn(limit), server=xn(1 if server else 0),
               wait_close=xn(wait_close), report=[xb(r) for r in REPORT], streams=STREAMS, retry=xn(1 if retry else 0), sndbuf=xn(sndbuf))


def R(method, target, headers=(), body=b"", early=0, flags=0):
    return xl(xb(method), xb(target), xlist([xl(xb(k), xb(v)) for k, v in headers]), xb(body), xn(early), xn(flags))


def head_len(method, target, headers, host=HOST):
    """bytes of the request head as the harness writes it"""
    n = len(method) + 1 + len(target) + len(b" HTTP/1.1\r\nhost: ") + len(host) + 2
    for k, v in headers:
        n += len(k) + 2 + len(v) + 2
    return n + 2


def R_sized(method, target, headers, size, body=b"", early=0, flags=0):
    """the request with a padding header that makes its head exactly `size` bytes long (None if it cannot)"""
    hs = list(headers)
    base = head_len(method, target, hs + [(b"x-pad", b"")])
    if size < base:
        return None
    hs.append((b"x-pad", b"p" * (size - base)))
    assert head_len(method, target, hs) == size
    return R(method, target, hs, body, early, flags)


def conn_case(c, reqs, kind, spec=True, comp=CONN):
    return Case(comp, xl(c, xlist(reqs)), "h1w.expect" if spec else None, {"kind": kind}, "dev")


def rand_body(rng, n):
    return bytes(rng.choice(b"abcdefghijklmnopqrstuvwxyz0123456789 \r\nGETPOSTHTTP/1.1") for _ in range(n))


# request-body lengths: around the 4096-byte window of Http1Body::drain and the 512-byte first read of the head
BODY_LENS = [0, 0, 1, 4, 5, 6, 10, 31, 100, 700, 4095, 4096, 4097, 5000, 8192, 8292, 12388, 70000]


def rand_request(rng, body_ok=True, origin_p=1.0):
    method = rng.choice(METHODS)
    target = rng.choice(TARGETS)
    if target == b"/h/m" and method not in METHOD_CODE and method != b"PUT":
        method = b"PUT"        # that handler echoes the method's name; the model knows the other methods as one
    hs = []
    a, r, i, o = rng.choice(ACCEPT), rng.choice(RANGES), rng.choice(IMS), rng.choice(ORIGIN)
    if a is not None and b"q=0" in a and rng.random() < 0.6:
        a = b"gzip"            # answers to requests that refuse codings are not predicted (406, C06): keep them few
    if a is not None:
        hs.append((b"accept-encoding", a))
    if r is not None and rng.random() < 0.8:
        hs.append((b"range", r))
    if i is not None:
        hs.append((b"if-modified-since", i))
    if o is not None and rng.random() < origin_p:
        hs.append((b"origin", o))
    body, early = b"", 0
    if method in BODY_METHODS and body_ok:
        n = rng.choice(BODY_LENS)
        if n or rng.random() < 0.5:
            body = rand_body(rng, n)
            hs.append((b"content-length", str(n).encode()))
            # the part of the body that arrives with the head: nothing, all, or such that 4096 / 8192 bytes are left
            early = rng.choice([0, 0, n, n // 2, min(n, 3), n]) if n <= 300 else rng.choice([0, 0, 100, 200, n - 4096 if n > 4096 else 0])
    rng.shuffle(hs)
    flags = 0
    u = rng.random()
    if u < 0.04:
        flags |= F_HTTP10
    elif u < 0.08:
        flags |= f_tail(rng.choice([1, 2, 3, 4]))          # the blank line of the head arrives in a segment of its own
    elif u < 0.10:
        flags |= f_pieces(rng.choice([1, 2, 3, 7, 64]))     # the head arrives byte by byte / in small pieces
    if rng.random() < 0.10:
        # a head whose length sits on a boundary of the server's reads (512-byte first read, then a growing buffer)
        size = rng.choice([511, 512, 513, 514, 515, 1023, 1024, 1025, 1026, 1535, 1536, 1537, 2047, 2048, 2049, 2050, 4095, 4096, 4097])
        sized = R_sized(method, target, hs, size, body, early, flags)
        if sized is not None:
            return sized
    return R(method, target, hs, body, early, flags)


def rand_sequence(rng, n, origin_p=1.0):
    reqs = []
    while len(reqs) < n:
        r = rand_request(rng, origin_p=origin_p)
        reqs.append(r)
        # pairs HEAD/GET of one resource, and repeats (cache hits, counters)
        if rng.random() < 0.25 and len(reqs) < n:
            m, t, hs = r[1][0][1], r[1][1][1], r[1][2]
            if m in (b"GET", b"HEAD"):
                reqs.append(xl(xb(b"HEAD" if m == b"GET" else b"GET"), xb(t), hs, xb(b""), xn(0), xn(0)))
    return reqs[:n]


def head_sweep(rng, sizes, per_conn=12):
    """persistent connections on which every request has a head of one of the given lengths"""
    out, cur = [], []
    for size in sizes:
        m = rng.choice([b"GET", b"GET", b"HEAD", b"POST", b"OPTIONS"])
        t = rng.choice([b"/f.txt", b"/h/a", b"/e.txt", b"/h/k", b"/missing.txt", b"/s/file.txt", b"/st/len"])
        hs, body, early = [], b"", 0
        if m == b"POST" and rng.random() < 0.7:
            n = rng.choice([1, 5, 100, 600])
            body, early = rand_body(rng, n), rng.choice([0, n, n // 2])
            hs.append((b"content-length", str(n).encode()))
        r = R_sized(m, t, hs, size, body, early)
        if r is None:
            continue
        cur.append(r)
        if len(cur) == per_conn:
            out.append(cur)
            cur = []
    if cur:
        out.append(cur)
    return out


def generate(rng, tier):
    cases = []
    thorough = tier == "thorough"
    plain = make_cfg()
    # ---- corpus: the defects found while building this property (repaired; see known-findings.txt) and the
    #      inputs aimed at the code changes of DESIGN.md appendix C
    post10 = R(b"POST", b"/f.txt", [(b"content-length", b"10")], b"0123456789", 0)
    cases.append(conn_case(plain, [post10, R(b"GET", b"/f.txt")], "corpus-unread-late-body"))
    cases.append(conn_case(plain, [R(b"POST", b"/f.txt", [(b"content-length", b"10")], b"0123456789", 5), R(b"GET", b"/f.txt")], "corpus-unread-late-body"))
    cases.append(conn_case(plain, [R(b"POST", b"/h/r5", [(b"content-length", b"12")], b"GET / HTTP/1", 0), R(b"GET", b"/h/k"), R(b"GET", b"/h/k")], "corpus-unread-late-body"))
    cases.append(conn_case(plain, [R(b"POST", b"/h/a", [(b"content-length", b"70000")], rand_body(rng, 70000), 100), R(b"HEAD", b"/h/a"), R(b"GET", b"/h/a")], "corpus-unread-late-body"))
    # exactly one / two windows of Http1Body::drain are left unread; a reader whose body does not fit the first read of the head
    for n, early in ((4096, 0), (8192, 0), (4196, 100), (8292, 100), (4097, 0), (4095, 0)):
        cases.append(conn_case(plain, [R(b"POST", b"/h/a", [(b"content-length", str(n).encode())], rand_body(rng, n), early), R(b"GET", b"/h/k"),
                                       R(b"POST", b"/h/r", [(b"content-length", b"1000")], rand_body(rng, 1000), rng.choice([0, 300, 1000])), R(b"GET", b"/h/k")],
                               "corpus-drain-window"))
    lim2 = make_cfg(limit=2)
    cases.append(conn_case(lim2, [R(b"GET", b"/f.txt"), R(b"GET", b"/f.txt"), R(b"HEAD", b"/f.txt"), R(b"GET", b"/f.txt")], "corpus-429-head"))
    cases.append(conn_case(lim2, [R(b"GET", b"/f.txt"), R(b"GET", b"/f.txt"), R(b"POST", b"/h/r", [(b"content-length", b"4")], b"late", 0), R(b"GET", b"/f.txt")], "corpus-429-head"))
    cases.append(conn_case(plain, [R(b"GET", b"/f.txt"), R(b"HEAD", b"/f.txt", flags=1)], "corpus-409"))
    cases.append(conn_case(plain, [R(b"HEAD", b"/f.txt"), R(b"GET", b"/f.txt"), R(b"HEAD", b"/big.txt", [(b"accept-encoding", b"gzip")]),
                                   R(b"GET", b"/big.txt", [(b"accept-encoding", b"gzip")]), R(b"HEAD", b"/h/a", [(b"range", b"bytes=2-5")]),
                                   R(b"GET", b"/h/a", [(b"range", b"bytes=2-5")]), R(b"GET", b"/f.txt")], "corpus-head"))
    cases.append(conn_case(plain, [R(b"GET", b"/f.txt", [(b"range", b"bytes=5-9")]), R(b"GET", b"/f.txt", [(b"range", b"bytes=0-0")]),
                                   R(b"GET", b"/big.txt", [(b"range", b"bytes=10-19"), (b"accept-encoding", b"gzip")]),
                                   R(b"GET", b"/f.txt", [(b"range", b"bytes=50-60")]), R(b"GET", b"/f.txt")], "corpus-range"))
    cases.append(conn_case(plain, [R(b"GET", b"/big.txt", [(b"accept-encoding", a)]) for a in (b"gzip", b"br", b"zstd", b"identity", b"gzip")] + [R(b"GET", b"/f.txt")], "corpus-encoding"))
    cases.append(conn_case(plain, [R(b"GET", b"/f.txt"), R(b"GET", b"/f.txt", [(b"if-modified-since", b"@T+3600")]), R(b"HEAD", b"/f.txt", [(b"if-modified-since", b"@T+3600")]),
                                   R(b"GET", b"/f.txt", [(b"if-modified-since", b"@T+3600"), (b"range", b"bytes=0-3")]), R(b"GET", b"/f.txt")], "corpus-304"))
    cases.append(conn_case(plain, [R(b"GET", b"/h/n"), R(b"GET", b"/h/x"), R(b"GET", b"/h/u"), R(b"GET", b"/h/l"), R(b"HEAD", b"/h/l"), R(b"OPTIONS", b"/f.txt"), R(b"GET", b"/h/e")], "corpus-handlers"))
    # the five defects of the send path (fixed: d63bba7 4cb2e2f 7334433 89e2956 3c296af)
    cases.append(conn_case(plain, [R(b"HEAD", b"/s/file.txt"), R(b"GET", b"/f.txt"), R(b"HEAD", b"/st/len"), R(b"GET", b"/st/len"), R(b"GET", b"/f.txt")], "corpus-stream-head"))
    cases.append(conn_case(plain, [R(b"GET", b"/s/file.txt", [(b"range", b"bytes=0-99999")]), R(b"GET", b"/s/file.txt", [(b"range", b"bytes=50-60")]),
                                   R(b"GET", b"/s/file.txt", [(b"range", b"bytes=5-9")]), R(b"HEAD", b"/s/file.txt", [(b"range", b"bytes=30-40")]),
                                   R(b"GET", b"/s/file.txt", [(b"range", b"bytes=32-32")]), R(b"GET", b"/s/file.txt", [(b"range", b"bytes=33-33")]),
                                   R(b"GET", b"/s/e.txt"), R(b"GET", b"/s/missing.txt"), R(b"POST", b"/s/file.txt"), R(b"GET", b"/f.txt")], "corpus-stream-range"))
    cases.append(conn_case(plain, [R(b"GET", b"/f.txt"), R(b"GET", NOLEN), R(b"GET", b"/f.txt")], "corpus-stream-nolen"))
    cases.append(conn_case(plain, [R(b"GET", b"/f.txt"), R(b"HEAD", NOLEN), R(b"GET", b"/f.txt")], "corpus-stream-nolen"))
    # a stream of unknown length that the handler frames itself (its own content-length): the connection is kept
    cases.append(conn_case(plain, [R(b"GET", b"/st/own"), R(b"HEAD", b"/st/own"), R(b"GET", b"/st/own", [(b"range", b"bytes=1-2")]), R(b"GET", b"/f.txt")], "corpus-stream-own-length"))
    cases.append(conn_case(plain, [R(b"GET", b"/h/n2"), R(b"GET", b"/f.txt"), R(b"GET", b"/h/nm"), R(b"HEAD", b"/h/n2"), R(b"GET", b"/h/n2", [(b"range", b"bytes=0-3")]),
                                   R(b"POST", b"/h/nm"), R(b"GET", b"/f.txt")], "corpus-bodyless-with-body"))
    cases.append(conn_case(plain, [R(b"GET", b"/h/te"), R(b"GET", b"/f.txt"), R(b"HEAD", b"/h/te"), R(b"GET", b"/h/te", [(b"range", b"bytes=4-10")]), R(b"GET", b"/f.txt")], "corpus-transfer-encoding"))
    # responses larger than a stream_body chunk / than what a socket takes in one write, whole, ranged, coded and streamed
    mid = make_cfg(files=FILES_M, sndbuf=4096)      # the server's socket takes a few kilobytes per write
    cases.append(conn_case(mid, [R(b"GET", b"/m.bin"), R(b"GET", b"/f.txt"), R(b"HEAD", b"/m.bin"), R(b"GET", b"/m.bin", [(b"range", b"bytes=65535-65537")]),
                                 R(b"GET", b"/s/big.bin"), R(b"HEAD", b"/s/big.bin"), R(b"GET", b"/s/big.bin", [(b"range", b"bytes=65530-69999")]),
                                 R(b"GET", b"/m.bin", [(b"accept-encoding", b"gzip")]), R(b"GET", b"/m.bin", [(b"accept-encoding", b"gzip"), (b"range", b"bytes=100-65999")]),
                                 R(b"GET", b"/m.bin", [(b"accept-encoding", b"br"), (b"range", b"bytes=0-69999")]), R(b"GET", b"/h/big"), R(b"GET", b"/f.txt")], "corpus-large"))
    huge = make_cfg(files=FILES_HUGE, sndbuf=rng.choice([0, 4096]))
    cases.append(conn_case(huge, [R(b"GET", b"/huge.bin"), R(b"GET", b"/f.txt"), R(b"HEAD", b"/huge.bin"), R(b"GET", b"/f.txt")], "corpus-huge"))
    cases.append(conn_case(huge, [R(b"GET", b"/s/huge.bin"), R(b"GET", b"/f.txt"), R(b"GET", b"/s/huge.bin", [(b"range", b"bytes=1299990-1400000")]), R(b"GET", b"/f.txt")], "corpus-huge"))
    # heads larger than the 2 KiB buffer of send_response (a long handler header) are in /h/long below; request heads on the
    # boundaries of the server's reads, first alone, then the blank line split off by the client
    for seq in head_sweep(rng, [511, 512, 513, 514, 515, 1023, 1024, 1025, 1026]):
        cases.append(conn_case(plain, seq, "corpus-head-length"))
    cases.append(conn_case(plain, [R(b"GET", b"/f.txt", flags=f_tail(k)) for k in (1, 2, 3, 4)] + [R(b"POST", b"/h/r", [(b"content-length", b"3")], b"abc", 3, flags=f_tail(1)),
                                   R(b"GET", b"/f.txt", flags=f_pieces(1)), R(b"HEAD", b"/h/a", flags=f_pieces(3)), R(b"GET", b"/f.txt")], "corpus-head-split"))
    cases.append(conn_case(plain, [R(b"GET", b"/f.txt", flags=F_HTTP10), R(b"HEAD", b"/f.txt", flags=F_HTTP10), R(b"GET", b"/h/a", [(b"connection", b"keep-alive")], flags=F_HTTP10),
                                   R(b"GET", b"/f.txt")], "corpus-http10"))
    cases.append(conn_case(plain, [R(b"TRACE", b"/f.txt"), R(b"CONNECT", b"/f.txt"), R(b"DELETE", b"/f.txt", [(b"content-length", b"3")], b"abc", 0),
                                   R(b"PATCH", b"/h/r", [(b"content-length", b"3")], b"abc", 1), R(b"TRACE", b"/h/a"), R(b"GET", b"/f.txt")], "corpus-methods"))
    # ---- client behaviour outside the property (compared with the model, no oracle): the body never arrives
    cases.append(conn_case(make_cfg(wait_close=2500, retry=False), [R(b"GET", b"/f.txt"), R(b"POST", b"/f.txt", [(b"content-length", b"10")], b"01234", 2, flags=2)], "client-short-body", spec=False))
    cases.append(conn_case(make_cfg(limit=1, wait_close=2500, retry=False), [R(b"GET", b"/f.txt"), R(b"GET", b"/f.txt"), R(b"HEAD", b"/f.txt"), R(b"GET", b"/f.txt"), R(b"GET", b"/f.txt")], "limiter-drop", spec=False))

    # ---- generated histories
    nseq = 9000 if thorough else 250
    for k in range(nseq):
        n = rng.randint(1, 12)
        limit = rng.choice([0] * 5 + [4, 5, 6])
        dext = rng.random() < 0.3
        files = FILES_M if rng.random() < 0.08 else FILES
        c = make_cfg(cache=rng.random() < 0.7, default_ext=dext, disable_ims=rng.random() < 0.15, limit=limit, files=files,
                     sndbuf=4096 if files is FILES_M or rng.random() < 0.2 else 0)
        # with the default extensions an Origin header makes the rest of the history unpredicted (CORS, C13): keep it rare there
        reqs = rand_sequence(rng, n, origin_p=0.15 if dext else 1.0)
        if files is FILES_M:
            reqs[rng.randrange(len(reqs))] = R(rng.choice([b"GET", b"HEAD"]), rng.choice([b"/m.bin", b"/s/big.bin"]),
                                               [(b"range", b"bytes=%d-%d" % (rng.choice([0, 65535, 65536, 69990]), rng.choice([65536, 69999, 99999])))] if rng.random() < 0.5 else [])
        kind = "history-limited" if limit else "history"
        u = rng.random()
        if u < 0.06:
            m = rng.choice([b"GET", b"HEAD", b"POST"])
            reqs[-1] = R(m, rng.choice(TARGETS), flags=1)
            c = make_cfg(cache=True, limit=limit, wait_close=2500, retry=False)
            kind = "history-nohost-last"
        elif u < 0.16:
            # a stream of unknown length somewhere: it is the last answer of the connection
            reqs[rng.randrange(len(reqs))] = R(rng.choice([b"GET", b"GET", b"HEAD", b"POST"]), NOLEN, [(b"range", b"bytes=1-2")] if rng.random() < 0.3 else [])
            kind = "history-closing"
        cases.append(conn_case(c, reqs, kind))
    # ---- histories that cross the limiter's drop level (3 x max): 429 answers, then the connection is closed unanswered
    for k in range(200 if thorough else 8):
        mx = rng.choice([1, 2, 2, 3])
        n = rng.randint(3 * mx, 3 * mx + 3)
        reqs = [R(rng.choice([b"GET", b"GET", b"HEAD", b"POST", b"OPTIONS"]), rng.choice([b"/f.txt", b"/h/a", b"/missing.txt", b"/h/k", b"/s/file.txt"])) for _ in range(n)]
        cases.append(conn_case(make_cfg(limit=mx, wait_close=2500, retry=False), reqs, "history-limiter-drop", spec=False))
    # ---- sweeps of the request-head length over the boundaries of the server's reads, on persistent connections
    sizes = list(range(505, 520)) + list(range(1019, 1030)) + [1535, 1536, 1537] + list(range(2045, 2052)) + [3071, 3072, 3073] + list(range(4093, 4100)) + [8191, 8192, 8193]
    if thorough:
        sizes += list(range(200, 4200, 1))
    else:
        sizes += [rng.randrange(140, 9000) for _ in range(24)] + [512 * k + d for k in range(3, 16) for d in (0, 1)]
    rng.shuffle(sizes)
    for seq in head_sweep(rng, sizes):
        cases.append(conn_case(make_cfg(cache=rng.random() < 0.7), seq, "head-length-sweep"))
    if thorough:
        # the same through a RunConfig::execute server on a loopback port (its accept loop shares the limiter: disabled)
        for k in range(1000):
            c = make_cfg(cache=rng.random() < 0.7, default_ext=rng.random() < 0.3, server=True)
            cases.append(conn_case(c, rand_sequence(rng, rng.randint(1, 12)), "server-history"))
    else:
        for k in range(6):
            c = make_cfg(cache=rng.random() < 0.7, server=True)
            cases.append(conn_case(c, rand_sequence(rng, rng.randint(2, 8)), "server-history"))

    # ---- the printer alone, called directly
    nprint = 20000 if thorough else 1500
    names = [b"content-type", b"x-a", b"etag", b"set-cookie", b"server", b"x-long-header-name-0123456789", b"a", b"content-length", b"vary"]
    for k in range(nprint):
        status = rng.choice([200, 204, 206, 304, 404, 405, 416, 429, 100, 999, 599, 418, 451, 299, rng.randint(100, 999)])
        version = rng.choice([11, 11, 11, 10, 9, 20, 30])
        hs = []
        for n in rng.sample(names, rng.randint(0, 5)):
            for _ in range(rng.choice([1, 1, 1, 2])):
                v = bytes(rng.choice(b"abcXYZ019 ;=,/\t\"~\x80\xff") for _ in range(rng.randint(0, 12)))
                hs.append(xl(xb(n), xb(v)))
        if k % 50 == 0:
            # a head larger than the 2 KiB buffer the head is written through
            hs += [xl(xb(b"x-big-%d" % j), xb(b"v" * rng.randint(100, 400))) for j in range(rng.randint(6, 12))]
        body = rand_body(rng, rng.choice([0, 0, 1, 10, 50]))
        cases.append(Case("h1w.print", xl(xn(version), xn(status), xlist(hs), xb(body)), None, {"kind": "print"}, "dev"))
    return cases


# ---------------------------------------------------------------------------------------------------
# second stage: everything the server wrote goes through the extracted Coq parser
# ---------------------------------------------------------------------------------------------------
_DRV = None          # the model driver and the spec outputs of the run, for outputs that arrive unstaged (runner's retries)
_SPEC = {}


def _methods(c):
    return [METHOD_CODE.get(r[1][0][1], 4) for r in c.x[1][1][1]]


def _closing(c, spec):
    """the property's expectation says: the last answer is a stream of unknown length, ended by the close"""
    sp = spec.get(c.id)
    if not sp:
        return False
    sx = xparse(sp)
    return sx[0] == "L" and len(sx[1]) == 5 and sx[1][3][1] == 1


def _stage2(cases, impl, drv, spec):
    lines, meta = [], {}
    for c in cases:
        if not c.comp.startswith("h1w.conn") or c.id not in impl:
            continue
        x = xparse(impl[c.id])
        if x[0] != "L" or len(x[1]) != 8:
            continue
        raw, final, sent, answered, confused, frames, attempts, slow = x[1]
        ms = _methods(c)
        k = sent[1] if confused[1] else answered[1]
        comp = "h1w.parse_closing" if _closing(c, spec) else "h1w.parse"
        lines.append("%s %s %s" % (c.id, comp, xtext(xl(xlist([xn(m) for m in ms[:k]]), raw))))
        meta[c.id] = (final, sent, answered, confused, frames, attempts, slow)
    parsed = kv._run_sharded(drv, lines) if lines else {}
    for cid, (final, sent, answered, confused, frames, attempts, slow) in meta.items():
        p = xparse(parsed[cid]) if cid in parsed else ("L", [("N", 97)])
        # the raw bytes stay in the replay only when they are small
        impl[cid] = xtext(xl(p, final, sent, answered, confused, frames, attempts, slow))


def _canon(body, status=0):
    """error pages are compared by class: the property does not fix their text"""
    if body.startswith(b"<!DOCTYPE html><html><head><meta name='color-scheme' content='dark light'><title>"):
        return b"ERRPAGE"
    if body.startswith(b"<html><head><title>429 Too Many Requests</title>"):
        return b"TOOMANY"
    if status >= 400 and body[:1] == b"<" and body.rstrip().lower().endswith(b"</html>"):
        return b"TOOMANY" if status == 429 else b"ERRPAGE"
    return body


def _hdr(hs, name):
    for h in hs:
        if h[1][0][1].lower() == name:
            return h[1][1][1]
    return None


def _select(hs):
    out = []
    for n in REPORT:
        out += [(h[1][0][1], h[1][1][1]) for h in hs if h[1][0][1] == n]
    return out


def _view(c, i):
    x = xparse(i)
    if x[0] == "L" and len(x[1]) == 8 and x[1][0][0] == "B" and _DRV is not None:
        # not yet through the second stage (a case the runner ran again)
        tmp = {c.id: i}
        _stage2([c], tmp, _DRV, _SPEC)
        x = xparse(tmp[c.id])
    if x[0] != "L" or len(x[1]) != 8:
        return None
    p, final, sent, answered, confused, frames, attempts, slow = x[1]
    resp = None
    if p[0] == "L" and len(p[1]) == 1:
        resp = p[1][0][1]
    c.meta["attempts"] = attempts[1]
    return {"resp": resp, "final": final[1], "sent": sent[1], "answered": answered[1], "confused": confused[1], "frames": frames[1],
            "attempts": attempts[1], "slow": slow[1]}


def _no_reason(b):
    """a printed response with the reason phrase blanked: the phrases are the http crate's, no statement is about them"""
    eol = b.find(b"\r\n")
    if eol < 0:
        return b
    parts = b[:eol].split(b" ", 2)
    if len(parts) < 2:
        return b
    return b" ".join(parts[:2]) + b" -" + b[eol:]


def compare(c, i, m):
    if not c.comp.startswith("h1w.conn"):
        if c.comp == "h1w.print":
            xi, xm = xparse(i), xparse(m)
            if xi[0] == "B" and xm[0] == "B":
                return _no_reason(xi[1]) == _no_reason(xm[1])
        return i == m
    v, mx = _view(c, i), xparse(m)
    if v is None or mx[0] != "L" or len(mx[1]) != 2:
        return False
    preds, mfinal = mx[1][0][1], mx[1][1][1]
    if mfinal >= 2:
        c.meta["unmodelled"] = True
        return True                      # the model does not describe this client behaviour (counted in the evidence)
    nanswered = len([p for p in preds if p[1]])
    if v["confused"] or v["resp"] is None or len(v["resp"]) != nanswered or v["answered"] != nanswered or v["final"] != mfinal:
        return False
    preds = [p for p in preds if p[1]]
    reqs = c.x[1][1][1]
    for k, (r, p) in enumerate(zip(v["resp"], preds)):
        if p[1] == [("N", 7)]:
            continue
        ver, st, _reason, hs, body = [y[1] for y in r[1]]
        pver, pst, _preason, phs, pbody = [y[1] for y in p[1]]
        enc = _hdr(hs, b"content-encoding")
        sel = _select(hs)
        psel = [(h[1][0][1], h[1][1][1]) for h in phs]
        has_range = any(h[1][0][1] == b"range" for h in reqs[k][1][2][1])
        is_head = reqs[k][1][0][1] == b"HEAD"
        ae = [h[1][1][1] for h in reqs[k][1][2][1] if h[1][0][1] == b"accept-encoding"]
        if (has_range and ae and ae[0] != b"identity" and st == 416 and pst == 206
                and _hdr(hs, b"reason") == b"Range start after end of body"):
            # the range was applied to a coded representation shorter than the identity one (the 416 page itself is not coded)
            if ver != pver or _hdr(hs, b"connection") != dict(psel).get(b"connection"):
                return False
        elif has_range and st >= 400 and pst >= 400 and _hdr(hs, b"content-range") is not None:
            # a range of an error page: which bytes and of how many depends on the page's text, which no statement fixes
            if (ver, st) != (pver, pst) or _hdr(hs, b"connection") != dict(psel).get(b"connection"):
                return False
        elif enc in (None, b"identity"):
            if (ver, st, sel, _canon(body, st)) != (pver, pst, psel, _canon(pbody, pst)):
                return False
        elif has_range:
            # a range of the compressed representation: status, content-range and bytes depend on the encoder
            if ver != pver or _hdr(hs, b"connection") != dict(psel).get(b"connection"):
                return False
        else:
            fr = v["frames"][k][1]
            if (ver, st, sel) != (pver, pst, psel):
                return False
            if not is_head and (fr[0][1] != 1 or _canon(fr[1][1], st) != _canon(pbody, pst)):
                return False
    return True


def spec_ok(c, i, s):
    """the property on the implementation's bytes: the Coq parser accepts them as exactly one response per request, in
    order (nothing left over), the connection is still usable - or, after a stream of unknown length, closed by the server
    with that stream as the last thing on it - and HEAD announces the length GET gets"""
    v, sx = _view(c, i), xparse(s)
    if v is None or sx[0] != "L" or len(sx[1]) != 5:
        return False
    n, must_open, closing = sx[1][0][1], sx[1][1][1], sx[1][3][1]
    c.meta["instance"] = sx[1][2][1]
    c.meta["closing_instance"] = sx[1][4][1]
    summary = "; ".join(_req_text(r) for r in c.x[1][1][1])
    if v["confused"] or v["resp"] is None or len(v["resp"]) != n or v["answered"] != n:
        c.meta["why"] = ("the strict client does not find exactly one well-formed response per request (%d requests sent, %d answered%s%s)"
                         % (v["sent"], v["answered"], ", then the client could not go on" if v["confused"] else "",
                            "; the client waited in vain in each of %d attempts" % v["attempts"] if v["slow"] else "")) + " -- requests: " + summary
        return False
    if must_open and v["final"] != 0:
        c.meta["why"] = "the server closed the connection -- requests: " + summary
        return False
    if closing and v["final"] != 1:
        c.meta["why"] = "a response without a length was written and the server did not close the connection -- requests: " + summary
        return False
    if closing and n and _hdr(v["resp"][n - 1][1][3][1], b"content-length") is None and _hdr(v["resp"][n - 1][1][3][1], b"connection") != b"close":
        c.meta["why"] = "a response without a length does not say connection: close -- requests: " + summary
        return False
    reqs = c.x[1][1][1]
    for k in range(n - 1):
        a, b = reqs[k][1], reqs[k + 1][1]
        ms = {a[0][1], b[0][1]}
        if ms == {b"GET", b"HEAD"} and a[1] == b[1] and a[2] == b[2] and not (a[5][1] & 1) and not (b[5][1] & 1):
            ra, rb = v["resp"][k][1], v["resp"][k + 1][1]
            sa, sb = ra[1][1], rb[1][1]
            cond = any(h[1][0][1] == b"if-modified-since" for h in a[2][1])
            if sa == sb and sa not in (404, 429) and not cond and b"/h/k" not in a[1][1]:
                if _hdr(ra[3][1], b"content-length") != _hdr(rb[3][1], b"content-length"):
                    c.meta["why"] = "HEAD and GET of the same resource announce different lengths"
                    return False
    return True


def _req_text(r):
    m, t, hs, body, early, flags = [y[1] for y in r[1]]
    out = "%s %s" % (m.decode("latin1"), t.decode("latin1"))
    hl = head_len(m, t, [(h[1][0][1], h[1][1][1]) for h in hs])
    hh = ", ".join("%s: %s" % (h[1][0][1].decode("latin1"), (h[1][1][1][:24] + b"..." if len(h[1][1][1]) > 24 else h[1][1][1]).decode("latin1")) for h in hs)
    out += " [%s]" % hh if hh else ""
    out += " (head %d B" % hl + (", body %d B of which %d with the head" % (len(body), min(early, len(body))) if body else "") + (", flags %#x" % flags if flags else "") + ")"
    return out


def is_trouble(c, i):
    """the server of a server-mode case did not come up in three attempts"""
    return i.startswith("(L (N 95))") or i.startswith("(L (N 93)")


def classify(c, i):
    return None


def signature(c, m):
    return str(hash(m))


def directed(rng, mismatches):
    cases = []
    for k in range(600):
        c = make_cfg(cache=rng.random() < 0.7, default_ext=rng.random() < 0.2, limit=rng.choice([0, 0, 4]))
        cases.append(conn_case(c, rand_sequence(rng, rng.randint(2, 12)), "directed"))
    return cases


def describe(c):
    d = {"component": c.comp, "input": kv.pretty(c.x, 120), "profile": c.profile, "kind": c.meta.get("kind")}
    return d


def extra_coverage(cases, impl, model, spec):
    conn = [c for c in cases if c.comp.startswith("h1w.conn")]
    un = sum(1 for c in conn if c.meta.get("unmodelled"))
    nreq = sum(len(c.x[1][1][1]) for c in conn)
    unpred = sum(model.get(c.id, "").count("(L (N 7))") for c in conn)
    again = [c for c in conn if c.meta.get("attempts", 1) > 1]
    return {"connection_histories": len(conn), "requests_sent": nreq,
            "histories_that_are_instances_of_the_connection_theorem": sum(1 for c in conn if c.meta.get("instance") == 1),
            "histories_that_are_instances_of_the_closing_theorem": sum(1 for c in conn if c.meta.get("closing_instance") == 1),
            "responses_framed_but_not_predicted": unpred, "histories_outside_the_connection_model": un,
            "histories_run_again_after_a_client_timeout": [{"id": c.id, "kind": c.meta.get("kind"), "attempts": c.meta.get("attempts")} for c in again[:20]]}


def main(tier, seed, replay):
    global _DRV, _SPEC
    import runner
    orig = kv.run_cases

    def run_cases(cases, bins, drv, **kw):
        global _DRV, _SPEC
        impl, model, spec = orig(cases, bins, drv, **kw)
        _DRV, _SPEC = drv, spec
        _stage2(cases, impl, drv, spec)
        return impl, model, spec

    kv.run_cases = run_cases
    try:
        return runner.run_property(sys.modules[__name__], tier, seed, replay)
    finally:
        kv.run_cases = orig


LEVEL_TEXT = ("proved for all response sequences / all histories of the connection model, streamed replies included: strict-client round "
              "trip, content-length = bytes written (body + what the reply's future streams), HEAD = GET's head without body however the body "
              "is produced, one response per request in order on a kept connection, a stream of unknown length is close-delimited and the "
              "last thing on its connection (closing_history), stream_body announces what it sends, names it in content-range (206) and "
              "refuses a range that starts outside the file with a 416 page (no stream), fate of an unread request body; the "
              "model is tied to kvarn by the differential run on every check (that every request head is recognised whatever its length "
              "and segmentation is swept, not proved: C07's reader)")
LEVEL_NOTE = ("seven defects repaired on the way (unread late request body; 429/409 answers to HEAD carried a body; a future's body written "
              "for HEAD; stream_body announcing more than the file holds; a stream of unknown length on a kept keep-alive connection; a body "
              "after 204/304; transfer-encoding beside content-length); the pre-repair behaviour is kept as refutation witnesses. The model "
              "follows the merged tree: stream_body as repaired for C09 (d675f8a: 206 + content-range, 416 when the start is outside the "
              "file - that page, having no future, is then range-sliced by SendKind::send like every error page), valid_method with the "
              "token clause of 2dbf4ed (only the pre-drain witness looks at it)")
TECHNIQUE = ("Coq proof (printer/strict-parser round trip for all response sequences; send-path and connection-loop invariants) + "
             "differential correspondence model vs. implementation, every received byte parsed by the extracted Coq parser")
