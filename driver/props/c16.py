"""C16 — Extensions run in priority order and registry edits do what they say."""
import itertools
import os

from kv import Case, xn, xb, xl, xlist, xz

ID = "C16"
MODULE = "C16"
IMPORTS = "Bytes RustStd Registry PresentLine"
PROFILES = ("dev",)
# C16_ORIG=1 selects the model of the code as it was before the two repairs (reversed remove comparator,
# data_start = pos + 2 on CRLF): used to reproduce the defects through the harness on the unrepaired tree.
ORIG = bool(os.environ.get("C16_ORIG"))
REG = "reg.ops_v0" if ORIG else "reg.ops"
PARSE = "present.parse_v0" if ORIG else "present.parse"

THEOREMS = []   # filled in below (kept at the end of the file for readability)

KINDS = ["prime", "prepare_fn", "present_fn", "package", "post", "prepare_single", "present_internal", "present_file"]
I32_MIN, I32_MAX = -2**31, 2**31 - 1


# ------------------------------------------------------------------------------------------
# registry histories
# ------------------------------------------------------------------------------------------
def rq(kind, code, prio, name):
    return xl(xn(kind), xn(code), xz(prio), xb(name))


def reg_case(init, reqs, kind, spec=True):
    return Case(REG, xl(xn(init), xlist(reqs)), "reg.spec" if spec else None, {"kind": kind})


def seq_case(kind_idx, ops, label, init=0):
    """ops: list of (code, prio); names are unique per position so that a replacement is visible."""
    return reg_case(init, [rq(kind_idx, c, p, b"n%d" % i) for i, (c, p) in enumerate(ops)], label)


def registry_cases(rng, tier):
    cases = []
    # corpus: the confirmed defect ([10,5,1] cannot be emptied), replacement, no_override chains, i32::MIN
    for k in range(5):
        cases.append(seq_case(k, [(0, 10), (0, 5), (0, 1), (2, 10), (2, 5), (2, 1)], "corpus"))
        cases.append(seq_case(k, [(0, 1), (0, 5), (0, 10), (2, 5), (0, 5), (0, 5), (2, 1), (2, 10)], "corpus"))
        cases.append(seq_case(k, [(1, 3), (1, 3), (1, 3), (0, 2), (2, 2), (1, 3), (2, 3), (1, 3)], "corpus"))
        cases.append(seq_case(k, [(0, I32_MIN), (1, I32_MIN), (0, I32_MIN + 1), (1, I32_MIN + 1), (2, I32_MIN), (1, I32_MIN + 1),
                                  (1, I32_MIN + 1)], "i32-min"))
        cases.append(seq_case(k, [(0, I32_MAX), (1, I32_MAX), (1, I32_MAX), (2, I32_MAX), (0, I32_MIN), (2, I32_MIN), (2, 0)], "i32-max"))
    cases.append(reg_case(1, [], "new"))
    # Extensions::new(): builtin priorities (prime 16777216, 16777215, -100; package 128, 10, -1327)
    for _ in range(60 if tier == "quick" else 600):
        n = rng.randrange(1, 9)
        reqs = []
        for i in range(n):
            kind = rng.choice([0, 0, 3, 3, 1, 2, 4, 5, 6, 7])
            code = rng.choice([0, 0, 1, 2, 2])
            prio = rng.choice([16777216, 16777215, 16777214, -100, -101, 128, 10, 9, 8, -1327, -1328, 0, 1])
            name = rng.choice([b"/./cors_fail", b"/./cors_options", b"nonce", b"x", b"tmpl"]) if kind >= 5 else b"n%d" % i
            reqs.append(rq(kind, code, prio, name))
        cases.append(reg_case(1, reqs, "new"))
    prios = [-2, -1, 0, 1, 2, 3]
    alphabet = [(c, p) for c in (0, 1, 2) for p in prios]

    # exhaustive: all sequences up to length L over {add, add no_override, remove} x {-2..3}
    exh_len = 3 if tier == "quick" else 4
    n = 0
    for length in range(1, exh_len + 1):
        for ops in itertools.product(alphabet, repeat=length):
            cases.append(seq_case(n % 5, list(ops), "exhaustive<=%d" % exh_len))
            n += 1
    if tier == "thorough":
        small = [(c, p) for c in (0, 1, 2) for p in (0, 1, 2)]
        for length in (5, 6):
            for ops in itertools.product(small, repeat=length):
                cases.append(seq_case(n % 5, list(ops), "exhaustive-3prios<=6"))
                n += 1
        tiny = [(c, p) for c in (0, 1, 2) for p in (0, 1)]
        for length in (7, 8):
            for ops in itertools.product(tiny, repeat=length):
                if length == 8 and rng.random() < 0.8:
                    continue
                cases.append(seq_case(n % 5, list(ops), "exhaustive-2prios-7/sampled-8"))
                n += 1
    # sampled: lengths 4..8 over the full alphabet
    for _ in range(12000 if tier == "quick" else 150000):
        length = rng.randrange(exh_len + 1, 9)
        ops = [rng.choice(alphabet) for _ in range(length)]
        # bias: make removes hit existing priorities more often
        cases.append(seq_case(rng.randrange(5), ops, "sampled<=8"))
    # mixed kinds (incl. the hash maps) with the final full listing: no edit touches another list
    for _ in range(1500 if tier == "quick" else 20000):
        length = rng.randrange(2, 9)
        reqs = []
        for i in range(length):
            kind = rng.randrange(8)
            code = rng.choice([0, 1, 2]) if kind < 5 else rng.choice([0, 0, 2])
            name = rng.choice([b"a", b"b", b"ab", b"/x", b""]) if kind >= 5 else b"n%d" % i
            reqs.append(rq(kind, code, rng.choice(prios), name))
        cases.append(reg_case(0, reqs, "mixed-kinds"))
    # random long histories, wider priorities, occasionally the i32 ends
    for _ in range(400 if tier == "quick" else 6000):
        length = rng.randrange(9, 60)
        span = rng.choice([3, 6, 12, 40])
        base = rng.choice([0, 0, 0, I32_MIN + span, I32_MAX - span, 1000])
        ops = [(rng.choice([0, 0, 1, 1, 2]), max(I32_MIN, min(I32_MAX, base + rng.randrange(-span, span + 1)))) for _ in range(length)]
        cases.append(seq_case(rng.randrange(5), ops, "random-long"))
    return cases


def bsearch_cases(rng, tier):
    cases = []

    def mk(orient, t, ks, kind):
        return Case("std.bsearch", xl(xn(orient), xz(t), xlist([xz(k) for k in ks])), None, {"kind": kind})

    # exhaustive: every strictly descending list over {0..5} (64 subsets) x every target -1..6 x both orientations
    for mask in range(64):
        ks = [k for k in range(5, -1, -1) if mask >> k & 1]
        for t in range(-1, 7):
            cases.append(mk(0, t, ks, "bsearch-desc"))
            cases.append(mk(1, t, ks, "bsearch-desc"))
            cases.append(mk(0, t, ks[::-1], "bsearch-asc"))
            cases.append(mk(1, t, ks[::-1], "bsearch-asc"))
    for _ in range(1500 if tier == "quick" else 30000):
        n = rng.randrange(0, 40)
        ks = [rng.randrange(-6, 7) for _ in range(n)]
        r = rng.random()
        if r < 0.4:
            ks = sorted(set(ks), reverse=True)
        elif r < 0.6:
            ks = sorted(ks, reverse=True)
        elif r < 0.7:
            ks = sorted(ks)
        cases.append(mk(rng.randrange(2), rng.randrange(-7, 8), ks, "bsearch-random"))
    return cases


# ------------------------------------------------------------------------------------------
# '!> ' lines
# ------------------------------------------------------------------------------------------
TOKEN_PIECES = [b"a", b"b", b"tmpl", b"standard.html", b"md.html", b"allow-ips", b"10.0.0.16", b"cache", b"server:full", b"hide", b"nonce",
                b"&", b">", b"&>x", b"x&>", b"&&>", b"!>", b"!", b"\xc3\xa9", b"\xe2\x82\xac", b"\xf0\x9f\x98\x80", b"z\xc3\xa5", b"0", b"-", b"/", b"=",
                b"\t", b"\x0b", b"\x00", b"\x7f", b"\"q\""]
BODIES = [b"", b"x", b"body", b"File's contents.\n", b"\n", b"\r\n", b"!> other\nrest", b"\nsecond", b" ", b"a b &> c\n", b"\xff\xfe"]


def token(rng):
    while True:
        t = b"".join(rng.choice(TOKEN_PIECES) for _ in range(rng.choice([1, 1, 1, 2, 3])))
        if t != b"&>":
            return t


def grammar_line(rng):
    """'!> ' sp* entry (sp+ '&>' sp+ entry)* [sp+ '&>'] sp* (LF | CRLF)"""
    sp = lambda lo=1: b" " * rng.choice([lo, lo, lo, lo + 1, lo + 2])
    nent = rng.choice([1, 1, 2, 2, 3, 4])
    entries = []
    for _ in range(nent):
        name = token(rng)
        args = [token(rng) for _ in range(rng.choice([0, 1, 1, 2, 3]))]
        entries.append((name, args))
    out = b"!> " + sp(0)
    for i, (name, args) in enumerate(entries):
        if i:
            out += sp() + b"&>" + sp()
        out += name
        for a in args:
            out += sp() + a
    if rng.random() < 0.4:
        out += sp() + b"&>"
    out += sp(0)
    out += rng.choice([b"\n", b"\r\n"])
    return out


MALFORMED = [
    b"", b"!", b"!>", b"!> ", b"!>  ", b"!> \n", b"!> \r\n", b"!>\n", b"!>a\n", b" !> a\n", b"\n!> a\n", b"!> a", b"!> a b &> c", b"!> a\r", b"!> a\rb\n", b"!> a\r\r\n",
    b"!> a\r\n", b"!> a\r\nb", b"!> a\n", b"!>  &> a\n", b"!>   &> a\n", b"!> &> a\n", b"!> &>\n", b"!> &> &> a\n", b"!> a &> &> b\n", b"!> a &>&> b\n",
    b"!> a &>b\n", b"!> a&> b\n", b"!> a &> \n", b"!> a &>  \n", b"!> a &> &>\n", b"!> a\r&> b\n", b"!> a \r &> b\r\n", b"!> a &>\rb\n", b"!> a b\r c\n",
    b"!> a &> b &> c &> d\n", b"!> a a a &> a a\n", b"!> \xff\n", b"!> a \xff\n", b"!> a\n\xff", b"!> \xc3\n", b"!> \xc3 \xa9\n", b"!> a\xc3\n", b"!> \xe2\x82\n",
    b"!> \xed\xa0\x80\n", b"!> \xf4\x90\x80\x80\n", b"!> \xc0\xaf\n", b"!> \xf0\x9f\x98\x80 \xf0\x9f\n", b"!> a\tb\n", b"!> a\x00b c\n", b"!> a\n!> b\n",
    b"!> a b c d e f g h i j k l m n o p\n", b"!> " + b" " * 40 + b"a\n", b"!> a" + b" " * 40 + b"\n", b"!> a &>" + b" " * 5 + b"&> b\n", b"!> a\n\n",
    b"!> a\r\n\r\n", b"!> a \n", b"!> a  &>  b  &>  \r\n", b"<html>\n", b"!!> a\n", b"!> a &> b\r", b"!> \r", b"!> \r\n\r\n",
]


def present_cases(rng, tier):
    cases = []
    for d in MALFORMED:
        cases.append(Case(PARSE, xb(d), None, {"kind": "directed"}))
    # the two unit tests of utils/src/extensions.rs + the confirmed defects
    for d in [b"!> tmpl standard.html md.html &> allow-ips 10.0.0.16 &>\nFile's contents.\n",
              b"!>  tmpl standard.html  md.html  &>\nFile's contents.\n",
              b"!> a\r\n", b"!> a\r\nbody", b"!> tmpl x.html &> hide\r\n<html>"]:
        cases.append(Case(PARSE, xb(d), "present.spec", {"kind": "corpus-line"}))
    for _ in range(6000 if tier == "quick" else 120000):
        line = grammar_line(rng)
        cases.append(Case(PARSE, xb(line + rng.choice(BODIES)), "present.spec", {"kind": "grammar"}))
    alphabet = b" &>!\r\nab\xc3\xa9\xff\t"
    for _ in range(5000 if tier == "quick" else 100000):
        r = rng.random()
        if r < 0.6:
            h = bytearray(grammar_line(rng) + rng.choice(BODIES))
            for _ in range(rng.randrange(1, 4)):
                op = rng.randrange(3)
                pos = rng.randrange(len(h) + 1)
                if op == 0:
                    h.insert(pos, rng.choice(alphabet))
                elif op == 1 and h:
                    del h[min(pos, len(h) - 1)]
                elif h:
                    h[min(pos, len(h) - 1)] = rng.choice(alphabet)
            d = bytes(h)
        elif r < 0.85:
            d = b"!> " + bytes(rng.choice(alphabet) for _ in range(rng.randrange(0, 24)))
        else:
            d = bytes(rng.randrange(256) for _ in range(rng.randrange(0, 16)))
        cases.append(Case(PARSE, xb(d), None, {"kind": "malformed"}))
    cases.append(Case("present.empty_args", xl(), None, {"kind": "empty-args"}))
    return cases


def generate(rng, tier):
    return registry_cases(rng, tier) + bsearch_cases(rng, tier) + present_cases(rng, tier)


def signature(c, m):
    if c.comp.startswith("reg."):
        return "steps=%d" % len(c.x[1][1][1]) if c.x[1][1][1] else None
    if c.comp == "std.bsearch":
        return m[:12] if c.x[1][2][1] else None
    if c.comp.startswith("present.parse"):
        if m.startswith("(L (N 0) (L (L"):
            return "some"
        if c.x[1][:3] == b"!> ":
            return "none-after-prefix" if m.startswith("(L (N 0)") else "panic"
        return None
    return "x"


def directed(rng, mismatches):
    cases = []
    prios = [-2, -1, 0, 1, 2, 3]
    alphabet = [(c, p) for c in (0, 1, 2) for p in prios]
    for k in range(5):
        for length in (1, 2, 3):
            for ops in itertools.product(alphabet, repeat=length):
                if length == 3 and rng.random() < 0.5:
                    continue
                cases.append(seq_case(k, list(ops), "directed"))
    for _ in range(20000):
        cases.append(Case(PARSE, xb(grammar_line(rng) + rng.choice(BODIES)), "present.spec", {"kind": "directed"}))
    return cases


RULE = "filled below"
ASSUMPTIONS = []
TRUSTED = []
LEVEL_TEXT = ""
LEVEL_NOTE = ""
TECHNIQUE = "Coq proof (refinement / parser correctness for all inputs) + differential correspondence model vs. implementation"
