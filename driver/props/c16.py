"""C16 — Extensions run in priority order and registry edits do what they say."""
import itertools
import os
import re
import subprocess

import kv
from kv import Case, xn, xb, xl, xlist, xz

ID = "C16"
MODULE = "C16"
MAX_NOT_EXECUTED = 25      # harness trouble (load) is retried; more than this many cases without an implementation side fail the run
IMPORTS = "Bytes RustStd Registry PresentLine RunOrder RunSpec RustStdProofs RegistryProofs PresentLineProofs RunOrderProofs RunSpecProofs"
PROFILES = ("dev",)
# C16_V0=1 selects the models of the code as it was before the repairs aa785b7 / e1abeb3 (reversed remove
# comparator, data_start = pos + 2 on CRLF): used to reproduce the defects through the harness on the unrepaired tree.
ORIG = bool(os.environ.get("C16_V0"))
REG = "reg.ops_v0" if ORIG else "reg.ops"
PARSE = "present.parse_v0" if ORIG else "present.parse"

KINDS = ["prime", "prepare_fn", "present_fn", "package", "post", "prepare_single", "present_internal", "present_file"]
I32_MIN, I32_MAX = -2**31, 2**31 - 1


# ------------------------------------------------------------------------------------------
# registry histories
# ------------------------------------------------------------------------------------------
def rq(kind, code, prio, name):
    return xl(xn(kind), xn(code), xz(prio), xb(name))


def reg_case(init, reqs, kind, spec=True):
    return Case(REG, xl(xn(init), xlist(reqs)), "reg.spec" if spec else None, {"kind": kind})


def seq_case(kind_idx, ops, label, init=0):
    """ops: list of (code, prio); names are unique per position so that a replacement is visible."""
    return reg_case(init, [rq(kind_idx, c, p, b"n%d" % i) for i, (c, p) in enumerate(ops)], label)


_NEW = []


def new_listing():
    """What the real Extensions::new() lists (five vectors, three key sets), read from the harness built for this run: the start state
    of the 'new' histories.  The model takes it as given (it only checks that the vectors are strictly descending), so the names and
    priorities of kvarn's built-in extensions are not pinned by this check.  None if the harness cannot be asked."""
    if not _NEW:
        out = None
        try:
            binary = os.path.join(kv.HARNESS, "target", "debug", "kvh")
            p = subprocess.run([binary], input="n reg.new_listing (L)\n", capture_output=True, text=True, timeout=300, env=kv.ENV)
            for line in p.stdout.split("\n"):
                if line.startswith("n (L (L"):
                    out = kv.xparse(line[2:])
        except Exception:
            out = None
        _NEW.append(out)
    return _NEW[0]


# bounded-exhaustive part of the quantifier ("all operation sequences up to length 8 over a small range"): what is affordable per tier.
# alphabet = {add, add with no_override, remove} x priorities; every sequence of every length up to the bound is run on one of the five vectors.
EXHAUSTIVE = {
    "quick": [(3, [-2, -1, 0, 1, 2, 3]), (4, [0, 1, 2]), (5, [0, 1])],
    "thorough": [(4, [-2, -1, 0, 1, 2, 3]), (6, [0, 1, 2]), (7, [0, 1])],
}
SAMPLED_8 = {"quick": 0, "thorough": 0.1}     # share of the length-8 sequences over two priorities that is run


def registry_cases(rng, tier):
    cases = []
    # corpus: the confirmed defect ([10,5,1] cannot be emptied), replacement, no_override chains, i32::MIN
    for k in range(5):
        cases.append(seq_case(k, [(0, 10), (0, 5), (0, 1), (2, 10), (2, 5), (2, 1)], "corpus"))
        cases.append(seq_case(k, [(0, 1), (0, 5), (0, 10), (2, 5), (0, 5), (0, 5), (2, 1), (2, 10)], "corpus"))
        cases.append(seq_case(k, [(1, 3), (1, 3), (1, 3), (0, 2), (2, 2), (1, 3), (2, 3), (1, 3)], "corpus"))
        cases.append(seq_case(k, [(0, I32_MIN), (1, I32_MIN), (0, I32_MIN + 1), (1, I32_MIN + 1), (2, I32_MIN), (1, I32_MIN + 1),
                                  (1, I32_MIN + 1)], "i32-min"))
        cases.append(seq_case(k, [(0, I32_MAX), (1, I32_MAX), (1, I32_MAX), (2, I32_MAX), (0, I32_MIN), (2, I32_MIN), (2, 0)], "i32-max"))
    cases.append(Case("reg.present_fn_getter", xl(), "reg.present_fn_getter", {"kind": "getter"}))
    # histories that start from Extensions::new(): the start state is what the running code lists
    new = new_listing()
    init = new if new is not None else xn(1)
    cases.append(Case(REG, xl(init, xlist([])), "reg.spec", {"kind": "new"}))
    if new is not None:
        builtin = sorted({_z(e[1][0]) for l in new[1][0][1] for e in l[1]})
        keys = [k[1] for m in new[1][1][1] for k in m[1]]
    else:
        builtin, keys = [16777216, 16777215, -100, 128, 10, -1327], [b"/./cors_fail", b"/./cors_options", b"nonce"]
    near = sorted({p + d for p in builtin for d in (-1, 0, 1) if I32_MIN <= p + d <= I32_MAX} | {0, 1})
    for _ in range(60 if tier == "quick" else 600):
        n = rng.randrange(1, 9)
        reqs = []
        for i in range(n):
            kind = rng.choice([0, 0, 3, 3, 1, 2, 4, 5, 6, 7])
            code = rng.choice([0, 0, 1, 2, 2])
            name = rng.choice(keys + [b"x", b"tmpl"]) if kind >= 5 else b"n%d" % i
            reqs.append(rq(kind, code, rng.choice(near), name))
        cases.append(Case(REG, xl(init, xlist(reqs)), "reg.spec", {"kind": "new"}))
    prios = [-2, -1, 0, 1, 2, 3]
    alphabet = [(c, p) for c in (0, 1, 2) for p in prios]
    n = 0
    seen = set()
    for bound, ps in EXHAUSTIVE[tier]:
        alpha = [(c, p) for c in (0, 1, 2) for p in ps]
        for length in range(1, bound + 1):
            for ops in itertools.product(alpha, repeat=length):
                if ops in seen:
                    continue
                seen.add(ops)
                cases.append(seq_case(n % 5, list(ops), "exhaustive<=%d/%dprios" % (bound, len(ps))))
                n += 1
    if SAMPLED_8[tier]:
        tiny = [(c, p) for c in (0, 1, 2) for p in (0, 1)]
        for ops in itertools.product(tiny, repeat=8):
            if rng.random() < SAMPLED_8[tier]:
                cases.append(seq_case(n % 5, list(ops), "sampled-8/2prios"))
                n += 1
    # sampled: lengths up to 8 over the full alphabet
    for _ in range(12000 if tier == "quick" else 150000):
        length = rng.randrange(4, 9)
        ops = [rng.choice(alphabet) for _ in range(length)]
        cases.append(seq_case(rng.randrange(5), ops, "sampled<=8"))
    # mixed kinds (incl. the hash maps) with the final full listing: no edit touches another list
    for _ in range(1500 if tier == "quick" else 20000):
        length = rng.randrange(2, 9)
        reqs = []
        for i in range(length):
            kind = rng.randrange(8)
            code = rng.choice([0, 1, 2]) if kind < 5 else rng.choice([0, 0, 2])
            name = rng.choice([b"a", b"b", b"ab", b"/x", b""]) if kind >= 5 else b"n%d" % i
            reqs.append(rq(kind, code, rng.choice(prios), name))
        cases.append(reg_case(0, reqs, "mixed-kinds"))
    # random long histories, wider priorities, occasionally the i32 ends
    for _ in range(400 if tier == "quick" else 6000):
        length = rng.randrange(9, 60)
        span = rng.choice([3, 6, 12, 40])
        base = rng.choice([0, 0, 0, I32_MIN + span, I32_MAX - span, 1000])
        ops = [(rng.choice([0, 0, 1, 1, 2]), max(I32_MIN, min(I32_MAX, base + rng.randrange(-span, span + 1)))) for _ in range(length)]
        cases.append(seq_case(rng.randrange(5), ops, "random-long"))
    return cases


def bsearch_cases(rng, tier):
    cases = []

    def mk(orient, t, ks, kind):
        return Case("std.bsearch", xl(xn(orient), xz(t), xlist([xz(k) for k in ks])), None, {"kind": kind})

    # exhaustive: every strictly descending list over {0..5} (64 subsets) x every target -1..6 x both orientations
    for mask in range(64):
        ks = [k for k in range(5, -1, -1) if mask >> k & 1]
        for t in range(-1, 7):
            cases.append(mk(0, t, ks, "bsearch-desc"))
            cases.append(mk(1, t, ks, "bsearch-desc"))
            cases.append(mk(0, t, ks[::-1], "bsearch-asc"))
            cases.append(mk(1, t, ks[::-1], "bsearch-asc"))
    for _ in range(1500 if tier == "quick" else 30000):
        n = rng.randrange(0, 40)
        ks = [rng.randrange(-6, 7) for _ in range(n)]
        r = rng.random()
        if r < 0.4:
            ks = sorted(set(ks), reverse=True)
        elif r < 0.6:
            ks = sorted(ks, reverse=True)
        elif r < 0.7:
            ks = sorted(ks)
        cases.append(mk(rng.randrange(2), rng.randrange(-7, 8), ks, "bsearch-random"))
    return cases


# ------------------------------------------------------------------------------------------
# '!> ' lines
# ------------------------------------------------------------------------------------------
TOKEN_PIECES = [b"a", b"b", b"tmpl", b"standard.html", b"md.html", b"allow-ips", b"10.0.0.16", b"cache", b"server:full", b"hide", b"nonce",
                b"&", b">", b"&>x", b"x&>", b"&&>", b"!>", b"!", b"\xc3\xa9", b"\xe2\x82\xac", b"\xf0\x9f\x98\x80", b"z\xc3\xa5", b"0", b"-", b"/", b"=",
                b"\t", b"\x0b", b"\x0c", b"\xc2\xa0", b"\x00", b"\x7f", b"\"q\""]
BODIES = [b"", b"x", b"body", b"File's contents.\n", b"\n", b"\r\n", b"!> other\nrest", b"\nsecond", b" ", b"a b &> c\n", b"\xff\xfe"]


def token(rng):
    while True:
        t = b"".join(rng.choice(TOKEN_PIECES) for _ in range(rng.choice([1, 1, 1, 2, 3])))
        if t != b"&>":
            return t


def grammar_line(rng):
    """'!> ' sp* entry (sp+ '&>' sp+ entry)* [sp+ '&>'] sp* (LF | CRLF)"""
    sp = lambda lo=1: b" " * rng.choice([lo, lo, lo, lo + 1, lo + 2])
    nent = rng.choice([1, 1, 2, 2, 3, 4])
    entries = []
    for _ in range(nent):
        name = token(rng)
        args = [token(rng) for _ in range(rng.choice([0, 1, 1, 2, 3]))]
        entries.append((name, args))
    out = b"!> " + sp(0)
    for i, (name, args) in enumerate(entries):
        if i:
            out += sp() + b"&>" + sp()
        out += name
        for a in args:
            out += sp() + a
    if rng.random() < 0.4:
        out += sp() + b"&>"
    out += sp(0)
    out += rng.choice([b"\n", b"\r\n"])
    return out


MALFORMED = [
    b"", b"!", b"!>", b"!> ", b"!>  ", b"!> \n", b"!> \r\n", b"!>\n", b"!>a\n", b" !> a\n", b"\n!> a\n", b"!> a", b"!> a b &> c", b"!> a\r", b"!> a\rb\n", b"!> a\r\r\n",
    b"!> a\r\n", b"!> a\r\nb", b"!> a\n", b"!>  &> a\n", b"!>   &> a\n", b"!> &> a\n", b"!> &>\n", b"!> &> &> a\n", b"!> a &> &> b\n", b"!> a &>&> b\n",
    b"!> a &>b\n", b"!> a&> b\n", b"!> a &> \n", b"!> a &>  \n", b"!> a &> &>\n", b"!> a\r&> b\n", b"!> a \r &> b\r\n", b"!> a &>\rb\n", b"!> a b\r c\n",
    b"!> a &> b &> c &> d\n", b"!> a a a &> a a\n", b"!> \xff\n", b"!> a \xff\n", b"!> a\n\xff", b"!> \xc3\n", b"!> \xc3 \xa9\n", b"!> a\xc3\n", b"!> \xe2\x82\n",
    b"!> \xed\xa0\x80\n", b"!> \xf4\x90\x80\x80\n", b"!> \xc0\xaf\n", b"!> \xf0\x9f\x98\x80 \xf0\x9f\n", b"!> a\tb\n", b"!> a\x00b c\n", b"!> a\n!> b\n",
    b"!> a b c d e f g h i j k l m n o p\n", b"!> " + b" " * 40 + b"a\n", b"!> a" + b" " * 40 + b"\n", b"!> a &>" + b" " * 5 + b"&> b\n", b"!> a\n\n",
    b"!> a\r\n\r\n", b"!> a \n", b"!> a  &>  b  &>  \r\n", b"<html>\n", b"!!> a\n", b"!> a &> b\r", b"!> \r", b"!> \r\n\r\n",
]


def words(rng):
    """a line as the theorem present_line_spec quantifies it: words joined by single spaces; an empty word = one more space"""
    n = rng.choice([0, 1, 1, 2, 3, 4, 5, 6, 8, 12])
    ws = []
    for _ in range(n):
        r = rng.random()
        ws.append(b"" if r < 0.2 else b"&>" if r < 0.4 else token(rng))
    return ws


def line_case(ws, crlf, rest, kind):
    return Case("present.line", xl(xlist([xb(w) for w in ws]), xn(1 if crlf else 0), xb(rest)), "present.spec_line", {"kind": kind})


def present_cases(rng, tier):
    cases = []
    for d in MALFORMED:
        cases.append(Case(PARSE, xb(d), "present.nopanic", {"kind": "directed"}))
    # the two unit tests of utils/src/extensions.rs + the confirmed defects
    for d in [b"!> tmpl standard.html md.html &> allow-ips 10.0.0.16 &>\nFile's contents.\n",
              b"!>  tmpl standard.html  md.html  &>\nFile's contents.\n",
              b"!> a\r\n", b"!> a\r\nbody", b"!> tmpl x.html &> hide\r\n<html>"]:
        cases.append(Case(PARSE, xb(d), "present.spec", {"kind": "corpus-line"}))
    for _ in range(6000 if tier == "quick" else 120000):
        line = grammar_line(rng)
        cases.append(Case(PARSE, xb(line + rng.choice(BODIES)), "present.spec", {"kind": "grammar"}))
    alphabet = b" &>!\r\nab\xc3\xa9\xff\t\x0c"
    for _ in range(5000 if tier == "quick" else 100000):
        r = rng.random()
        if r < 0.6:
            h = bytearray(grammar_line(rng) + rng.choice(BODIES))
            for _ in range(rng.randrange(1, 4)):
                op = rng.randrange(3)
                pos = rng.randrange(len(h) + 1)
                if op == 0:
                    h.insert(pos, rng.choice(alphabet))
                elif op == 1 and h:
                    del h[min(pos, len(h) - 1)]
                elif h:
                    h[min(pos, len(h) - 1)] = rng.choice(alphabet)
            d = bytes(h)
        elif r < 0.85:
            d = b"!> " + bytes(rng.choice(alphabet) for _ in range(rng.randrange(0, 24)))
        else:
            d = bytes(rng.randrange(256) for _ in range(rng.randrange(0, 16)))
        cases.append(Case(PARSE, xb(d), "present.nopanic", {"kind": "malformed"}))
    # structured lines: the right-hand side of the theorem present_line_spec evaluated on the words
    for ws, crlf, rest in [([b"tmpl", b"standard.html", b"md.html", b"&>", b"allow-ips", b"10.0.0.16", b"&>"], False, b"File's contents.\n"),
                           ([b"", b"tmpl", b"standard.html", b"", b"md.html", b"", b"&>"], False, b"File's contents.\n"),
                           ([], False, b""), ([], True, b"x"), ([b""], True, b""), ([b"a"], True, b""), ([b"a"], True, b"body"),
                           ([b"&>"], False, b"r"), ([b"&>", b"a"], False, b"r"), ([b"", b"&>"], False, b"r"), ([b"", b"&>", b"a"], False, b"r"),
                           ([b"a", b"&>"], True, b"r"), ([b"a", b"&>", b"&>", b"b"], True, b"r"), ([b"a", b"&>", b"", b"&>", b"b", b"c"], True, b"r")]:
        cases.append(line_case(ws, crlf, rest, "corpus-words"))
    for _ in range(6000 if tier == "quick" else 120000):
        cases.append(line_case(words(rng), rng.random() < 0.5, rng.choice(BODIES), "grammar-words"))
    cases.append(Case("present.empty_args", xl(), "present.empty_args", {"kind": "empty-args"}))
    # the argument iterator read from the back (kvarn_extensions' templates: arguments.iter().rev()) and by interleavings of next / next_back
    rev_lines = [b"!> tmpl a b\n", b"!> tmpl a b c d &> x &> y 1\r\nrest", b"!> a\n", b"!> a b\n", b"!>  tmpl   standard.html  md.html  &>\nx", b"!> a a a &> a a\n"]
    for d in rev_lines + MALFORMED:
        cases.append(Case("present.parse_rev", xb(d), "present.rev_spec", {"kind": "args-rev"}))
    for _ in range(2500 if tier == "quick" else 50000):
        r = rng.random()
        d = grammar_line(rng) + rng.choice(BODIES) if r < 0.8 else b"!> " + bytes(rng.choice(alphabet) for _ in range(rng.randrange(0, 24)))
        cases.append(Case("present.parse_rev", xb(d), "present.rev_spec", {"kind": "args-rev"}))
    for bits in itertools.product((0, 1), repeat=4):
        for d in rev_lines[:3]:
            cases.append(sched_case(d, bits, "args-interleaved"))
    for _ in range(2500 if tier == "quick" else 50000):
        bits = [rng.randrange(2) for _ in range(rng.randrange(0, 9))]
        cases.append(sched_case(grammar_line(rng) + rng.choice(BODIES), bits, "args-interleaved"))
    for n in range(4):
        for bits in itertools.product((0, 1), repeat=n):
            cases.append(Case("present.empty_sched", xlist([xn(b) for b in bits]), "present.empty_sched", {"kind": "empty-args"}))
    return cases


def sched_case(data, bits, kind):
    return Case("present.sched", xl(xb(data), xlist([xn(b) for b in bits])), "present.sched_spec", {"kind": kind})


# ------------------------------------------------------------------------------------------
# run order: registry edits with marker extensions, then a history of real requests
# ------------------------------------------------------------------------------------------
PATHS = [b"/", b"/a", b"/b.html", b"/c.txt", b"/d/e.html", b"/x.y.md", b"/.hid", b"/zz", b"/d/f"]
QUERIES = [b"", b"", b"", b"?x=1", b"?x=2", b"?"]
UNSAFE = [b"/a/../b.html", b"/./a", b"//a", b"/d/./e.html", b"/a/.."]
OVERRIDES = [b"/./ov1", b"/./ov2"]
PREFIXES = [b"/", b"/a", b"/d/", b"/b", b"/x", b"/zz", b"/nomatch"]
FILE_EXTS = [b"html", b"txt", b"md", b"y", b"hid", b"zz"]
FILE_PATHS = [b"/b.html", b"/c.txt", b"/d/e.html", b"/x.y.md", b"/.hid", b"/zz", b"/f.html"]
INTERNAL = [b"tmpl", b"hide", b"x", b"allow-ips", b"a"]
PBODIES = [b"plain", b"", b"!> tmpl a b &> hide\nBODY", b"!> hide\r\nX", b"!> x\r\n", b"!> x\n", b"!>  tmpl   standard.html  md.html  &>\r\nrest",
           b"!> unknown arg &> hide 1 2 3 &> a\nrest", b"!> a &> a &> a x\n\n", b"!> hide", b"<html>", b"0123456789"]
# first lines outside the grammar of the property (the line begins "!>  &> "; a word is not UTF-8; a CR inside the line): the parser answers
# None or splits at the CR; these are compared with the model only (no specification applies)
ODD_BODIES = [b"!>  &> hide\nr", b"!> \xff\nr", b"!> a\rb hide\nr", b"!> hide \xc3\nr"]
MARK = xl(xn(3))
GET, HEAD, POST, PUT, DELETE = 0, 1, 2, 3, 4


def edit(kind, code, prio, key=b"", payload=MARK, body=b"", pref=0):
    return xl(xn(kind), xn(code), xz(prio), xb(key), payload, xb(body), xn(pref))


def prime_pl(frm, to):
    return xl(xn(0), xb(frm), xb(to))


def prep_pl(prefix, body, pref=0):
    return xl(xn(1), xb(prefix), xb(body), xn(pref))


def req(target, method=GET, rng_=None):
    return xl(xn(method), xb(target), xl() if rng_ is None else xl(xn(rng_[0]), xn(rng_[1])))


def order_case(edits, reqs, kind, cache=False, files=None, spec=True):
    reqs = [req(r) if isinstance(r, bytes) else r for r in reqs]
    opts = xl(xn(1 if cache else 0), xl() if files is None else xl(xlist([xl(xb(p), xb(c)) for p, c in files])))
    return Case("order.run", xl(xlist(edits), xlist(reqs), opts), "order.spec" if spec else None, {"kind": kind})


def rand_body(rng):
    return rng.choice(PBODIES) if rng.random() < 0.7 else grammar_line(rng) + rng.choice(BODIES)


def rand_edit(rng, prios, ov, kinds=(0, 0, 1, 1, 2, 3, 3, 4, 4, 5, 5, 6, 6, 7), prefs=(0,)):
    """ov: the one override URI of the scenario (which of two override URIs wins is not fixed by the property: not generated)"""
    kind = rng.choice(kinds)
    code = rng.choice([0, 0, 0, 1, 1, 2]) if kind < 5 else rng.choice([0, 0, 0, 2])
    prio = rng.choice(prios)
    if kind == 0:
        return edit(0, code, prio, payload=prime_pl(rng.choice(PATHS), rng.choice(PATHS + [ov])))
    if kind == 1:
        return edit(1, code, prio, payload=prep_pl(rng.choice(PREFIXES), rand_body(rng), rng.choice(prefs)))
    if kind == 2:
        return edit(2, code, prio, payload=xl(xn(2), xb(rng.choice(PREFIXES))))
    if kind in (3, 4):
        return edit(kind, code, prio)
    if kind == 5:
        return edit(5, code, 0, key=rng.choice(PATHS + [ov]), body=rand_body(rng), pref=rng.choice(prefs))
    if kind == 6:
        return edit(6, code, 0, key=rng.choice(INTERNAL))
    return edit(7, code, 0, key=rng.choice(FILE_EXTS))


def rand_req(rng, paths=PATHS, plain=0.5):
    """a request of any shape: method, query, unsafe path, range (satisfiable, beyond the body, inverted)"""
    if rng.random() < plain:
        return req(rng.choice(paths))
    target = rng.choice(UNSAFE) if rng.random() < 0.12 else rng.choice(paths) + rng.choice(QUERIES)
    method = rng.choice([GET, GET, GET, HEAD, HEAD, POST, PUT, DELETE])
    r = rng.random()
    rg = None if r < 0.6 else rng.choice([(0, 0), (0, 3), (1, 2), (2, 100), (4, 4), (3, 1), (9, 1), (50, 60), (1000, 2000)])
    return req(target, method, rg)


def rand_files(rng):
    return [(p, rand_body(rng)) for p in rng.sample(FILE_PATHS, rng.randrange(1, 5))]


def order_corpus():
    cases = []
    # primes: the later one sees the rewrite of the earlier one; an override URI selects the path-bound Prepare
    e = [edit(0, 0, 5, payload=prime_pl(b"/a", b"/b.html")), edit(0, 0, 3, payload=prime_pl(b"/b.html", b"/c.txt")),
         edit(0, 1, 5, payload=prime_pl(b"/c.txt", b"/./ov1")),
         edit(5, 0, 0, key=b"/./ov1", body=b"!> tmpl x y &> hide\r\nBODY"), edit(5, 0, 0, key=b"/c.txt", body=b"plain"),
         edit(1, 0, 1, payload=prep_pl(b"/", b"!> hide\nfn1")), edit(1, 0, 7, payload=prep_pl(b"/zz", b"fn7")),
         edit(2, 0, 2, payload=xl(xn(2), xb(b"/"))), edit(2, 0, 9, payload=xl(xn(2), xb(b"/c"))), edit(7, 0, 0, key=b"html"), edit(7, 0, 0, key=b"txt"),
         edit(6, 0, 0, key=b"tmpl"), edit(6, 0, 0, key=b"hide"),
         edit(3, 0, 1), edit(3, 0, 10), edit(3, 1, 10), edit(4, 0, -1), edit(4, 0, 4), edit(4, 2, 4), edit(4, 0, 6)]
    cases.append(order_case(e, [b"/a", b"/b.html", b"/zz", b"/q.html", b"/c.txt"], "corpus"))
    # the three repaired defects, through real requests
    for k in range(5):
        pl = [prime_pl(b"/a", b"/zz"), prep_pl(b"/", b"b"), xl(xn(2), xb(b"/")), MARK, MARK][k]
        cases.append(order_case([edit(k, 0, 10, payload=pl), edit(k, 0, 5, payload=pl), edit(k, 0, 1, payload=pl), edit(k, 2, 10), edit(k, 2, 1),
                                 edit(1, 0, 0, payload=prep_pl(b"/", b"x"))], [b"/a"], "corpus-remove"))
    cases.append(order_case([edit(5, 0, 0, key=b"/a", body=b"!> x\r\n"), edit(5, 0, 0, key=b"/zz", body=b"!> hide y\r\nbody"), edit(6, 0, 0, key=b"hide")],
                            [b"/a", b"/zz"], "corpus-crlf"))
    cases.append(order_case([edit(2, 0, 1, payload=xl(xn(2), xb(b"/"))), edit(7, 0, 0, key=b"html"), edit(5, 0, 0, key=b"/b.html", body=b"x")],
                            [b"/b.html", b"/a"], "corpus-empty-args"))
    # Package and Post once per RESPONSE, not once per cache entry: the same cacheable page several times, cache on
    pp = [edit(3, 0, 2), edit(3, 0, 7), edit(4, 0, 1), edit(4, 1, 1), edit(6, 0, 0, key=b"hide")]
    cases.append(order_case(pp + [edit(5, 0, 0, key=b"/a", body=b"!> hide 1 2\nBODY", pref=1)],
                            [b"/a", b"/a", req(b"/a", HEAD), req(b"/a", GET, (1, 2)), req(b"/a", POST), b"/a", b"/nope", b"/nope"], "corpus-cache", cache=True))
    cases.append(order_case(pp + [edit(1, 0, 3, payload=prep_pl(b"/", b"!> hide\nq", 2))],
                            [b"/a?x=1", b"/a?x=1", b"/a?x=2", b"/a", b"/a?x=2", b"/a"], "corpus-cache", cache=True))
    # every request shape reaches Package and Post: HEAD, other methods, unsafe path, inverted / unsatisfiable / satisfiable range
    shapes = [req(b"/a", HEAD), req(b"/a", POST), req(b"/a", DELETE), req(b"/a/../a"), req(b"//a"), req(b"/a", GET, (3, 1)), req(b"/a", GET, (100, 200)),
              req(b"/a", GET, (0, 1)), req(b"/a", HEAD, (100, 200)), req(b"/nope", HEAD), req(b"/nope", GET, (0, 1)), req(b"/a?x=1")]
    for cache in (False, True):
        cases.append(order_case(pp + [edit(5, 0, 0, key=b"/a", body=b"0123456789", pref=1)], shapes, "corpus-shapes", cache=cache))
    # a streamed answer (FatResponse::with_future): Present on the body before the stream, no range, never cached, the Post extensions after the stream
    for cache in (False, True):
        cases.append(order_case(pp + [edit(5, 0, 0, key=b"/s", body=b"!> hide 1\nS", pref=3), edit(1, 0, 1, payload=prep_pl(b"/t", b"", 3))],
                                [b"/s", b"/s", req(b"/s", HEAD), req(b"/s", POST), req(b"/s", GET, (1, 2)), req(b"/s", GET, (5, 2)), b"/t", req(b"/t", HEAD)],
                                "corpus-stream", cache=cache))
    # files of the public directory: their first line is read like a Prepare body; a file extension is taken after the last dot only
    files = [(b"/f.html", b"!> hide a b c &> tmpl\nFILE"), (b"/.hid", b"!> hide\nh"), (b"/zz", b"!> hide\nz"), (b"/x.y.md", b"plain")]
    fe = pp + [edit(6, 0, 0, key=b"tmpl")] + [edit(7, 0, 0, key=k) for k in (b"html", b"hid", b"zz", b"y", b"md")]
    for cache in (False, True):
        cases.append(order_case(fe, [b"/f.html", b"/f.html", req(b"/f.html", HEAD), req(b"/f.html", POST), b"/.hid", b"/zz", b"/x.y.md", b"/none.html",
                                     req(b"/f.html", GET, (1, 2))], "corpus-files", cache=cache, files=files))
    # the closure that is kept: an equal key / an equal priority replaces (marks), remove then insert again
    cases.append(order_case([edit(6, 0, 0, key=b"x"), edit(6, 0, 0, key=b"x"), edit(7, 0, 0, key=b"html"), edit(7, 0, 0, key=b"html"),
                             edit(5, 0, 0, key=b"/b.html", body=b"one"), edit(5, 0, 0, key=b"/b.html", body=b"!> x\ntwo"),
                             edit(3, 0, 1), edit(3, 0, 1), edit(4, 0, 1), edit(4, 0, 1), edit(0, 0, 1, payload=prime_pl(b"/q", b"/r")),
                             edit(0, 0, 1, payload=prime_pl(b"/s", b"/t")), edit(2, 0, 1, payload=xl(xn(2), xb(b"/"))), edit(2, 0, 1, payload=xl(xn(2), xb(b"/b")))],
                            [b"/b.html"], "corpus-replace"))
    cases.append(order_case([edit(6, 0, 0, key=b"x"), edit(6, 2, 0, key=b"x"), edit(6, 0, 0, key=b"x"), edit(5, 0, 0, key=b"/a", body=b"!> x\n"),
                             edit(5, 2, 0, key=b"/a"), edit(5, 0, 0, key=b"/a", body=b"!> x 2\n")], [b"/a"], "corpus-replace"))
    # the path-bound Prepare is looked up by the path: a query does not matter
    cases.append(order_case([edit(5, 0, 0, key=b"/a", body=b"single"), edit(1, 0, 1, payload=prep_pl(b"/", b"fn"))], [b"/a?x=1", b"/a", b"/a?", b"/b?x=/a"], "corpus-query"))
    return cases


def order_cases(rng, tier):
    cases = order_corpus()
    small = [-1, 0, 1, 2]
    q = tier == "quick"
    for _ in range(500 if q else 8000):
        n = rng.randrange(1, 15)
        ov = rng.choice(OVERRIDES)
        prios = rng.choice([small, small, small, [I32_MIN, I32_MIN + 1, 0], [16777216, 16777215, 128, 10, -100, -1327]])
        cache = rng.random() < 0.4
        files = rand_files(rng) if rng.random() < 0.3 else None
        edits = [rand_edit(rng, prios, ov, prefs=(0, 1, 1, 2, 3) if cache else (0, 0, 0, 3)) for _ in range(n)]
        paths = rng.sample(PATHS, 2) if cache else PATHS
        reqs = [rand_req(rng, paths) for _ in range(rng.randrange(1, 6 if cache else 4))]
        cases.append(order_case(edits, reqs, "order-random", cache=cache, files=files))
    # one kind at a time, dense: many edits on one vector, then one request
    for _ in range(150 if q else 3000):
        kind = rng.randrange(5)
        edits = [rand_edit(rng, small, b"/./ov1", kinds=(kind,)) for _ in range(rng.randrange(2, 10))]
        edits.append(edit(5, 0, 0, key=b"/a", body=rng.choice(PBODIES)))
        edits.append(edit(6, 0, 0, key=rng.choice(INTERNAL)))
        cases.append(order_case(edits, [rng.choice([b"/a", b"/b.html", b"/zz"])], "order-one-kind"))
    # targeted: an override URI selecting a path-bound Prepare; several matching predicate-bound Prepares; several registered
    # extensions on the '!> ' line with arguments; several matching present_fn; several Package / Post
    for _ in range(240 if q else 5000):
        path = rng.choice(PATHS)
        ov = rng.choice(OVERRIDES)
        names = rng.sample(INTERNAL, rng.randrange(2, 5))
        line = b"!> " + b" &> ".join(n + b"".join(b" " + token(rng) for _ in range(rng.randrange(0, 4))) for n in names) + rng.choice([b"\n", b"\r\n", b" &>\n"]) + b"B"
        edits = []
        if rng.random() < 0.6:
            edits.append(edit(0, rng.choice([0, 1]), rng.choice(small), payload=prime_pl(path, ov)))
            edits.append(edit(5, 0, 0, key=ov, body=line))
            if rng.random() < 0.5:
                edits.append(edit(5, 0, 0, key=path, body=b"by-path"))
        for _ in range(rng.randrange(2, 5)):
            edits.append(edit(1, rng.choice([0, 1]), rng.choice(small), payload=prep_pl(rng.choice([b"/", b"/", path]), rng.choice([line, b"fn", b"!> hide x\nfn"]))))
        for _ in range(rng.randrange(0, 3)):
            edits.append(edit(2, rng.choice([0, 1]), rng.choice(small), payload=xl(xn(2), xb(rng.choice([b"/", path])))))
        for n in rng.sample(INTERNAL, rng.randrange(2, 6)):
            edits.append(edit(6, 0, 0, key=n))
        for k in (3, 4):
            for _ in range(rng.randrange(1, 4)):
                edits.append(edit(k, rng.choice([0, 1, 1]), rng.choice(small)))
        rng.shuffle(edits)
        cases.append(order_case(edits, [path + rng.choice(QUERIES)], "order-targeted"))
    # response cache on: the same (cacheable) pages several times in every request shape; Package and Post registered
    for _ in range(260 if q else 5000):
        pages = rng.sample(PATHS, 2)
        edits = []
        for pg in pages:
            if rng.random() < 0.7:
                edits.append(edit(5, 0, 0, key=pg, body=rand_body(rng), pref=rng.choice([0, 1, 1, 1, 2, 3])))
        if rng.random() < 0.5:
            edits.append(edit(1, rng.choice([0, 1]), rng.choice(small), payload=prep_pl(rng.choice([b"/", pages[0]]), rand_body(rng), rng.choice([0, 1, 2, 3]))))
        if rng.random() < 0.3:
            edits.append(edit(0, 0, rng.choice(small), payload=prime_pl(pages[0], rng.choice([pages[1], b"/./ov1"]))))
            edits.append(edit(5, 0, 0, key=b"/./ov1", body=rand_body(rng), pref=rng.choice([1, 2])))
        for k in (3, 4):
            for _ in range(rng.randrange(1, 4)):
                edits.append(edit(k, rng.choice([0, 1, 1]), rng.choice(small)))
        for n in rng.sample(INTERNAL, rng.randrange(1, 4)):
            edits.append(edit(6, 0, 0, key=n))
        if rng.random() < 0.4:
            edits.append(edit(2, 0, rng.choice(small), payload=xl(xn(2), xb(b"/"))))
        rng.shuffle(edits)
        files = rand_files(rng) if rng.random() < 0.3 else None
        reqs = [rand_req(rng, pages, plain=0.45) for _ in range(rng.randrange(3, 8))]
        cases.append(order_case(edits, reqs, "order-cache", cache=True, files=files))
    # files of the public directory with '!> ' first lines, file-extension Present extensions (also for "/.hid" and "/zz": none)
    for _ in range(160 if q else 3000):
        files = rand_files(rng)
        edits = [edit(7, rng.choice([0, 0, 0, 2]), 0, key=rng.choice(FILE_EXTS)) for _ in range(rng.randrange(1, 5))]
        edits += [edit(6, 0, 0, key=n) for n in rng.sample(INTERNAL, rng.randrange(1, 5))]
        edits += [edit(k, rng.choice([0, 1]), rng.choice(small)) for k in (3, 4) for _ in range(rng.randrange(0, 3))]
        if rng.random() < 0.3:
            edits.append(edit(5, 0, 0, key=rng.choice(FILE_PATHS), body=b"prepared", pref=1))
        if rng.random() < 0.3:
            edits.append(edit(2, 0, rng.choice(small), payload=xl(xn(2), xb(rng.choice(PREFIXES)))))
        rng.shuffle(edits)
        reqs = [rand_req(rng, FILE_PATHS + [b"/none.html", b"/"], plain=0.6) for _ in range(rng.randrange(1, 6))]
        cases.append(order_case(edits, reqs, "order-files", cache=rng.random() < 0.5, files=files))
    # which closure is kept: repeated keys / priorities (the markers log the index of the edit that registered them)
    for _ in range(120 if q else 2500):
        key, ext, name = rng.choice(PATHS), rng.choice(FILE_EXTS), rng.choice(INTERNAL)
        edits = []
        for _ in range(rng.randrange(3, 10)):
            k = rng.choice([0, 1, 2, 3, 4, 5, 5, 6, 6, 7, 7])
            code = rng.choice([0, 0, 0, 1, 2]) if k < 5 else rng.choice([0, 0, 0, 2])
            if k == 0:
                edits.append(edit(0, code, rng.choice([0, 1]), payload=prime_pl(rng.choice([b"/q", key]), rng.choice([b"/r", key]))))
            elif k == 1:
                edits.append(edit(1, code, rng.choice([0, 1]), payload=prep_pl(b"/", b"!> " + name + b" p\nfn")))
            elif k == 2:
                edits.append(edit(2, code, rng.choice([0, 1]), payload=xl(xn(2), xb(b"/"))))
            elif k in (3, 4):
                edits.append(edit(k, code, rng.choice([0, 1])))
            elif k == 5:
                edits.append(edit(5, code, 0, key=key, body=b"!> " + name + b" s\nsingle"))
            elif k == 6:
                edits.append(edit(6, code, 0, key=name))
            else:
                edits.append(edit(7, code, 0, key=ext))
        cases.append(order_case(edits, [key, b"/p." + ext], "order-replace"))
    for body in ODD_BODIES:
        cases.append(order_case([edit(5, 0, 0, key=b"/a", body=body), edit(6, 0, 0, key=b"hide"), edit(3, 0, 1)], [b"/a"], "order-outside-grammar", spec=False))
    return cases


def generate(rng, tier):
    return registry_cases(rng, tier) + bsearch_cases(rng, tier) + present_cases(rng, tier) + order_cases(rng, tier)


# ------------------------------------------------------------------------------------------
# comparison: exact, except where the property (and the std documentation) leave the result open
# ------------------------------------------------------------------------------------------
def is_trouble(c, i):
    """a reply that could not be obtained (bind/connect failure, read or join timeout under load, temp dir): not an outcome of the code"""
    return "(L (N 93) " in i or re.match(r"\(L \(N 96\) \((N|B) ", i) is not None


def _partitioned(c):
    """std: the result of binary_search_by is unspecified unless the slice is partitioned by the comparator (Less*, Equal?, Greater*; with
    several Equal any of them may be returned).  The registry only searches strictly descending vectors with |probe| id.cmp(probe)."""
    orient, t, ks = c.x[1][0][1], c.x[1][1], [k for k in c.x[1][2][1]]
    t = t[1][1][1] * (-1 if t[1][0][1] else 1)
    vals = [k[1][1][1] * (-1 if k[1][0][1] else 1) for k in ks]
    sign = [(t > v) - (t < v) if orient == 0 else (v > t) - (v < t) for v in vals]    # cmp of the closure: -1 Less, 0 Equal, 1 Greater
    return sign == sorted(sign) and sign.count(0) <= 1


def _bsearch_shape(c, i):
    m = re.fullmatch(r"\(L \(N ([01])\) \(N (\d+)\)\)", i)
    n = len(c.x[1][2][1])
    return m is not None and (int(m.group(2)) < n if m.group(1) == "0" else int(m.group(2)) <= n)


_ERR_STATUS = re.compile(r"\(L \(N 0\) \(L \(N [45]\d\d\) \(B \)\)\)")


def _canon_order(t):
    """the status of an error response is not part of the property (404 for a missing page, 405, 400, 416 ...): one class"""
    return _ERR_STATUS.sub("(L (N 0) (L (N 400) (B )))", t)


def _canon_reg(c, i, m):
    """`no_override` when every priority down to i32::MIN is taken: the property does not say what happens; today a panic.  A refusal that
    leaves the vector as it was is the same class."""
    if i == m or "(L (N 2))" not in m:
        return i
    try:
        xi, xm = kv.xparse(i), kv.xparse(m)
        vi, vm = xi[1][0][1], xm[1][0][1]
        if len(vi) != len(vm):
            return i
        init = c.x[1][0]
        cur = {k: (init[1][0][1][k] if init[0] == "L" else ("L", [])) for k in range(5)}
        reqs = c.x[1][1][1]
        for n, (a, b_) in enumerate(zip(vi, vm)):
            kind = reqs[n][1][0][1]
            if kind >= 5:
                continue
            if b_ == ("L", [("N", 2)]) and a[1][0] == ("N", 0) and a[1][1] == cur[kind]:
                vi[n] = b_
            elif a[1][0] == ("N", 0):
                cur[kind] = a[1][1]
        return kv.xtext(xi)
    except Exception:
        return i


def compare(c, i, m):
    if c.comp == "std.bsearch":
        return i == m if _partitioned(c) else _bsearch_shape(c, i)
    if c.comp == "order.run":
        return _canon_order(i) == _canon_order(m)
    if c.comp.startswith("reg.ops"):
        return _canon_reg(c, i, m) == m
    return i == m


def spec_ok(c, i, s):
    if c.spec == "present.nopanic":
        # present_never_panics on the implementation's output: Ok; Some => data_start <= len and body = data[data_start..]
        if not i.startswith("(L (N 0)"):
            return False
        x = kv.xparse(i)
        opt = x[1][1][1]
        if not opt:
            return True
        parsed = opt[0][1]
        ds, body, data = parsed[1][1], parsed[2][1], c.x[1]
        return ds <= len(data) and body == data[ds:]
    return compare(c, i, s)


# ------------------------------------------------------------------------------------------
# model-free oracles on the implementation's output alone (a direct reading of the property text)
# ------------------------------------------------------------------------------------------
def _z(x):
    return x[1][1][1] * (-1 if x[1][0][1] else 1)


def _py_registry(edits):
    """the reference of the property in Python: per vector a dict priority -> mark, per map a dict key -> mark"""
    lists, maps = [dict() for _ in range(5)], [dict() for _ in range(3)]
    for idx, e in enumerate(edits):
        f = e[1]
        kind, code, prio, key = f[0][1], f[1][1], _z(f[2]), f[3][1]
        if kind < 5:
            d = lists[kind]
            if code == 2:
                d.pop(prio, None)
            elif code == 0:
                d[prio] = idx
            else:
                p = prio
                while p in d and p > I32_MIN:
                    p -= 1
                if p not in d:
                    d[p] = idx
        elif code == 2:
            maps[kind - 5].pop(key, None)
        else:
            maps[kind - 5][key] = idx
    return lists, maps


def _reg_oracle(c, i):
    """the registry clauses read directly on the implementation's output: after every step the edited vector is strictly descending, and it is
    the vector before with exactly the change the property names (add: that priority bound to the new name; no_override: the greatest free
    priority at or below; remove: that priority gone); the final listing of all eight lists is what the steps add up to"""
    try:
        x = kv.xparse(i)
        views, final = x[1][0][1], x[1][1]
        init = c.x[1][0]
        if init[0] == "L":
            lists = [{_z(e[1][0]): e[1][1][1] for e in l[1]} for l in init[1][0][1]]
            maps = [set(k[1] for k in m[1]) for m in init[1][1][1]]
        elif init[1] == 0:
            lists, maps = [dict() for _ in range(5)], [set() for _ in range(3)]
        else:
            return None
        reqs = c.x[1][1][1]
        if len(views) != len(reqs):
            return None
        for n, (r, v) in enumerate(zip(reqs, views)):
            kind, code, prio, name = r[1][0][1], r[1][1][1], _z(r[1][2]), r[1][3][1]
            if kind < 5:
                d = dict(lists[kind])
                refused = False
                if code == 2:
                    d.pop(prio, None)
                elif code == 0:
                    d[prio] = name
                else:
                    p_ = prio
                    while p_ in d and p_ > I32_MIN:
                        p_ -= 1
                    if p_ in d:
                        refused = True
                    else:
                        d[p_] = name
                if v == ("L", [("N", 2)]):
                    if not refused:
                        return "step %d: panic although a free priority exists" % n
                    continue
                got = [(_z(e[1][0]), e[1][1][1]) for e in v[1][1][1]]
                if any(a[0] <= b[0] for a, b in zip(got, got[1:])):
                    return "step %d: the listing is not strictly descending: %s" % (n, got)
                if got != sorted(d.items(), reverse=True):
                    return "step %d: listing %s, the reference map has %s" % (n, got, sorted(d.items(), reverse=True))
                lists[kind] = d
            else:
                m = maps[kind - 5]
                if code == 2:
                    m.discard(name)
                else:
                    m.add(name)
                if [k[1] for k in v[1][1][1]] != sorted(m):
                    return "step %d: keys %s, the reference set has %s" % (n, [k[1] for k in v[1][1][1]], sorted(m))
        gl = [[(_z(e[1][0]), e[1][1][1]) for e in l[1]] for l in final[1][0][1]]
        gm = [[k[1] for k in m[1]] for m in final[1][1][1]]
        if gl != [sorted(d.items(), reverse=True) for d in lists] or gm != [sorted(m) for m in maps]:
            return "final listing differs from what the steps add up to (an edit touched another list?)"
    except Exception:   # an output of another shape is the differ's business
        return None
    return None


def extra_oracle(c, i):
    if c.comp.startswith("reg.ops"):
        return _reg_oracle(c, i)
    if c.comp != "order.run":
        return None
    try:
        lists, maps = _py_registry(c.x[1][0][1])
        want = {k: [(p, lists[k][p]) for p in sorted(lists[k], reverse=True)] for k in (0, 3, 4)}
        for n, reply in enumerate(kv.xparse(i)[1]):
            if reply[1][0] != ("L", [("N", 0), reply[1][0][1][1]]) if reply[1][0][0] == "L" and len(reply[1][0][1]) == 2 else True:
                continue        # no answer: the differ decides
            evs = reply[1][1][1]
            tags = [e[1][0][1] for e in evs]
            got = {k: [(_z(e[1][1]), e[1][2][1]) for e in evs if e[1][0][1] == t] for k, t in ((0, 0), (3, 6), (4, 7))}
            for k, what in ((0, "Prime"), (3, "Package"), (4, "Post")):
                if got[k] != want[k]:
                    return "request %d: the %s extensions that ran (priority, mark) %s are not all registered ones, each once, highest priority first %s" % (n, what, got[k], want[k])
            stage = [0 if t == 0 else 1 if t in (1, 2) else 2 if t in (3, 4, 5) else 3 if t == 6 else 4 for t in tags]
            if stage != sorted(stage):
                return "request %d: stages out of order: %s" % (n, tags)
            if sum(1 for t in tags if t in (1, 2)) > 1:
                return "request %d: more than one Prepare extension ran" % n
            for e in evs:
                t = e[1][0][1]
                if t in (1, 4, 5):
                    m = maps[{1: 0, 5: 1, 4: 2}[t]]
                    if m.get(e[1][1][1]) != e[1][2][1]:
                        return "request %d: the closure run for key %r is not the one registered last (mark %s, expected %s)" % (n, e[1][1][1], e[1][2][1], m.get(e[1][1][1]))
                if t == 5 and [a[1] for a in e[1][4][1]] != [a[1] for a in e[1][3][1]][::-1]:
                    return "request %d: iter().rev() is not the reverse of iter()" % n
    except Exception:
        return None
    return None


def signature(c, m):
    if c.comp == "reg.present_fn_getter":
        return "getter"
    if c.comp.startswith("reg."):
        return "steps=%d" % len(c.x[1][1][1]) if c.x[1][1][1] else None
    if c.comp == "std.bsearch":
        return m[:12] if c.x[1][2][1] else None
    if c.comp.startswith("present.parse"):
        if m.startswith("(L (N 0) (L (L"):
            return "some"
        if c.x[1][:3] == b"!> ":
            return "none-after-prefix" if m.startswith("(L (N 0)") else "panic"
        return None
    if c.comp == "present.line":
        return "words=%d" % len(c.x[1][0][1]) if c.x[1][0][1] else None
    if c.comp == "present.sched":
        return "sched" if c.x[1][1][1] and m.startswith("(L (N 0) (L (L") else None
    if c.comp == "order.run":
        return "events=%d" % m.count("(L (N ") if "(N 200)" in m or "(N 206)" in m else None
    return "x"


def extra_coverage(cases, impl, model, spec):
    tier = "thorough" if any(c.meta.get("kind", "").startswith("exhaustive<=7") or c.meta.get("kind", "").startswith("exhaustive<=6") for c in cases) else "quick"
    hits = sum(1 for c in cases if c.comp == "order.run" and c.id in impl for _ in re.finditer(r"\(L \(L \(N 0\) \(L \(N 20[06]\)", impl[c.id]))
    nreq = sum(len(c.x[1][1][1]) for c in cases if c.comp == "order.run")
    cached = sum(1 for c in cases if c.comp == "order.run" and c.x[1][2][1][0][1] == 1)
    return {
        "registry_exhaustive_bounds": ["every sequence of add / add no_override / remove up to length %d over %d priorities" % (b_, len(ps))
                                       for b_, ps in EXHAUSTIVE[tier]]
        + (["%.0f %% of the length-8 sequences over 2 priorities" % (100 * SAMPLED_8[tier])] if SAMPLED_8[tier] else [])
        + ["sampled sequences of length 4..8 over 6 priorities and random histories up to length 60; the theorem covers every length and every priority"],
        "run_order_requests": nreq,
        "run_order_scenarios_with_response_cache": cached,
        "run_order_2xx_replies": hits,
        "extensions_new_listing_read_from_harness": new_listing() is not None,
    }


def directed(rng, mismatches):
    cases = []
    prios = [-2, -1, 0, 1, 2, 3]
    alphabet = [(c, p) for c in (0, 1, 2) for p in prios]
    for k in range(5):
        for length in (1, 2, 3):
            for ops in itertools.product(alphabet, repeat=length):
                if length == 3 and rng.random() < 0.5:
                    continue
                cases.append(seq_case(k, list(ops), "directed"))
    for _ in range(20000):
        cases.append(Case(PARSE, xb(grammar_line(rng) + rng.choice(BODIES)), "present.spec", {"kind": "directed"}))
        cases.append(line_case(words(rng), rng.random() < 0.5, rng.choice(BODIES), "directed"))
    for _ in range(5000):
        cases.append(Case("present.parse_rev", xb(grammar_line(rng) + rng.choice(BODIES)), "present.rev_spec", {"kind": "directed"}))
        cases.append(sched_case(grammar_line(rng) + rng.choice(BODIES), [rng.randrange(2) for _ in range(rng.randrange(0, 9))], "directed"))
    cases.append(Case("present.empty_args", xl(), "present.empty_args", {"kind": "directed"}))
    cases += order_corpus()
    for _ in range(1500):
        cache = rng.random() < 0.5
        edits = [rand_edit(rng, [-1, 0, 1, 2], b"/./ov1", prefs=(0, 1, 2, 3) if cache else (0, 3)) for _ in range(rng.randrange(1, 10))]
        cases.append(order_case(edits, [rand_req(rng, PATHS[:3]) for _ in range(3)], "directed", cache=cache))
    return cases


THEOREMS = [
    ('binary_search_total',
     'forall (T : Type) (f : T -> comparison) (l : list T), exists r, binary_search_by f l = Some r'),
    ('binary_search_ok_iff',
     'forall (T : Type) (f : T -> comparison) (l : list T) (i : nat), partitioned f l -> (binary_search_by f l = Some (BOk i) <-> exists x, nth_error l i = Some x /\\ f x = Eq)'),
    ('binary_search_err_iff',
     'forall (T : Type) (f : T -> comparison) (l : list T) (i : nat), partitioned f l -> (binary_search_by f l = Some (BErr i) <-> insertion_point f l i)'),
    ('binary_search_insertion_point_unique',
     'forall (T : Type) (f : T -> comparison) (l : list T) (i j : nat), insertion_point f l i -> insertion_point f l j -> i = j'),
    ('registry_refines_map',
     'forall (A : Type) (ops : list (op A)) (l : list (Z * A)), desc l -> run_model l ops = run_ref l ops'),
    ('registry_refines_map_from_empty',
     'forall (A : Type) (ops : list (op A)), run_model [] ops = run_ref [] ops'),
    ('reference_descending',
     "forall (A : Type) (ops : list (op A)) (l : list (Z * A)), desc l -> Forall (fun r => match r with Ok l' => desc l' | _ => True end) (run_ref l ops)"),
    ('reference_add_is_map_update',
     'forall (A : Type) (l : list (Z * A)) (p : Z) (a : A) (q : Z), desc l -> ref_get (ref_add l p a) q = if (q =? p)%Z then Some a else ref_get l q'),
    ('reference_remove_is_map_remove',
     'forall (A : Type) (l : list (Z * A)) (p q : Z), ref_get (ref_remove l p) q = if (q =? p)%Z then None else ref_get l q'),
    ('no_override_takes_greatest_free',
     "forall (A : Type) (l : list (Z * A)) (p : Z), desc l -> match ref_free_below l p with | Some p' => (p' <= p)%Z /\\ ref_mem l p' = false /\\ (forall q, (p' < q <= p)%Z -> ref_mem l q = true) /\\ ((i32_min <= p)%Z -> (i32_min <= p')%Z) | None => forall q, (i32_min <= q <= p)%Z -> ref_mem l q = true end"),
    ('extensions_refine_reference',
     'forall (e : extensions) (rs : list request), ext_desc e -> ext_run remove_sorted_list e rs = ext_run_ref e rs'),
    ('extensions_new_descending',
     'ext_desc extensions_empty /\\ ext_desc extensions_new'),
    ('extensions_start_state_descending',
     'forall (x : xval) (e : extensions), d_extensions x = Some e -> ext_desc e'),
    ('registry_key_sets',
     'forall (k : bytes) (m : list bytes) (q : bytes), (In q (key_insert k m) <-> q = k \\/ In q m) /\\ (In q (key_remove k m) <-> q <> k /\\ In q m)'),
    ('registry_maps_are_maps',
     'forall (X : Type) (m : list (bytes * X)) (k : bytes) (v : X) (q : bytes), assoc q (map_insert k v m) = (if beq k q then Some v else assoc q m) /\\ assoc q (map_remove k m) = (if beq k q then None else assoc q m)'),
    ('remove_sorted_list_v0_refuted',
     'exists (l : list (Z * N)) (p : Z), desc l /\\ remove_sorted_list_v0 l p <> Ok (ref_remove l p)'),
    ('present_never_panics',
     'forall data : bytes, exists r, present_parse data = Ok r /\\ match r with | Some p => (p_data_start p <= length data)%nat /\\ p_body p = skipn (p_data_start p) data | None => True end'),
    ('present_line_spec',
     'forall (ws : list bytes) (crlf : bool) (rest : bytes), line_words_ok ws -> present_parse (render_line ws crlf ++ rest) = Ok (Some {| p_entries := group_words None (nonempty_words ws); p_data_start := length (render_line ws crlf); p_body := rest |})'),
    ('present_v0_refuted',
     'present_parse_v0 (B "!> a" ++ [13; 10]) = Panic /\\ (exists p, present_parse_v0 (B "!> a" ++ [13; 10] ++ B "body") = Ok (Some p) /\\ p_body p = B "ody") /\\ empty_args_next_v0 = Panic /\\ empty_args_next = Ok None'),
    ('args_rev_is_reverse',
     'forall (data : bytes) (exts : list posdata) (pa : span) (l : list bytes), pa_args args_end data exts pa = Ok l -> pa_args_back data exts pa = Ok (rev l)'),
    ('args_double_ended',
     'forall (data : bytes) (exts : list posdata) (pa : span) (l : list bytes) (sched : list bool), pa_args args_end data exts pa = Ok l -> pa_args_drive data exts pa sched = Ok (deque_drive sched l)'),
    ('deque_each_once',
     'forall (sched : list bool) (l : list bytes), exists mid, l = fst (deque_drive sched l) ++ mid ++ rev (snd (deque_drive sched l)) /\\ (length l <= length sched -> mid = [])%nat'),
    ('present_rev_never_panics',
     'forall data : bytes, present_parse_rev data = match present_parse data with | Ok (Some p) => Ok (Some (map (fun e => (fst e, snd e, rev (snd e))) (p_entries p))) | Ok None => Ok None | Err e => Err e | Panic => Panic end'),
    ('present_sched_never_panics',
     'forall (sched : list bool) (data : bytes), present_parse_sched sched data = match present_parse data with | Ok (Some p) => Ok (Some (map (fun e => (fst e, snd e, deque_drive sched (snd e))) (p_entries p))) | Ok None => Ok None | Err e => Err e | Panic => Panic end'),
    ('prime_sequential',
     'forall (l1 : list (Z * prime_ext)) (i : Z) (pr : prime_ext) (l2 : list (Z * prime_ext)) (st : bytes * option bytes), snd (resolve_prime (l1 ++ (i, pr) :: l2) st) = snd (resolve_prime l1 st) ++ EPrime i (fst (prime_state l1 st)) :: snd (resolve_prime l2 (prime_apply pr (prime_state l1 st))) /\\ length (snd (resolve_prime l1 st)) = length l1'),
    ('prime_all_once_in_order',
     'forall (l : list (Z * prime_ext)) (st : bytes * option bytes), map event_prio (snd (resolve_prime l st)) = map (fun e => Some (fst e)) l'),
    ('prepare_single_first',
     'forall (R : Type) (single : list (bytes * (bytes -> R))) (fns : list (Z * ((bytes -> bool) * (bytes -> R)))) (st : bytes * option bytes) (h : bytes -> R), assoc (prepare_key st) single = Some h -> resolve_prepare single fns st = (Some (h (fst st)), [EPrepareSingle (prepare_key st) (fst st)])'),
    ('first_predicate_only',
     'forall (R : Type) (single : list (bytes * (bytes -> R))) (l1 : list (Z * ((bytes -> bool) * (bytes -> R)))) (i : Z) (pred : bytes -> bool) (h : bytes -> R) (l2 : list (Z * ((bytes -> bool) * (bytes -> R)))) (st : bytes * option bytes), assoc (prepare_key st) single = None -> Forall (fun e => fst (snd e) (fst st) = false) l1 -> pred (fst st) = true -> resolve_prepare single (l1 ++ (i, (pred, h)) :: l2) st = (Some (h (fst st)), [EPrepareFn i (fst st)])'),
    ('no_matching_prepare',
     'forall (R : Type) (single : list (bytes * (bytes -> R))) (fns : list (Z * ((bytes -> bool) * (bytes -> R)))) (st : bytes * option bytes), assoc (prepare_key st) single = None -> Forall (fun e => fst (snd e) (fst st) = false) fns -> resolve_prepare single fns st = (None, [])'),
    ('present_line_order',
     'forall (pfns : list (Z * (bytes -> bool))) (pfile pint : list bytes) (uri : bytes) (ws : list bytes) (crlf : bool) (rest : bytes), line_words_ok ws -> resolve_present present_parse pfns pfile pint uri (render_line ws crlf ++ rest) = Ok (rest, map (fun x => EPresentFn (fst x)) (filter (fun x => snd x uri) pfns) ++ (match path_extension (uri_path uri) with Some e => if bmem e pfile then [EPresentFile e] else [] | None => [] end) ++ map (fun e => EPresentInternal (fst e) (snd e)) (filter (fun e => bmem (fst e) pint) (group_words None (nonempty_words ws))))'),
    ('package_post_once',
     'forall (X : Type) (l : list (Z * X)), resolve_package l = map (fun e => EPackage (fst e)) l /\\ resolve_post l = map (fun e => EPost (fst e)) l /\\ (desc l -> NoDup (resolve_package l) /\\ NoDup (resolve_post l))'),
    ('package_post_every_response',
     'forall (h : hostcfg) (c : cache) (r : creq), exists status body prep pres, fst (serve present_parse h c r) = (Ok (status, body), snd (resolve_prime (b_prime (h_b h)) (q_uri r, None)) ++ prep ++ pres ++ map (fun e => EPackage (fst e)) (b_package (h_b h)) ++ map (fun e => EPost (fst e)) (b_post (h_b h))) /\\ Forall is_prepare_event prep /\\ (length prep <= 1)%nat /\\ Forall is_present_event pres'),
    ('cache_hit_skips_prepare_present',
     'forall (h : hostcfg) (c : cache) (r : creq) (st : bytes * option bytes) (sb : centry), fst (resolve_prime (b_prime (h_b h)) (q_uri r, None)) = st -> cache_hit h c (sanitize r) (q_method r) (key_uri st) = Some sb -> serve present_parse h c r = ((Ok (respond (q_method r) (sanitize r) 1 sb), snd (resolve_prime (b_prime (h_b h)) (q_uri r, None)) ++ map (fun e => EPackage (fst e)) (b_package (h_b h)) ++ map (fun e => EPost (fst e)) (b_post (h_b h))), c)'),
    ('run_order_after_edits',
     'forall (parse : bytes -> outcome (option parsed)) (es : list pedit) (o : hostopts) (rs : list creq), run_scenario model_step parse es o rs = run_scenario ref_step parse es o rs /\\ pc_desc (pconfig_build ref_step es)'),
    ('spec_all_once_desc_is',
     'forall (X : Type) (l : list (Z * X)) (ps : list Z), all_once_desc l ps <-> (StronglySorted (fun a c => (c < a)%Z) ps /\\ forall p, In p ps <-> ref_mem l p = true)'),
    ('spec_stage_is',
     'forall (X : Type) (mk : Z -> event) (l : list (Z * X)) (tr : list event), stage_spec mk l tr <-> exists ps, tr = map mk ps /\\ all_once_desc l ps'),
    ('spec_prime_is',
     "forall (b : behaviours) (st : bytes * option bytes) (tr : list event) (st' : bytes * option bytes), (prime_chain b st tr st' <-> match tr with | [] => st' = st | e :: tr' => exists i pr, e = EPrime i (fst st) /\\ ref_get (b_prime b) i = Some pr /\\ prime_chain b (prime_apply pr st) tr' st' end) /\\ (prime_spec b st tr st' <-> prime_chain b st tr st' /\\ exists ps, map event_prio tr = map Some ps /\\ all_once_desc (b_prime b) ps)"),
    ('spec_prepare_is',
     "forall (b : behaviours) (st : bytes * option bytes) (resp : option presp) (tr : list event), prepare_spec b st resp tr <-> match assoc (prepare_key st) (b_single b) with | Some h => resp = Some (h (fst st)) /\\ tr = [EPrepareSingle (prepare_key st) (fst st)] | None => (exists i pred h, ref_get (b_prepare_fn b) i = Some (pred, h) /\\ pred (fst st) = true /\\ (forall j pred' h', ref_get (b_prepare_fn b) j = Some (pred', h') -> pred' (fst st) = true -> (j <= i)%Z) /\\ resp = Some (h (fst st)) /\\ tr = [EPrepareFn i (fst st)]) \\/ ((forall j pred' h', ref_get (b_prepare_fn b) j = Some (pred', h') -> pred' (fst st) = false) /\\ resp = None /\\ tr = []) end"),
    ('spec_present_is',
     "forall (line : bytes -> option parsed) (b : behaviours) (uri body body' : bytes) (tr : list event), present_spec line b uri body body' tr <-> exists ps, StronglySorted (fun a c => (c < a)%Z) ps /\\ (forall p, In p ps <-> exists pred, ref_get (b_present_fn b) p = Some pred /\\ pred uri = true) /\\ tr = map EPresentFn ps ++ (match path_extension (uri_path uri) with | Some e => if bmem e (b_present_file b) then [EPresentFile e] else [] | None => [] end) ++ map (fun e => EPresentInternal (fst e) (snd e)) (filter (fun e => bmem (fst e) (b_present_internal b)) (match line body with Some p => p_entries p | None => [] end)) /\\ body' = match line body with Some p => p_body p | None => body end"),
    ('spec_serve_is',
     "forall (line : bytes -> option parsed) (h : hostcfg) (c : cache) (r : creq) (out : (outcome (N * bytes) * list event) * cache), serve_spec line h c r out <-> exists tr1 st pk po, prime_spec (h_b h) (q_uri r, None) tr1 st /\\ stage_spec EPackage (b_package (h_b h)) pk /\\ stage_spec EPost (b_post (h_b h)) po /\\ match cache_hit h c (sanitize r) (q_method r) (key_uri st) with | Some sb => out = ((Ok (respond (q_method r) (sanitize r) 1 sb), tr1 ++ pk ++ po), c) | None => exists status body pref tr2 body' tr3, match sanitize r with | SanOk _ => exists resp, prepare_spec (h_b h) st resp tr2 /\\ (status, body, pref) = response_of h (q_method r) (fst st) resp | SanUnsafe => (status, body, pref) = (400, [], 1) /\\ tr2 = [] | SanRange => (status, body, pref) = (416, [], 1) /\\ tr2 = [] end /\\ present_spec line (h_b h) (fst st) body body' tr3 /\\ out = ((Ok (respond (q_method r) (sanitize r) pref (status, body')), tr1 ++ tr2 ++ tr3 ++ pk ++ po), cache_store h c (q_method r) (key_uri st) pref status body') end"),
    ('run_order_meets_spec',
     'forall (h : hostcfg) (c : cache) (r : creq), host_desc (h_b h) -> serve_spec parsed_line h c r (serve present_parse h c r)'),
    ('run_order_spec_determines',
     'forall (line : bytes -> option parsed) (h : hostcfg) (c : cache) (r : creq) (o1 o2 : (outcome (N * bytes) * list event) * cache), serve_spec line h c r o1 -> serve_spec line h c r o2 -> o1 = o2'),
    ('run_order_history_meets_spec',
     'forall (es : list pedit) (o : hostopts) (rs : list creq), history_spec parsed_line (host_of (pconfig_build model_step es) o) [] rs (snd (scenario_model es o rs))'),
    ('run_order_executable_spec_meets_spec',
     'forall (es : list pedit) (o : hostopts) (rs : list creq), history_spec spec_present (host_of (pconfig_build ref_step es) o) [] rs (snd (scenario_spec es o rs))'),
    ('run_order_history_spec_determines',
     'forall (line : bytes -> option parsed) (h : hostcfg) (rs : list creq) (c : cache) (l1 l2 : list (outcome (N * bytes) * list event)), history_spec line h c rs l1 -> history_spec line h c rs l2 -> l1 = l2'),
    ('parsed_line_on_grammar',
     'forall (ws : list bytes) (crlf : bool) (rest : bytes), line_words_ok ws -> parsed_line (render_line ws crlf ++ rest) = Some {| p_entries := group_words None (nonempty_words ws); p_data_start := length (render_line ws crlf); p_body := rest |}'),
]

RULE = ("Registry: for every history of add / add-with-no_override / remove on each of the five sorted extension vectors (and insert/remove on the three "
        "hash maps) the listing after every step equals the reference map's: descending priority, equal priority replaces, no_override takes the "
        "greatest free priority at or below the requested one (when all down to i32::MIN are taken: a panic or a refusal that leaves the vector as it "
        "was), remove deletes exactly that priority, no edit touches another list; histories also start from what the running Extensions::new() lists. "
        "'!> ' line: for every line of the grammar the parser returns the names and arguments in order and data_start is the index just after the LF; "
        "for arbitrary bytes no panic and data_start <= len; reading the arguments from the back gives the reverse, any interleaving of next/next_back "
        "is a deque. Run order: per request — generated or served from the response cache, GET / HEAD / other method, safe or unsafe path, with or "
        "without a range, answered by a Prepare extension (also one that streams its body through a future), a file of the public directory or an error "
        "page — the trace of marker extensions is Prime* "
        "(every one, descending priority, each seeing the URI as the earlier ones left it), then only when the response is generated the path-bound "
        "Prepare (looked up by the path of the override or request URI) or else the first matching predicate-bound one and the Present extensions "
        "(predicate-bound, file-extension, then those of the '!> ' line in line order with exactly their arguments, forwards and reversed), then every "
        "Package and every Post extension once per response, in descending priority; every marker is the closure registered last under its priority / key.")
ASSUMPTIONS = [
    "priorities are i32 (the model uses Z and makes the checked_sub(1) at i32::MIN explicit); Id equality/order is by priority only, as impl Ord for Id",
    "a response is one produced by handle_cache + SendKind::send for a host: the 409 (no such host) and 429 (limiter) answers of handle_connection "
    "are sent before any host extension is consulted and run no extension; HTTP/2 push (SendKind::Push) runs Package but no Post by design (the push "
    "extension itself is a Post extension); a client that closes the connection before the head is written gets no Post (send returns early)",
    "extension behaviours are arbitrary total functions of the request URI in the theorems; the differential run instantiates them by the fixture menu "
    "(rewrite rules, prefix predicates, static bodies with a server cache preference) of harness/src/c16pipe.rs and Model/RunOrder.v",
    "the response cache is modelled as far as the run order needs it (look-up PathQuery then Path, stored after Present, GET/HEAD only, the default status "
    "filter, Full / QueryMatters / None preference): no vary rules, no if-modified-since, no expiry, no size limit, no compression (C03/C04/C06 are about those)",
    "Path::extension, sanitize_request and the file look-up are modelled on the fixture's URI domain (segments of [a-z0-9.], no percent-encoding, no fragment)",
    "slice::binary_search_by is the transcription of rustc 1.95's branch-free version; it is compared exactly with the real one on partitioned slices "
    "(all the registry can produce) and only for totality / index range on others, where std leaves the result unspecified",
    "not fixed by the property and therefore compared by class: the status of an error response (any 4xx/5xx is one class), panic vs. refusal when "
    "no_override finds no free priority, which of two different override URIs wins (not generated), the content of Extensions::new() (read from the harness)",
]
TRUSTED = [
    "hand transcription of add_sorted_list!/remove_sorted_list!, Extensions::{add,remove,get}_*, resolve_* (src/extensions.rs), of handle_cache / get_response / "
    "handle_request / SendKind::send (src/lib.rs) as far as they decide which extensions run, and of utils/src/extensions.rs (PresentExtensions::new, the two "
    "iterators incl. next_back), validated by the differential run",
    "Model/RunSpec.v: the declarative reading of the property's run-order clauses (pinned by the spec_*_is theorems)",
    "harness/src/c16.rs, harness/src/c16pipe.rs (marker extensions logging the index of the edit that registered them, loopback client: one connection per "
    "request, the server task is joined before the log is read; temp public directory per scenario)",
    "driver/props/c16.py: generators, the class-wise comparison named in the assumptions, and the model-free oracles (Python reference registry; strictly "
    "descending listings; Prime/Package/Post = all registered, each once, highest priority first, in every reply)",
]
LEVEL_TEXT = ("Machine-checked Coq theorems (no axioms) over transcriptions of the registry macros on rustc 1.95's binary_search_by, of the '!> ' line "
              "parser with its iterators (next and next_back), and of the request path handle_cache -> get_response -> handle_request -> SendKind::send "
              "with the resolve_* drivers: binary_search_by returns Ok i iff element i is the target and Err i iff i is the unique insertion point on "
              "every strictly sorted slice; every history of add / no_override / remove for all priorities yields exactly the reference map's listings "
              "(refinement by induction over the history, invariant: strictly descending), also for the whole Extensions value from empty(), new() and "
              "any descending start state; the hash maps insert/replace/remove as maps; the parser never panics and data_start <= len for arbitrary "
              "bytes, and for every line of the grammar (any words, any runs of spaces, '&>' separators also trailing, LF or CRLF) it returns the names "
              "and arguments in order with data_start just after the LF; iter().rev() yields the reverse and every next/next_back interleaving is a "
              "deque on the arguments. Run order: a DECLARATIVE specification (Model/RunSpec.v: the registry read as maps; Prime: all, once, descending, "
              "each seeing the previous rewrite; Prepare: the path-bound one, else the matching predicate-bound one of highest priority; Present per "
              "the first line; every Package and Post once for every response) that mentions neither the drivers nor the vector order is proved of "
              "the model for every host with descending vectors, every cache state and every request (method, query, unsafe path, range), for whole "
              "histories on hosts built by any edit sequence through the macros' model, and proved to determine answer, trace and cache uniquely; a "
              "response served from the cache runs neither Prepare nor Present but every Prime, Package and Post. The models are tied to the "
              "repository on every run by a differential run of the real Extensions::{add,remove,get}_*, PresentExtensions (forward, reversed, "
              "interleaved) and of real request histories through kvarn::handle_connection with marker extensions (response cache on and off, files with "
              "'!> ' lines, HEAD/POST, ranges, unsafe paths, queries, replaced closures); each case is also compared with the executable specification "
              "(reference map / token-level reading of the line / deque) and checked by model-free oracles.")
LEVEL_NOTE = ("Trusted: Coq kernel, extraction (ExtrOcamlBasic) reduced by an in-kernel recheck sample, the hand transcriptions as validated by the "
              "differential run, the declarative specification as a reading of the property. Bounded-exhaustive part of the quantifier as run: quick "
              "every operation sequence up to length 3 over 6 priorities, 4 over 3, 5 over 2 (+12000 sampled up to 8); thorough up to 4 over 6, 6 over 3, "
              "7 over 2 and 10 % of length 8 over 2 (the theorem covers all lengths and priorities). Not covered: HTTP/2 and push, streamed responses with "
              "a declared length and protocol switches (a future of unknown length is covered), vary variants and 304 revalidation on a cache hit, async interleavings of two requests (extensions are immutable during "
              "serving), Path::extension / sanitize outside the fixture's URI domain. The repaired defects are kept as _v0 refutation witnesses.")
TECHNIQUE = ("Coq proof (loop invariant for binary search, refinement of the reference map for all histories, parser correctness for all inputs / all "
             "grammar lines, double-ended iterator = deque, pipeline model satisfies a declarative run-order specification that it is proved to "
             "determine) + differential correspondence model vs. implementation (direct calls and real request histories) + model-free oracles")
