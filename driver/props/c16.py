"""C16 — Extensions run in priority order and registry edits do what they say."""
import itertools
import os

import kv
from kv import Case, xn, xb, xl, xlist, xz

ID = "C16"
MODULE = "C16"
IMPORTS = "Bytes RustStd Registry PresentLine RunOrder RustStdProofs RegistryProofs PresentLineProofs RunOrderProofs"
PROFILES = ("dev",)
# C16_V0=1 selects the models of the code as it was before the repairs aa785b7 / e1abeb3 (reversed remove
# comparator, data_start = pos + 2 on CRLF): used to reproduce the defects through the harness on the unrepaired tree.
ORIG = bool(os.environ.get("C16_V0"))
REG = "reg.ops_v0" if ORIG else "reg.ops"
PARSE = "present.parse_v0" if ORIG else "present.parse"

KINDS = ["prime", "prepare_fn", "present_fn", "package", "post", "prepare_single", "present_internal", "present_file"]
I32_MIN, I32_MAX = -2**31, 2**31 - 1


# ------------------------------------------------------------------------------------------
# registry histories
# ------------------------------------------------------------------------------------------
def rq(kind, code, prio, name):
    return xl(xn(kind), xn(code), xz(prio), xb(name))


def reg_case(init, reqs, kind, spec=True):
    return Case(REG, xl(xn(init), xlist(reqs)), "reg.spec" if spec else None, {"kind": kind})


def seq_case(kind_idx, ops, label, init=0):
    """ops: list of (code, prio); names are unique per position so that a replacement is visible."""
    return reg_case(init, [rq(kind_idx, c, p, b"n%d" % i) for i, (c, p) in enumerate(ops)], label)


def registry_cases(rng, tier):
    cases = []
    # corpus: the confirmed defect ([10,5,1] cannot be emptied), replacement, no_override chains, i32::MIN
    for k in range(5):
        cases.append(seq_case(k, [(0, 10), (0, 5), (0, 1), (2, 10), (2, 5), (2, 1)], "corpus"))
        cases.append(seq_case(k, [(0, 1), (0, 5), (0, 10), (2, 5), (0, 5), (0, 5), (2, 1), (2, 10)], "corpus"))
        cases.append(seq_case(k, [(1, 3), (1, 3), (1, 3), (0, 2), (2, 2), (1, 3), (2, 3), (1, 3)], "corpus"))
        cases.append(seq_case(k, [(0, I32_MIN), (1, I32_MIN), (0, I32_MIN + 1), (1, I32_MIN + 1), (2, I32_MIN), (1, I32_MIN + 1),
                                  (1, I32_MIN + 1)], "i32-min"))
        cases.append(seq_case(k, [(0, I32_MAX), (1, I32_MAX), (1, I32_MAX), (2, I32_MAX), (0, I32_MIN), (2, I32_MIN), (2, 0)], "i32-max"))
    cases.append(reg_case(1, [], "new"))
    cases.append(Case("reg.present_fn_getter", xl(), "reg.present_fn_getter", {"kind": "getter"}))
    # Extensions::new(): builtin priorities (prime 16777216, 16777215, -100; package 128, 10, -1327)
    for _ in range(60 if tier == "quick" else 600):
        n = rng.randrange(1, 9)
        reqs = []
        for i in range(n):
            kind = rng.choice([0, 0, 3, 3, 1, 2, 4, 5, 6, 7])
            code = rng.choice([0, 0, 1, 2, 2])
            prio = rng.choice([16777216, 16777215, 16777214, -100, -101, 128, 10, 9, 8, -1327, -1328, 0, 1])
            name = rng.choice([b"/./cors_fail", b"/./cors_options", b"nonce", b"x", b"tmpl"]) if kind >= 5 else b"n%d" % i
            reqs.append(rq(kind, code, prio, name))
        cases.append(reg_case(1, reqs, "new"))
    prios = [-2, -1, 0, 1, 2, 3]
    alphabet = [(c, p) for c in (0, 1, 2) for p in prios]

    # exhaustive: all sequences up to length L over {add, add no_override, remove} x {-2..3}
    exh_len = 3 if tier == "quick" else 4
    n = 0
    for length in range(1, exh_len + 1):
        for ops in itertools.product(alphabet, repeat=length):
            cases.append(seq_case(n % 5, list(ops), "exhaustive<=%d" % exh_len))
            n += 1
    if tier == "thorough":
        small = [(c, p) for c in (0, 1, 2) for p in (0, 1, 2)]
        for length in (5, 6):
            for ops in itertools.product(small, repeat=length):
                cases.append(seq_case(n % 5, list(ops), "exhaustive-3prios<=6"))
                n += 1
        tiny = [(c, p) for c in (0, 1, 2) for p in (0, 1)]
        for length in (7, 8):
            for ops in itertools.product(tiny, repeat=length):
                if length == 8 and rng.random() < 0.8:
                    continue
                cases.append(seq_case(n % 5, list(ops), "exhaustive-2prios-7/sampled-8"))
                n += 1
    # sampled: lengths 4..8 over the full alphabet
    for _ in range(12000 if tier == "quick" else 150000):
        length = rng.randrange(exh_len + 1, 9)
        ops = [rng.choice(alphabet) for _ in range(length)]
        # bias: make removes hit existing priorities more often
        cases.append(seq_case(rng.randrange(5), ops, "sampled<=8"))
    # mixed kinds (incl. the hash maps) with the final full listing: no edit touches another list
    for _ in range(1500 if tier == "quick" else 20000):
        length = rng.randrange(2, 9)
        reqs = []
        for i in range(length):
            kind = rng.randrange(8)
            code = rng.choice([0, 1, 2]) if kind < 5 else rng.choice([0, 0, 2])
            name = rng.choice([b"a", b"b", b"ab", b"/x", b""]) if kind >= 5 else b"n%d" % i
            reqs.append(rq(kind, code, rng.choice(prios), name))
        cases.append(reg_case(0, reqs, "mixed-kinds"))
    # random long histories, wider priorities, occasionally the i32 ends
    for _ in range(400 if tier == "quick" else 6000):
        length = rng.randrange(9, 60)
        span = rng.choice([3, 6, 12, 40])
        base = rng.choice([0, 0, 0, I32_MIN + span, I32_MAX - span, 1000])
        ops = [(rng.choice([0, 0, 1, 1, 2]), max(I32_MIN, min(I32_MAX, base + rng.randrange(-span, span + 1)))) for _ in range(length)]
        cases.append(seq_case(rng.randrange(5), ops, "random-long"))
    return cases


def bsearch_cases(rng, tier):
    cases = []

    def mk(orient, t, ks, kind):
        return Case("std.bsearch", xl(xn(orient), xz(t), xlist([xz(k) for k in ks])), None, {"kind": kind})

    # exhaustive: every strictly descending list over {0..5} (64 subsets) x every target -1..6 x both orientations
    for mask in range(64):
        ks = [k for k in range(5, -1, -1) if mask >> k & 1]
        for t in range(-1, 7):
            cases.append(mk(0, t, ks, "bsearch-desc"))
            cases.append(mk(1, t, ks, "bsearch-desc"))
            cases.append(mk(0, t, ks[::-1], "bsearch-asc"))
            cases.append(mk(1, t, ks[::-1], "bsearch-asc"))
    for _ in range(1500 if tier == "quick" else 30000):
        n = rng.randrange(0, 40)
        ks = [rng.randrange(-6, 7) for _ in range(n)]
        r = rng.random()
        if r < 0.4:
            ks = sorted(set(ks), reverse=True)
        elif r < 0.6:
            ks = sorted(ks, reverse=True)
        elif r < 0.7:
            ks = sorted(ks)
        cases.append(mk(rng.randrange(2), rng.randrange(-7, 8), ks, "bsearch-random"))
    return cases


# ------------------------------------------------------------------------------------------
# '!> ' lines
# ------------------------------------------------------------------------------------------
TOKEN_PIECES = [b"a", b"b", b"tmpl", b"standard.html", b"md.html", b"allow-ips", b"10.0.0.16", b"cache", b"server:full", b"hide", b"nonce",
                b"&", b">", b"&>x", b"x&>", b"&&>", b"!>", b"!", b"\xc3\xa9", b"\xe2\x82\xac", b"\xf0\x9f\x98\x80", b"z\xc3\xa5", b"0", b"-", b"/", b"=",
                b"\t", b"\x0b", b"\x00", b"\x7f", b"\"q\""]
BODIES = [b"", b"x", b"body", b"File's contents.\n", b"\n", b"\r\n", b"!> other\nrest", b"\nsecond", b" ", b"a b &> c\n", b"\xff\xfe"]


def token(rng):
    while True:
        t = b"".join(rng.choice(TOKEN_PIECES) for _ in range(rng.choice([1, 1, 1, 2, 3])))
        if t != b"&>":
            return t


def grammar_line(rng):
    """'!> ' sp* entry (sp+ '&>' sp+ entry)* [sp+ '&>'] sp* (LF | CRLF)"""
    sp = lambda lo=1: b" " * rng.choice([lo, lo, lo, lo + 1, lo + 2])
    nent = rng.choice([1, 1, 2, 2, 3, 4])
    entries = []
    for _ in range(nent):
        name = token(rng)
        args = [token(rng) for _ in range(rng.choice([0, 1, 1, 2, 3]))]
        entries.append((name, args))
    out = b"!> " + sp(0)
    for i, (name, args) in enumerate(entries):
        if i:
            out += sp() + b"&>" + sp()
        out += name
        for a in args:
            out += sp() + a
    if rng.random() < 0.4:
        out += sp() + b"&>"
    out += sp(0)
    out += rng.choice([b"\n", b"\r\n"])
    return out


MALFORMED = [
    b"", b"!", b"!>", b"!> ", b"!>  ", b"!> \n", b"!> \r\n", b"!>\n", b"!>a\n", b" !> a\n", b"\n!> a\n", b"!> a", b"!> a b &> c", b"!> a\r", b"!> a\rb\n", b"!> a\r\r\n",
    b"!> a\r\n", b"!> a\r\nb", b"!> a\n", b"!>  &> a\n", b"!>   &> a\n", b"!> &> a\n", b"!> &>\n", b"!> &> &> a\n", b"!> a &> &> b\n", b"!> a &>&> b\n",
    b"!> a &>b\n", b"!> a&> b\n", b"!> a &> \n", b"!> a &>  \n", b"!> a &> &>\n", b"!> a\r&> b\n", b"!> a \r &> b\r\n", b"!> a &>\rb\n", b"!> a b\r c\n",
    b"!> a &> b &> c &> d\n", b"!> a a a &> a a\n", b"!> \xff\n", b"!> a \xff\n", b"!> a\n\xff", b"!> \xc3\n", b"!> \xc3 \xa9\n", b"!> a\xc3\n", b"!> \xe2\x82\n",
    b"!> \xed\xa0\x80\n", b"!> \xf4\x90\x80\x80\n", b"!> \xc0\xaf\n", b"!> \xf0\x9f\x98\x80 \xf0\x9f\n", b"!> a\tb\n", b"!> a\x00b c\n", b"!> a\n!> b\n",
    b"!> a b c d e f g h i j k l m n o p\n", b"!> " + b" " * 40 + b"a\n", b"!> a" + b" " * 40 + b"\n", b"!> a &>" + b" " * 5 + b"&> b\n", b"!> a\n\n",
    b"!> a\r\n\r\n", b"!> a \n", b"!> a  &>  b  &>  \r\n", b"<html>\n", b"!!> a\n", b"!> a &> b\r", b"!> \r", b"!> \r\n\r\n",
]


def words(rng):
    """a line as the theorem present_line_spec quantifies it: words joined by single spaces; an empty word = one more space"""
    n = rng.choice([0, 1, 1, 2, 3, 4, 5, 6, 8, 12])
    ws = []
    for _ in range(n):
        r = rng.random()
        ws.append(b"" if r < 0.2 else b"&>" if r < 0.4 else token(rng))
    return ws


def line_case(ws, crlf, rest, kind):
    return Case("present.line", xl(xlist([xb(w) for w in ws]), xn(1 if crlf else 0), xb(rest)), "present.spec_line", {"kind": kind})


def present_cases(rng, tier):
    cases = []
    for d in MALFORMED:
        cases.append(Case(PARSE, xb(d), "present.nopanic", {"kind": "directed"}))
    # the two unit tests of utils/src/extensions.rs + the confirmed defects
    for d in [b"!> tmpl standard.html md.html &> allow-ips 10.0.0.16 &>\nFile's contents.\n",
              b"!>  tmpl standard.html  md.html  &>\nFile's contents.\n",
              b"!> a\r\n", b"!> a\r\nbody", b"!> tmpl x.html &> hide\r\n<html>"]:
        cases.append(Case(PARSE, xb(d), "present.spec", {"kind": "corpus-line"}))
    for _ in range(6000 if tier == "quick" else 120000):
        line = grammar_line(rng)
        cases.append(Case(PARSE, xb(line + rng.choice(BODIES)), "present.spec", {"kind": "grammar"}))
    alphabet = b" &>!\r\nab\xc3\xa9\xff\t"
    for _ in range(5000 if tier == "quick" else 100000):
        r = rng.random()
        if r < 0.6:
            h = bytearray(grammar_line(rng) + rng.choice(BODIES))
            for _ in range(rng.randrange(1, 4)):
                op = rng.randrange(3)
                pos = rng.randrange(len(h) + 1)
                if op == 0:
                    h.insert(pos, rng.choice(alphabet))
                elif op == 1 and h:
                    del h[min(pos, len(h) - 1)]
                elif h:
                    h[min(pos, len(h) - 1)] = rng.choice(alphabet)
            d = bytes(h)
        elif r < 0.85:
            d = b"!> " + bytes(rng.choice(alphabet) for _ in range(rng.randrange(0, 24)))
        else:
            d = bytes(rng.randrange(256) for _ in range(rng.randrange(0, 16)))
        cases.append(Case(PARSE, xb(d), "present.nopanic", {"kind": "malformed"}))
    # structured lines: the right-hand side of the theorem present_line_spec evaluated on the words
    for ws, crlf, rest in [([b"tmpl", b"standard.html", b"md.html", b"&>", b"allow-ips", b"10.0.0.16", b"&>"], False, b"File's contents.\n"),
                           ([b"", b"tmpl", b"standard.html", b"", b"md.html", b"", b"&>"], False, b"File's contents.\n"),
                           ([], False, b""), ([], True, b"x"), ([b""], True, b""), ([b"a"], True, b""), ([b"a"], True, b"body"),
                           ([b"&>"], False, b"r"), ([b"&>", b"a"], False, b"r"), ([b"", b"&>"], False, b"r"), ([b"", b"&>", b"a"], False, b"r"),
                           ([b"a", b"&>"], True, b"r"), ([b"a", b"&>", b"&>", b"b"], True, b"r"), ([b"a", b"&>", b"", b"&>", b"b", b"c"], True, b"r")]:
        cases.append(line_case(ws, crlf, rest, "corpus-words"))
    for _ in range(6000 if tier == "quick" else 120000):
        cases.append(line_case(words(rng), rng.random() < 0.5, rng.choice(BODIES), "grammar-words"))
    cases.append(Case("present.empty_args", xl(), "present.empty_args", {"kind": "empty-args"}))
    return cases


# ------------------------------------------------------------------------------------------
# run order: registry edits with marker extensions, then real requests
# ------------------------------------------------------------------------------------------
PATHS = [b"/", b"/a", b"/b.html", b"/c.txt", b"/d/e.html", b"/x.y.md", b"/.hid", b"/zz", b"/d/f"]
OVERRIDES = [b"/./ov1", b"/./ov2"]
PREFIXES = [b"/", b"/a", b"/d/", b"/b", b"/x", b"/zz", b"/nomatch"]
FILE_EXTS = [b"html", b"txt", b"md", b"y"]
INTERNAL = [b"tmpl", b"hide", b"x", b"allow-ips", b"a"]
PBODIES = [b"plain", b"", b"!> tmpl a b &> hide\nBODY", b"!> hide\r\nX", b"!> x\r\n", b"!> x\n", b"!>  tmpl   standard.html  md.html  &>\r\nrest",
           b"!> unknown arg &> hide 1 2 3 &> a\nrest", b"!> a &> a &> a x\n\n", b"!> hide", b"<html>"]
# first lines outside the grammar of the property (the line begins "!>  &> "; a word is not UTF-8; a CR inside the line): the parser answers
# None or splits at the CR; these are compared with the model only (no specification applies)
ODD_BODIES = [b"!>  &> hide\nr", b"!> \xff\nr", b"!> a\rb hide\nr", b"!> hide \xc3\nr"]
MARK = xl(xn(3))


def edit(kind, code, prio, key=b"", payload=MARK, body=b""):
    return xl(xn(kind), xn(code), xz(prio), xb(key), payload, xb(body))


def order_case(edits, paths, kind, spec=True):
    return Case("order.run", xl(xlist(edits), xlist([xb(p) for p in paths])), "order.spec" if spec else None, {"kind": kind})


def rand_edit(rng, prios, kinds=(0, 0, 1, 1, 2, 3, 3, 4, 4, 5, 5, 6, 6, 7)):
    kind = rng.choice(kinds)
    code = rng.choice([0, 0, 0, 1, 1, 2]) if kind < 5 else rng.choice([0, 0, 0, 2])
    prio = rng.choice(prios)
    body = rng.choice(PBODIES) if rng.random() < 0.7 else grammar_line(rng) + rng.choice(BODIES)
    if kind == 0:
        return edit(0, code, prio, payload=xl(xn(0), xb(rng.choice(PATHS)), xb(rng.choice(PATHS + OVERRIDES))))
    if kind == 1:
        return edit(1, code, prio, payload=xl(xn(1), xb(rng.choice(PREFIXES)), xb(body)))
    if kind == 2:
        return edit(2, code, prio, payload=xl(xn(2), xb(rng.choice(PREFIXES))))
    if kind in (3, 4):
        return edit(kind, code, prio)
    if kind == 5:
        return edit(5, code, 0, key=rng.choice(PATHS + OVERRIDES), body=body)
    if kind == 6:
        return edit(6, code, 0, key=rng.choice(INTERNAL))
    return edit(7, code, 0, key=rng.choice(FILE_EXTS))


def order_corpus():
    cases = []
    # primes: the later one sees the rewrite of the earlier one; an override URI selects the path-bound Prepare
    e = [edit(0, 0, 5, payload=xl(xn(0), xb(b"/a"), xb(b"/b.html"))), edit(0, 0, 3, payload=xl(xn(0), xb(b"/b.html"), xb(b"/c.txt"))),
         edit(0, 1, 5, payload=xl(xn(0), xb(b"/c.txt"), xb(b"/./ov1"))),
         edit(5, 0, 0, key=b"/./ov1", body=b"!> tmpl x y &> hide\r\nBODY"), edit(5, 0, 0, key=b"/c.txt", body=b"plain"),
         edit(1, 0, 1, payload=xl(xn(1), xb(b"/"), xb(b"!> hide\nfn1"))), edit(1, 0, 7, payload=xl(xn(1), xb(b"/zz"), xb(b"fn7"))),
         edit(2, 0, 2, payload=xl(xn(2), xb(b"/"))), edit(2, 0, 9, payload=xl(xn(2), xb(b"/c"))), edit(7, 0, 0, key=b"html"), edit(7, 0, 0, key=b"txt"),
         edit(6, 0, 0, key=b"tmpl"), edit(6, 0, 0, key=b"hide"),
         edit(3, 0, 1), edit(3, 0, 10), edit(3, 1, 10), edit(4, 0, -1), edit(4, 0, 4), edit(4, 2, 4), edit(4, 0, 6)]
    cases.append(order_case(e, [b"/a", b"/b.html", b"/zz", b"/q.html", b"/c.txt"], "corpus"))
    # the three repaired defects, through real requests
    for k in range(5):
        pl = [xl(xn(0), xb(b"/a"), xb(b"/zz")), xl(xn(1), xb(b"/"), xb(b"b")), xl(xn(2), xb(b"/")), MARK, MARK][k]
        cases.append(order_case([edit(k, 0, 10, payload=pl), edit(k, 0, 5, payload=pl), edit(k, 0, 1, payload=pl), edit(k, 2, 10), edit(k, 2, 1),
                                 edit(1, 0, 0, payload=xl(xn(1), xb(b"/"), xb(b"x")))], [b"/a"], "corpus-remove"))
    cases.append(order_case([edit(5, 0, 0, key=b"/a", body=b"!> x\r\n"), edit(5, 0, 0, key=b"/zz", body=b"!> hide y\r\nbody"), edit(6, 0, 0, key=b"hide")],
                            [b"/a", b"/zz"], "corpus-crlf"))
    cases.append(order_case([edit(2, 0, 1, payload=xl(xn(2), xb(b"/"))), edit(7, 0, 0, key=b"html"), edit(5, 0, 0, key=b"/b.html", body=b"x")],
                            [b"/b.html", b"/a"], "corpus-empty-args"))
    return cases


def order_cases(rng, tier):
    cases = order_corpus()
    small = [-1, 0, 1, 2]
    for _ in range(700 if tier == "quick" else 9000):
        n = rng.randrange(1, 15)
        prios = rng.choice([small, small, small, [I32_MIN, I32_MIN + 1, 0], [16777216, 16777215, 128, 10, -100, -1327]])
        edits = [rand_edit(rng, prios) for _ in range(n)]
        paths = [rng.choice(PATHS) for _ in range(rng.randrange(1, 4))]
        cases.append(order_case(edits, paths, "order-random"))
    # one kind at a time, dense: many edits on one vector, then one request
    for _ in range(150 if tier == "quick" else 3000):
        kind = rng.randrange(5)
        edits = [rand_edit(rng, small, kinds=(kind,)) for _ in range(rng.randrange(2, 10))]
        edits.append(edit(5, 0, 0, key=b"/a", body=rng.choice(PBODIES)))
        edits.append(edit(6, 0, 0, key=rng.choice(INTERNAL)))
        cases.append(order_case(edits, [rng.choice([b"/a", b"/b.html", b"/zz"])], "order-one-kind"))
    # targeted: an override URI selecting a path-bound Prepare; several matching predicate-bound Prepares; several registered
    # extensions on the '!> ' line with arguments; several matching present_fn; several Package / Post
    for _ in range(240 if tier == "quick" else 5000):
        path = rng.choice(PATHS)
        ov = rng.choice(OVERRIDES)
        names = rng.sample(INTERNAL, rng.randrange(2, 5))
        line = b"!> " + b" &> ".join(n + b"".join(b" " + token(rng) for _ in range(rng.randrange(0, 3))) for n in names) + rng.choice([b"\n", b"\r\n", b" &>\n"]) + b"B"
        edits = []
        if rng.random() < 0.6:
            edits.append(edit(0, rng.choice([0, 1]), rng.choice(small), payload=xl(xn(0), xb(path), xb(ov))))
            edits.append(edit(5, 0, 0, key=ov, body=line))
            if rng.random() < 0.5:
                edits.append(edit(5, 0, 0, key=path, body=b"by-path"))
        for _ in range(rng.randrange(2, 5)):
            edits.append(edit(1, rng.choice([0, 1]), rng.choice(small), payload=xl(xn(1), xb(rng.choice([b"/", b"/", path])), xb(rng.choice([line, b"fn", b"!> hide x\nfn"])))))
        for _ in range(rng.randrange(0, 3)):
            edits.append(edit(2, rng.choice([0, 1]), rng.choice(small), payload=xl(xn(2), xb(rng.choice([b"/", path])))))
        for n in rng.sample(INTERNAL, rng.randrange(2, 6)):
            edits.append(edit(6, 0, 0, key=n))
        for k in (3, 4):
            for _ in range(rng.randrange(1, 4)):
                edits.append(edit(k, rng.choice([0, 1, 1]), rng.choice(small)))
        rng.shuffle(edits)
        cases.append(order_case(edits, [path], "order-targeted"))
    for body in ODD_BODIES:
        cases.append(order_case([edit(5, 0, 0, key=b"/a", body=body), edit(6, 0, 0, key=b"hide"), edit(3, 0, 1)], [b"/a"], "order-outside-grammar", spec=False))
    return cases


def generate(rng, tier):
    return registry_cases(rng, tier) + bsearch_cases(rng, tier) + present_cases(rng, tier) + order_cases(rng, tier)


def spec_ok(c, i, s):
    if c.spec == "present.nopanic":
        # present_never_panics on the implementation's output: Ok; Some => data_start <= len and body = data[data_start..]
        if not i.startswith("(L (N 0)"):
            return False
        x = kv.xparse(i)
        opt = x[1][1][1]
        if not opt:
            return True
        parsed = opt[0][1]
        ds, body, data = parsed[1][1], parsed[2][1], c.x[1]
        return ds <= len(data) and body == data[ds:]
    return i == s


def signature(c, m):
    if c.comp == "reg.present_fn_getter":
        return "getter"
    if c.comp.startswith("reg."):
        return "steps=%d" % len(c.x[1][1][1]) if c.x[1][1][1] else None
    if c.comp == "std.bsearch":
        return m[:12] if c.x[1][2][1] else None
    if c.comp.startswith("present.parse"):
        if m.startswith("(L (N 0) (L (L"):
            return "some"
        if c.x[1][:3] == b"!> ":
            return "none-after-prefix" if m.startswith("(L (N 0)") else "panic"
        return None
    if c.comp == "present.line":
        return "words=%d" % len(c.x[1][0][1]) if c.x[1][0][1] else None
    if c.comp == "order.run":
        return "events=%d" % m.count("(L (N ") if "(N 200)" in m else None
    return "x"


def directed(rng, mismatches):
    cases = []
    prios = [-2, -1, 0, 1, 2, 3]
    alphabet = [(c, p) for c in (0, 1, 2) for p in prios]
    for k in range(5):
        for length in (1, 2, 3):
            for ops in itertools.product(alphabet, repeat=length):
                if length == 3 and rng.random() < 0.5:
                    continue
                cases.append(seq_case(k, list(ops), "directed"))
    for _ in range(20000):
        cases.append(Case(PARSE, xb(grammar_line(rng) + rng.choice(BODIES)), "present.spec", {"kind": "directed"}))
        cases.append(line_case(words(rng), rng.random() < 0.5, rng.choice(BODIES), "directed"))
    cases.append(Case("present.empty_args", xl(), "present.empty_args", {"kind": "directed"}))
    cases += order_corpus()
    for _ in range(1500):
        edits = [rand_edit(rng, [-1, 0, 1, 2]) for _ in range(rng.randrange(1, 10))]
        cases.append(order_case(edits, [rng.choice(PATHS) for _ in range(2)], "directed"))
    return cases


THEOREMS = [
    ("binary_search_total",
     'forall (T : Type) (f : T -> comparison) (l : list T), exists r, binary_search_by f l = Some r'),
    ("binary_search_ok_iff",
     'forall (T : Type) (f : T -> comparison) (l : list T) (i : nat), partitioned f l -> (binary_search_by f l = Some (BOk i) <-> exists x, nth_error l i = Some x /\\ f x = Eq)'),
    ("binary_search_err_iff",
     'forall (T : Type) (f : T -> comparison) (l : list T) (i : nat), partitioned f l -> (binary_search_by f l = Some (BErr i) <-> insertion_point f l i)'),
    ("binary_search_insertion_point_unique",
     'forall (T : Type) (f : T -> comparison) (l : list T) (i j : nat), insertion_point f l i -> insertion_point f l j -> i = j'),
    ("registry_refines_map",
     'forall (A : Type) (ops : list (op A)) (l : list (Z * A)), desc l -> run_model l ops = run_ref l ops'),
    ("registry_refines_map_from_empty",
     'forall (A : Type) (ops : list (op A)), run_model [] ops = run_ref [] ops'),
    ("reference_descending",
     "forall (A : Type) (ops : list (op A)) (l : list (Z * A)), desc l -> Forall (fun r => match r with Ok l' => desc l' | _ => True end) (run_ref l ops)"),
    ("reference_add_is_map_update",
     'forall (A : Type) (l : list (Z * A)) (p : Z) (a : A) (q : Z), desc l -> ref_get (ref_add l p a) q = if (q =? p)%Z then Some a else ref_get l q'),
    ("reference_remove_is_map_remove",
     'forall (A : Type) (l : list (Z * A)) (p q : Z), ref_get (ref_remove l p) q = if (q =? p)%Z then None else ref_get l q'),
    ("no_override_takes_greatest_free",
     "forall (A : Type) (l : list (Z * A)) (p : Z), desc l -> match ref_free_below l p with | Some p' => (p' <= p)%Z /\\ ref_mem l p' = false /\\ (forall q, (p' < q <= p)%Z -> ref_mem l q = true) /\\ ((i32_min <= p)%Z -> (i32_min <= p')%Z) | None => forall q, (i32_min <= q <= p)%Z -> ref_mem l q = true end"),
    ("extensions_refine_reference",
     'forall (e : extensions) (rs : list request), ext_desc e -> ext_run remove_sorted_list e rs = ext_run_ref e rs'),
    ("extensions_new_descending",
     'ext_desc extensions_empty /\\ ext_desc extensions_new'),
    ("remove_sorted_list_v0_refuted",
     'exists (l : list (Z * N)) (p : Z), desc l /\\ remove_sorted_list_v0 l p <> Ok (ref_remove l p)'),
    ("present_never_panics",
     'forall data : bytes, exists r, present_parse data = Ok r /\\ match r with | Some p => (p_data_start p <= length data)%nat /\\ p_body p = skipn (p_data_start p) data | None => True end'),
    ("present_line_spec",
     'forall (ws : list bytes) (crlf : bool) (rest : bytes), line_words_ok ws -> present_parse (render_line ws crlf ++ rest) = Ok (Some {| p_entries := group_words None (nonempty_words ws); p_data_start := length (render_line ws crlf); p_body := rest |})'),
    ("present_v0_refuted",
     'present_parse_v0 (B "!> a" ++ [13; 10]) = Panic /\\ (exists p, present_parse_v0 (B "!> a" ++ [13; 10] ++ B "body") = Ok (Some p) /\\ p_body p = B "ody") /\\ empty_args_next_v0 = Panic /\\ empty_args_next = Ok None'),
    ("prime_sequential",
     'forall (l1 : list (Z * prime_ext)) (i : Z) (pr : prime_ext) (l2 : list (Z * prime_ext)) (st : bytes * option bytes), snd (resolve_prime (l1 ++ (i, pr) :: l2) st) = snd (resolve_prime l1 st) ++ EPrime i (fst (prime_state l1 st)) :: snd (resolve_prime l2 (prime_apply pr (prime_state l1 st))) /\\ length (snd (resolve_prime l1 st)) = length l1'),
    ("prime_all_once_in_order",
     'forall (l : list (Z * prime_ext)) (st : bytes * option bytes), map event_prio (snd (resolve_prime l st)) = map (fun e => Some (fst e)) l'),
    ("prepare_single_first",
     'forall (single : list (bytes * handler)) (fns : list (Z * ((bytes -> bool) * handler))) (st : bytes * option bytes) (h : handler), assoc (prepare_key st) single = Some h -> resolve_prepare single fns st = (Some (h (fst st)), [EPrepareSingle (prepare_key st) (fst st)])'),
    ("first_predicate_only",
     'forall (single : list (bytes * handler)) (l1 : list (Z * ((bytes -> bool) * handler))) (i : Z) (pred : bytes -> bool) (h : handler) (l2 : list (Z * ((bytes -> bool) * handler))) (st : bytes * option bytes), assoc (prepare_key st) single = None -> Forall (fun e => fst (snd e) (fst st) = false) l1 -> pred (fst st) = true -> resolve_prepare single (l1 ++ (i, (pred, h)) :: l2) st = (Some (h (fst st)), [EPrepareFn i (fst st)])'),
    ("no_matching_prepare",
     'forall (single : list (bytes * handler)) (fns : list (Z * ((bytes -> bool) * handler))) (st : bytes * option bytes), assoc (prepare_key st) single = None -> Forall (fun e => fst (snd e) (fst st) = false) fns -> resolve_prepare single fns st = (None, [])'),
    ("present_line_order",
     'forall (pfns : list (Z * (bytes -> bool))) (pfile pint : list bytes) (path : bytes) (ws : list bytes) (crlf : bool) (rest : bytes), line_words_ok ws -> resolve_present present_parse pfns pfile pint path (render_line ws crlf ++ rest) = Ok (rest, map (fun x => EPresentFn (fst x)) (filter (fun x => snd x path) pfns) ++ (match path_extension path with Some e => if bmem e pfile then [EPresentFile e] else [] | None => [] end) ++ map (fun e => EPresentInternal (fst e) (snd e)) (filter (fun e => bmem (fst e) pint) (group_words None (nonempty_words ws))))'),
    ("package_post_once",
     'forall (X : Type) (l : list (Z * X)), resolve_package l = map (fun e => EPackage (fst e)) l /\\ resolve_post l = map (fun e => EPost (fst e)) l /\\ (desc l -> NoDup (resolve_package l) /\\ NoDup (resolve_post l))'),
    ("serve_stages",
     'forall (b : behaviours) (path : bytes), exists status body present_tr, serve present_parse b path = (Ok (status, body), snd (resolve_prime (b_prime b) (path, None)) ++ snd (resolve_prepare (b_single b) (b_prepare_fn b) (prime_state (b_prime b) (path, None))) ++ present_tr ++ map (fun e => EPackage (fst e)) (b_package b) ++ map (fun e => EPost (fst e)) (b_post b)) /\\ Forall is_present_event present_tr'),
    ("run_order_after_edits",
     'forall (parse : bytes -> outcome (option parsed)) (es : list pedit) (paths : list bytes), run_scenario model_step parse es paths = run_scenario ref_step parse es paths /\\ pc_desc (pconfig_build ref_step es)'),
]

RULE = ("Registry: for every history of add / add-with-no_override / remove on each of the five sorted extension vectors (and insert/remove on the three "
        "hash maps) the listing after every step equals the reference map's: descending priority, equal priority replaces, no_override takes the "
        "greatest free priority at or below the requested one (panic exactly when all down to i32::MIN are taken), remove deletes exactly that "
        "priority, no edit touches another list. '!> ' line: for every line of the grammar the parser returns the names and arguments in order and "
        "data_start is the index just after the LF; for arbitrary bytes no panic and data_start <= len. Run order: per request the trace of marker "
        "extensions is Prime* (list order, each seeing the previous rewrite), the path-bound Prepare or else the first matching predicate-bound one, "
        "the Present extensions (predicate-bound, file-extension, then those of the '!> ' line in line order with exactly their arguments), then "
        "every Package and every Post extension once, all in descending priority.")
ASSUMPTIONS = [
    "priorities are i32 (the model uses Z and makes the checked_sub(1) at i32::MIN explicit); Id equality/order is by priority only, as impl Ord for Id",
    "run-order theorems are about one request on a host without response cache and with the file system disabled (the fixture); cache hits skip "
    "Prepare/Present by design (C03) and are outside this property's model",
    "extension behaviours are arbitrary total functions of the request path in the theorems; the differential run instantiates them by the fixture menu "
    "(rewrite rules, prefix predicates, static bodies) of harness/src/c16pipe.rs and Model/RunOrder.v",
    "Path::extension is modelled on the fixture's path domain (segments of [a-z0-9.], no empty/./.. last segment)",
    "slice::binary_search_by is the transcription of rustc 1.95's branch-free version (compared with the real one on arbitrary slices each run)",
]
TRUSTED = [
    "hand transcription of add_sorted_list!/remove_sorted_list!, Extensions::{add,remove,get}_*, Extensions::new, resolve_* (src/extensions.rs), their call order in "
    "src/lib.rs and of utils/src/extensions.rs (PresentExtensions::new and the two iterators), validated by the differential run",
    "harness/src/c16.rs, harness/src/c16pipe.rs (marker extensions, loopback client: one connection per request, the server task is joined before the log is read)",
]
LEVEL_TEXT = ("Machine-checked Coq theorems (no axioms) over transcriptions of the registry macros on rustc 1.95's binary_search_by, of the '!> ' line "
              "parser with its iterators, and of the resolve_* drivers: binary_search_by returns Ok i iff element i is the target and Err i iff i is the "
              "unique insertion point on every strictly sorted slice; every history of add / no_override / remove for all priorities yields exactly the "
              "reference map's listings (refinement by induction over the history, invariant: strictly descending), also for the whole Extensions value "
              "from empty() and new(); the parser never panics and data_start <= len for arbitrary bytes, and for every line of the grammar (any words, any "
              "runs of spaces, '&>' separators also trailing, LF or CRLF) it returns the names and arguments in order with data_start just after the LF; "
              "Prime extensions run sequentially each seeing the previous rewrite, a path-bound Prepare wins and only the first matching predicate-bound one "
              "runs, Present extensions run in line order with their arguments, every Package and Post runs exactly once in descending priority. The models "
              "are tied to the repository on every run by a differential run of the real Extensions::{add,remove,get}_*, PresentExtensions and of real "
              "requests through kvarn::handle_connection with marker extensions; each case is also compared with the executable specification "
              "(reference map / token-level reading of the line / right-hand side of present_line_spec).")
LEVEL_NOTE = ("Trusted: Coq kernel, extraction (ExtrOcamlBasic) reduced by an in-kernel recheck sample, the hand transcriptions as validated by the "
              "differential run. Not covered: extensions run on a cache hit (none but Package/Post), HTTP/2 push (Post is skipped there by design), "
              "async interleavings of two requests (extensions are immutable during serving), Path::extension outside the fixture's path domain, "
              "next_back of the argument iterator. The three repaired defects are kept as _v0 refutation witnesses.")
TECHNIQUE = ("Coq proof (loop invariant for binary search, refinement of the reference map for all histories, parser correctness for all inputs / all "
             "grammar lines, run-order lemmas for arbitrary behaviours) + differential correspondence model vs. implementation (direct calls and real requests)")
