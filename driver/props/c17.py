"""C17 — access-guarding file directives hold whatever the cache contains."""
import ipaddress
import json
import os
import re

from kv import Case, xn, xb, xl, xlist, xbool, xparse, xtext
import kv
import pipe

ID = "C17"
MODULE = "C17"
IMPORTS = "PathSan PresentLine CacheX Guards GuardsProofs"
PROFILES = ("dev",)
PER_SHARD = 12
KERNEL_SAMPLE = 12
_PINS = json.load(open(os.path.join(os.path.dirname(os.path.abspath(__file__)), "pins", "C17.json")))
# every statement is pinned (driver/props/pins/C17.json, written by tools/mkpins.py after a REVIEWED change): the audit
# compiles `Check (name : pinned statement)` for each, so weakening Properties/C17.v is reported
_NAMES = ("guarded_content_confined", "reply_ok_meaning", "range_of_clean_body_clean", "ranged_reply_confined", "spelling_decodes",
          "ext_lookup_spelling_independent", "single_decode_only", "listed_is_exact", "address_families_disjoint",
          "allow_ips_never_stored", "guarded_answer_is_404",
          "refused_reply_is_404", "hidden_file_indistinguishable_from_absent", "error_page_line_v0_refuted",
          "tmpl_names_guarded_file_refuted", "allow_404_template_refuted", "file_cache_transparent",
          "guarded_content_confined_with_file_cache",
          "private_spelling_v0_refuted", "cache_directive_v0_refuted", "violates_contradicts_confined",
          "guarded_content_confined_changing_files", "changing_files_extends_fixed_files", "scenario_without_writes_unchanged",
          "guard_line_any_length", "long_allow_list_decides", "vary_admission_v0_refuted", "violates_w_contradicts_confined",
          "allow_ips_variant_never_pushed")
THEOREMS = [(n, _PINS[n]) for n in _NAMES]
RULE = ("(1) guards.run: histories of requests against the real kvarn::handle_cache in process (host = Extensions::empty() or, for a third of the "
        "scenarios, Extensions::new() [default Prime 'Expand . and /': /e/ -> /e/index.html, /r. -> /r.html; CORS denial route], + "
        "kvarn_extensions::mount_all; fixture files written to a fresh directory: public/..., errors/404.html (plain, with a '!> ' line, CRLF, "
        "'!> tmpl' template + templates/err), errors/416.html, errors/406.html; chosen client address per request: 10.0.x.y, any IPv4, any IPv6 "
        "incl. IPv4-mapped and IPv4-compatible forms; stale and negative entries put into the real host.file_cache) vs. the extracted Coq model "
        "(correspondence per request: status, decoded body, identity body, presence of cache-control, presence of last-modified except on 404). "
        "Fixture files carry a marker SECRET:<file>:<nonce> after their first line; files: *.private (also in a sub-directory), '!> hide', "
        "'!> allow-ips <list>' with IPv4 and IPv6 arguments (compressed, upper case, leading zeros, embedded IPv4; near misses: 10.0.0.11 vs "
        "10.0.0.1, leading zeros, /32, brackets, zone, two '::', 9 groups), with and without '&> cache ...' / '&> download' before/after it, two "
        "allow-ips directives, allow-ips + hide, CRLF line ends, unguarded controls (x.PRIVATE, .private, plain). Histories: a listed address "
        "first, then other addresses (also carrying x-forwarded-for / forwarded / x-real-ip / client-ip ... = a listed address), per spelling; "
        "then the same request for a path that does not exist (twin). Spellings = percent-encoding of a subset of the characters of the path "
        "(exhaustive scenarios: all 2^k subsets of the last k = min(n, 8..9) characters for one private, one allow-ips and one hide file in "
        "rotation; either hex case), plus spellings that do NOT denote the file (double encoding %252E, invalid escapes, %00, %C0%AE, ';x', "
        "trailing '/', '/.', '//', encoded '/', case). GET/HEAD/POST, Range, Accept-Encoding, Origin, queries, If-Modified-Since, vary rules "
        "(variant push), clear_page/clear_all, waits past a 1 s lifetime, response cache and file cache on/off. Oracles: (a) spec component "
        "guards.spec (Gallina [permitted_b] over what the server holds): a SECRET marker in a body => permitted for exactly that file; (b) "
        "model-independent Python oracle with its own line/address parser (ipaddress module); (c) refused-vs-absent twins, real against "
        "real: same status, body, identity body - and the same cache-control / last-modified where nothing but hide / *.private marks the "
        "file. (2) guards.wire: histories over loopback HTTP/1.1 connections served by kvarn::handle_connection with the chosen peer address "
        "(what SendKind::send wrote: Range slices of guarded bodies, HEAD, 406, every header); the harness itself reports marker leaks, body "
        "bytes after HEAD and any difference (status, every header but date, body) between a refused file and a path that does not exist; "
        "the specified result is the empty list. (3) guards.push: a public HTML page that links every fixture file, fetched over TLS + HTTP/2 by "
        "listed and not listed clients (IPv4, IPv6, loopback); every response kvarn_extensions::push PUSHES (its internal handle_cache request) "
        "is judged by the marker oracle like an answer; at least two pushed responses per fetch or the case counts as not executed. "
        "(4) FILES THAT CHANGE: the fixture rewrites public files between two requests of a history (op 4 of guards.run / guards.wire; model: a "
        "new world, theorem guarded_content_confined_changing_files): the path has a vary rule and an item in the response cache from an earlier "
        "version of the file (public page, hidden, other list) or from before its deployment (cached 404); the file gets a guard line; a listed "
        "client asks for a variant the item lacks (handle_vary_missing), then strangers ask for it (GET/HEAD, queries, conditional, other "
        "spellings, default redirect /idx/); later versions follow (list edited, public again, hidden). Replies are judged by the version the "
        "server holds at that moment (spec component and Python oracle). (5) LONG '!> ' LINES: allow lists of 1..100 IPv4/IPv6 addresses with the "
        "listed client first / in the middle / last, up to 40 directives, arguments of 300..600 bytes, hide or the deciding allow-ips at the very "
        "end; lines fitted to 255..257, 511..513, 1023..1025 bytes in guards.run (4095..4097 in the thorough tier) and to 4095..4097, 16383/4, "
        "65536, 65537 bytes in guards.wire (marker oracle and refused-vs-absent comparison inside the harness; the Gallina parser transcribes "
        "the Rust loop and is quadratic in the line length). "
        "distinct_nontrivial = distinct (scenario, outcome) pairs in which a listed address received guarded content and a later request was refused")
ASSUMPTIONS = [
    "files may change between two requests of a history (guarded_content_confined_changing_files: any sequence of worlds = public files, "
    "error pages, template engine; in every world the secret occurs only in guarded files; a reply is judged by the world of its moment) but "
    "not DURING a request (the fixture renames a complete file into place); refused_reply_is_404, hidden_file_indistinguishable_from_absent and "
    "the file-cache theorems are about histories with fixed files (after a change the response cache may still hold - and serve - the answers "
    "of an earlier version: its 200 while the page was public, its 404; never a guarded version's content). There are no links that give a "
    "guarded file a second name (fs is a function of the path text; the fixture tree uses PathSan's resolution: ENOTDIR, empty and '.' "
    "components, '..'); the file cache itself - any initial content, any fills - is covered by file_cache_transparent; in the scenario model "
    "only public files are rewritten (read::file never fills the file cache)",
    "the secret (any byte string) occurs in no error page and templates introduce no guarded content (hypotheses Herr_clean / Htmpl of "
    "guarded_content_confined; error pages MAY carry a '!> ' line and be '!> tmpl' templates). A page whose '!> tmpl' argument names a guarded "
    "file violates Htmpl: known class tmpl-names-guarded-file",
    "refused_reply_is_404 assumes that no error page is a template (known class allow-ips-404-template-unrendered), that the status filter "
    "drops 400 and 416 (the default does) and that override URIs of Prime extensions are internal ('/./...'); "
    "hidden_file_indistinguishable_from_absent assumes error pages without a '!> ' line",
    "Present extensions other than allow-ips, hide, cache, download, tmpl (nonce, user-supplied ones) are not on the modelled host; "
    "Prepare extensions other than the CORS denial route neither",
    "content negotiation is abstract in the theorems (any refusal function); in the model run nothing is refused: Accept-Encoding values that "
    "refuse every coding are sent in the wire histories only; bodies are compared after decoding content-encoding with standard decoders",
    "sequential histories; moka as a finite map (C03's assumptions); HTTP/2 push is not modelled: the pushed responses are judged by the "
    "marker oracle only (guards.push)",
    "a file named exactly '.private' (empty stem) is not '*.private' for Path::extension and is served; an allow-ips argument lists an "
    "address only in the notations IpAddr::from_str accepts (no /32, no brackets, no zone); an IPv4 address equals no IPv6 address, not "
    "even its mapped form (::ffff:a.b.c.d clients of a dual-stack listener are refused by an IPv4 list: fail closed)",
]
TRUSTED = ["modelled: extensions/src/lib.rs ip_allow, hide (incl. a templated 404 page), cache, download, templates (Model/Templates.v, C02), mount_all; "
           "src/extensions.rs resolve_present; src/error.rs default (errors/<code>.html or the hard-coded page); src/lib.rs get_response/"
           "handle_request file path and the CORS denial route + handle_cache in full (Model/CacheX.v, C03/C04; incl. handle_vary_missing's admission test); the "
           "fixture's write op as a change of the world between two operations; src/read.rs file / file_cached "
           "(file cache as a map with negative entries); std Path::extension, core::net::parser IpAddr::from_str (IPv4 and IPv6, Rust 1.95), "
           "ClientCachePreference/ServerCachePreference::from_str; Model/PresentLine.v (C16) for the '!> ' line; Model/PathSan.v (C01) for "
           "decoding/sanitize"]
LEVEL_TEXT = ("Coq theorem guarded_content_confined over the model of the repaired code (file-serving path + Present directives incl. '!> tmpl' + error "
              "pages with lines of their own + CORS denial route + the response cache of Model/CacheX.v): for every file system in which a secret "
              "byte string occurs only inside guarded files, every history of requests / clears / waits from the empty cache (any raw "
              "percent-encoded paths, queries, methods, headers, client addresses - every IPv4 and IPv6 address -, in any order), response cache on "
              "or off, any status filter, any negotiation outcome, vary rules, rewriting and overriding Prime extensions, a reply (body sent or "
              "identity body) contains the secret only if the request's decoded path is a file whose line has allow-ips and no hide, that is not "
              "*.private, and whose every allow-ips directive lists the request's own client address (reply_ok_meaning). Proof: per-request decision "
              "of the layer below the cache (an answer with the secret is an answer to a permitted request AND has server preference None, "
              "whatever cache directives surround allow-ips) + inductive cache invariant (what was admitted carries no secret). "
              "guarded_content_confined_changing_files: the same for files that CHANGE during the history - a history is any list of (world, "
              "operation), the response cache lives through it and may hold answers of earlier worlds; a reply with the secret answers a request "
              "permitted in the world of its own moment; in particular the 200 computed for a listed client is never pushed as a new variant into an "
              "item cached earlier (the admission test of handle_vary_missing, allow_ips_variant_never_pushed; refuted without it: vary_admission_v0_refuted, the history public "
              "page cached -> allow-ips line deployed -> listed client, other variant -> stranger, same variant); changing_files_extends_fixed_files / "
              "scenario_without_writes_unchanged tie it to run_g and to the scenario runner of the differential run. guard_line_any_length / "
              "long_allow_list_decides: the '!> ' line has no length limit - for every line of C16's grammar (any number of words of any length) the "
              "directives are those written, and an allow list of ANY length refuses (host's 404) every address no argument lists and serves, "
              "uncached, those it lists. "
              "file_cache_transparent + guarded_content_confined_with_file_cache: the same with the file cache as state, for any initial content "
              "(stale, negative entries), any fills, on or off - 'content of a file' is what the server holds for its path. refused_reply_is_404: in "
              "every history the reply to a request for a hidden / private / not-listed file is the host's 404 page as served for a path that does "
              "not exist (or 304 of that cached 404, or 406) - also through the cache; hidden_file_indistinguishable_from_absent: removing plainly "
              "hidden files changes no observation (status, headers, bodies, last-modified, hit or miss) of any history. guarded_answer_is_404 "
              "below the cache; spelling_decodes / ext_lookup_spelling_independent: every subset-of-positions, either-hex-case encoding denotes the "
              "same file and the same extension lookup. Refuted for the code before the three fix: commits (private_spelling_v0_refuted, "
              "cache_directive_v0_refuted, error_page_line_v0_refuted; each reproduced on the real code first) and for the two known classes on the "
              "faithful model (tmpl_names_guarded_file_refuted, allow_404_template_refuted). Tied to the repaired /repo by the differential run "
              "with oracles that do not depend on the model (marker, refused-vs-absent twins, wire-level judge, pushed responses).")
LEVEL_NOTE = ("Trusted: Coq kernel; extraction (sample re-checked in-kernel); hand transcription validated by the differential run; "
              "fs / error pages / template engine / negotiation / vary / Prime extensions as section variables with the stated hypotheses; Range, "
              "HEAD and the rest of SendKind::send are not modelled (range_of_clean_body_clean + the wire-level oracle). Lines longer than 1025 "
              "bytes (4097 thorough) are run against the real code only (wire component: marker oracle + refused-vs-absent), the theorem about "
              "them is over the model's parser. No axioms. All 29 statements are pinned (driver/props/pins/C17.json).")
TECHNIQUE = ("Coq proof (cache invariants over all histories, also with files that change + per-request decision + simulation for the file cache) + differential correspondence on "
             "kvarn::handle_cache with secret-marker, refused-vs-absent and wire-level oracles")

REPORT = [b"cache-control", b"?last-modified"]
HEX_U = "0123456789ABCDEF"
HEX_L = "0123456789abcdef"


# ----------------------------------------------------------------------------------
# client addresses: an int n < 65536 = 10.0.(n/256).(n%256); (4, v) / (6, v) = the IPv4 / IPv6 address with the value v
# ----------------------------------------------------------------------------------
def V4(text):
    return (4, int(ipaddress.IPv4Address(text)))


def V6(text):
    return (6, int(ipaddress.IPv6Address(text)))


def xaddr(a):
    return xn(a) if isinstance(a, int) else xl(xn(a[0]), xn(a[1]))


def py_ip(a):
    """the address of an operation (xval form) as an ipaddress object"""
    if a[0] == "N":
        n = a[1]
        return ipaddress.ip_address("10.0.%d.%d" % ((n // 256) % 256, n % 256))
    kind, v = a[1][0][1], a[1][1][1]
    return ipaddress.IPv4Address(v) if kind == 4 else ipaddress.IPv6Address(v)


def greq(target, method=b"GET", addr=1, headers=(), body=b""):
    return xl(xn(0), xaddr(addr), xb(method), xb(target), xlist([xl(xb(k), xb(v)) for k, v in headers]), xb(body))


def gwrite(rel, data):
    """the fixture (re)writes public/<rel> between two requests of the history"""
    return xl(xn(4), xb(rel), xb(data))


def wreq(target, method, addr, headers, allow, twin):
    """request of a guards.wire history: allow = file whose marker the answer may carry (b"" = none), twin = 0 | 1 + index"""
    return xl(xn(0), xaddr(addr), xb(method), xb(target), xlist([xl(xb(k), xb(v)) for k, v in headers]), xb(allow), xn(twin))


# ----------------------------------------------------------------------------------
# fixture files
# ----------------------------------------------------------------------------------
def content(line, rel, rng, guarded=True, crlf=False, pad=True):
    tag = (b"SECRET:" if guarded else b"PUBLIC:") + rel + b":%06d;" % rng.randrange(10 ** 6)
    body = tag + (b" lorem ipsum dolor sit amet " * 3 if pad else b"")
    if line is None:
        return body
    return line + (b"\r\n" if crlf else b"\n") + body


ALLOW_LINES = [
    b"!> allow-ips 10.0.0.1",
    b"!> allow-ips 10.0.0.1 10.0.0.3",
    b"!> allow-ips 10.0.0.3 10.0.0.1",
    b"!> allow-ips 10.0.0.1 &> cache server:full",
    b"!> allow-ips 10.0.0.1 &> cache server:full client:full",
    b"!> allow-ips 10.0.0.1 &> cache client:changing server:query_matters",
    b"!> allow-ips 10.0.0.1 &> cache server:30s",
    b"!> cache server:full &> allow-ips 10.0.0.1",
    b"!> cache server:full &> allow-ips 10.0.0.1 &> cache server:full",
    b"!> allow-ips 10.0.0.1 &> allow-ips 10.0.0.1 10.0.0.2",
    b"!> allow-ips 10.0.0.1 10.0.0.2 &> allow-ips 10.0.0.2",
    b"!> allow-ips 10.0.0.1 &> download &> cache server:full",
    b"!> download &> allow-ips 10.0.0.1",
    b"!> unknown-ext x y &> allow-ips 10.0.0.1 &> cache server:full",
    b"!> allow-ips 10.0.0.11",
    b"!> allow-ips 10.0.0.11 &> cache server:full",
    b"!> allow-ips 10.0.1.0 &> cache server:full",
    b"!> allow-ips 10.0.1.1 10.0.0.1",
    b"!> allow-ips  10.0.0.1  ",
]
NEAR_MISS_LINES = [
    b"!> allow-ips 10.0.0.01 &> cache server:full",
    b"!> allow-ips 010.0.0.1",
    b"!> allow-ips 10.0.0.1/32",
    b"!> allow-ips ::ffff:10.0.0.1 &> cache server:full",
    b"!> allow-ips 10.0.0",
    b"!> allow-ips 10.0.0.1.",
    b"!> allow-ips 10.0.0.1.1",
    b"!> allow-ips 10.0.0.256 10.0.0.1000",
    b"!> allow-ips 10.0.0.1,10.0.0.2",
    b"!> allow-ips",
    b"!> allow-ips 10.0.0.1:4000",
    b"!> allow-ips +10.0.0.1",
    b"!> allow-ips 10.0.0.1x &> cache server:full",
    b"!> allow-ips 10.0.00.1",
    b"!> allow-ips ::10.0.0.1 &> cache server:full",
    b"!> allow-ips [10.0.0.1]",
]
# IPv6 arguments: (line, a listed client)
V6_LINES = [
    (b"!> allow-ips ::1", V6("::1")),
    (b"!> allow-ips ::ffff:10.0.0.1 &> cache server:full", V6("::ffff:10.0.0.1")),
    (b"!> allow-ips 2001:db8::1 10.0.0.1", V6("2001:db8::1")),
    (b"!> allow-ips 2001:DB8:0:0:0:0:0:1", V6("2001:db8::1")),
    (b"!> allow-ips 2001:db8::0001 &> cache server:full", V6("2001:db8::1")),
    (b"!> allow-ips ::ffff:a00:1", V6("::ffff:10.0.0.1")),
    (b"!> allow-ips 0:0:0:0:0:ffff:10.0.0.1", V6("::ffff:10.0.0.1")),
    (b"!> allow-ips 1:2:3:4:5:6:7:8 &> cache server:full", V6("1:2:3:4:5:6:7:8")),
    (b"!> allow-ips 1:2:3:4:5:6:7:: 1::8", V6("1:2:3:4:5:6:7:0")),
    (b"!> allow-ips 1:2:3:4:5:6:77.88.99.11", V6("1:2:3:4:5:6:4d58:630b")),
    (b"!> allow-ips :: ", V6("::")),
    (b"!> allow-ips fe80::1 &> allow-ips fe80::1 fe80::2", V6("fe80::1")),
    # forms that do not parse (or parse differently): nobody is listed by them
    (b"!> allow-ips 2001:db8::1:: &> cache server:full", None),
    (b"!> allow-ips 1:2:3:4:5:6:7:8:9", None),
    (b"!> allow-ips ::ffff:10.0.0.1/128", None),
    (b"!> allow-ips [::1]", None),
    (b"!> allow-ips :::1", None),
    (b"!> allow-ips 2001:db8:::1", None),
    (b"!> allow-ips 12345::1", None),
    (b"!> allow-ips ::g", None),
    (b"!> allow-ips 1.2.3.4::", None),
    (b"!> allow-ips ::ffff:10.0.0.01", None),
    (b"!> allow-ips 1::2::3", None),
    (b"!> allow-ips ::1.2.3.4:5", None),
    (b"!> allow-ips 1:2:3:4:5:6:7", None),
]
HIDE_LINES = [
    b"!> hide",
    b"!> hide &> cache server:full",
    b"!> cache server:none &> hide",
    b"!> allow-ips 10.0.0.1 &> hide",
    b"!> hide &> allow-ips 10.0.0.1",
    b"!> allow-ips 10.0.0.1 &> hide &> cache server:full",
    b"!> hide now",
    b"!> hide &> unknown-ext a b",
    b"!> hide &> cache client:1s",
]
PLAIN_LINES = [None, b"!> cache server:none", b"!> cache client:60s", b"!> download", b"!> cache server:full client:none", b"hello !> hide"]
ADDRS = [1, 1, 2, 3, 11, 256, 257]
# clients that are on no list of the fixture: other IPv4 addresses, IPv6 addresses, and forms of 10.0.0.1 that are not 10.0.0.1
STRANGERS = [2, 3, 11, 256, 257, V4("192.168.1.7"), V4("1.0.0.10"), V4("127.0.0.1"), V4("255.255.255.255"), V4("0.0.0.0"),
             V6("::ffff:10.0.0.1"), V6("::10.0.0.1"), V6("64:ff9b::10.0.0.1"), V6("2002:a00:1::"), V6("::1"), V6("fe80::1"),
             V6("2001:db8::2"), V6("ffff:ffff:ffff:ffff:ffff:ffff:ffff:ffff"), V6("a00:1::")]
# the same client written with the extended forms
SAME_AS_1 = [1, V4("10.0.0.1")]
# (errors/404.html, is it free of an extension line?)
ERR404 = [(None, True), (None, True), (None, True), (b"<html><body>custom PUBLIC:404 page</body></html>", True),
          (b"!> cache client:none\n<html>PUBLIC:404 with a line</html>", False),
          (b"!> cache server:none client:changing\r\n<html>PUBLIC:404 crlf</html>", False),
          (b"!> unknown-ext\n<html>PUBLIC:404 with an idle line</html>", False),
          (b"!> tmpl err\n<html>PUBLIC:404 $[title] template</html>", False)]


def fixture(rng, rich=True, err=None):
    """returns (files xval list, targets: list of (url path bytes, kind, rel, listed client, line), error pages free of lines?)"""
    files = []
    targets = []

    def add(rel, line, guarded, crlf=False, kind="plain", pad=None, listed=1):
        files.append(xl(xb(b"public/" + rel), xb(content(line, rel, rng, guarded, crlf, rng.random() < 0.7 if pad is None else pad))))
        targets.append((b"/" + rel, kind, rel, listed, line))

    add(rng.choice([b"s.private", b"key.private", b"a.b.private", b"..private"]), rng.choice(PLAIN_LINES[:5]), True, kind="private")
    add(b"d/" + rng.choice([b"k.private", b"x.private"]), rng.choice([None, b"!> cache server:full", b"!> allow-ips 10.0.0.1"]), True, kind="private")
    add(rng.choice([b"a.txt", b"al", b"a.html"]), rng.choice(ALLOW_LINES), True, crlf=rng.random() < 0.15, kind="allow")
    add(rng.choice([b"b.txt", b"d/b.md"]), rng.choice(ALLOW_LINES[3:9]), True, kind="allow")
    add(rng.choice([b"n.txt", b"nm"]), rng.choice(NEAR_MISS_LINES), True, kind="allow")
    add(rng.choice([b"h.txt", b"h", b"d/h.css"]), rng.choice(HIDE_LINES), True, crlf=rng.random() < 0.15, kind="hide")
    if rich:
        line6, who = rng.choice(V6_LINES)
        add(rng.choice([b"six.txt", b"d/six"]), line6, True, kind="allow", listed=who if who is not None else V6("::1"))
        add(b"e/index.html", rng.choice(ALLOW_LINES[:9] + HIDE_LINES[:3]), True, kind="redirect")
        targets[-1] = (b"/e/",) + targets[-1][1:]
        add(b"r.html", rng.choice(ALLOW_LINES[:9] + HIDE_LINES[:3]), True, kind="redirect")
        targets[-1] = (b"/r.",) + targets[-1][1:]
        add(b"p.txt", rng.choice(PLAIN_LINES), False, kind="plain")
        add(rng.choice([b"x.PRIVATE", b"x.privat", b"x.private2", b"private"]), None, False, kind="plain")
        if rng.random() < 0.3:
            add(b".private", None, False, kind="plain")
    e404, plain_err = rng.choice(ERR404) if err is None else err
    if e404 is not None:
        files.append(xl(xb(b"errors/404.html"), xb(e404)))
        if b"tmpl err" in e404:
            files.append(xl(xb(b"templates/err"), xb(b"$[title]\nPUBLIC:not found\n$[other]\nx\n")))
    if rich and rng.random() < 0.15:
        files.append(xl(xb(b"errors/416.html"), xb(rng.choice([b"<html>PUBLIC:416</html>", b"!> cache server:full\n<html>PUBLIC:416 line</html>"]))))
        plain_err = False
    if rich and rng.random() < 0.1:
        files.append(xl(xb(b"errors/406.html"), xb(b"!> hide\n<html>PUBLIC:406</html>")))
    return files, targets, plain_err


# ----------------------------------------------------------------------------------
# spellings
# ----------------------------------------------------------------------------------
def encode(path, mask, rng):
    """percent-encode the characters of path[1:] selected by the bit mask"""
    out = bytearray(b"/")
    for i, c in enumerate(path[1:]):
        if mask >> i & 1:
            out += b"%" + (rng.choice([HEX_U, HEX_L])[c >> 4] + rng.choice([HEX_U, HEX_L])[c & 15]).encode()
        else:
            out.append(c)
    return bytes(out)


def dot_masks(path):
    """masks that encode a dot / the extension"""
    body = path[1:]
    dots = [i for i, c in enumerate(body) if c == 0x2E]
    out = []
    for d in dots:
        out.append(1 << d)
        out.append(((1 << len(body)) - 1) & ~((1 << d) - 1))     # the dot and everything after it
        out.append(((1 << len(body)) - 1) & ~((1 << (d + 1)) - 1))  # everything after the dot
    out.append((1 << len(body)) - 1)
    return out


def structural(path, rng):
    """spellings that do NOT denote the file (or only on a server that decodes twice / cuts the name short / normalises)"""
    p = path
    twice = p.replace(b".", b"%252E").replace(b"p", b"%2570", 1)
    return rng.choice([p + b"/", p + b"/.", p + b"%00", p + b"%ff", p + b"%2F", b"/" + p, p.replace(b"/", b"//", 2)[1:] if p.count(b"/") > 1 else p + b".",
                       (p[:-1] + bytes([p[-1] ^ 0x20]) if p[-1:].isalpha() else p + b"~"), p + b"%20", p.upper(), b"/%2e/" + p[1:], b"/x/%2e%2e" + p, p + b"/..", p + b"?",
                       twice, twice, p.replace(b".", b"%25252e"), p + b"%", p + b"%zz", p + b"%2", p.replace(b".", b"%C0%AE"), p + b";x", p + b";", b"/%2F" + p[1:],
                       p + b"%23", p + b"%3F", p + b"%00.txt", p + b"%5C", p + b"%0a", p + b"%25", p + b"%2e", p + b"\\"])


LISTED_TEXT = [b"10.0.0.1", b"::1", b"::ffff:10.0.0.1", b"2001:db8::1"]


def is_private_name(rel):
    base = rel.rsplit(b"/", 1)[-1]
    return base.endswith(b".private") and len(base) > len(b".private")


def fwd(rng):
    """headers by which a client could CLAIM an address: they must not count"""
    a = rng.choice(LISTED_TEXT)
    return rng.choice([[(b"x-forwarded-for", a)], [(b"forwarded", b"for=" + a)], [(b"x-real-ip", a)], [(b"client-ip", a)], [(b"x-client-ip", a), (b"via", b"1.1 " + a)],
                       [(b"x-forwarded-for", a + b", 10.0.0.2"), (b"x-forwarded-host", b"localhost")], [(b"cf-connecting-ip", a), (b"true-client-ip", a)],
                       [(b"x-forwarded-for", a), (b"forwarded", b"for=\"" + a + b"\";proto=http"), (b"x-real-ip", a), (b"client-ip", a)]])


HDR_SETS = [[], [], [], [(b"accept-encoding", b"gzip")], [(b"accept-encoding", b"br, gzip;q=0.5")], [(b"accept-encoding", b"zstd")],
            [(b"accept-encoding", b"identity")], [(b"range", b"bytes=0-9")], [(b"range", b"bytes=3-")], [(b"range", b"bytes=9-2")],
            [(b"range", b"bytes=0-0"), (b"accept-encoding", b"gzip")], [(b"x-v", b"A")], [(b"x-v", b"b")], [(b"x-v", b"B"), (b"accept-encoding", b"br")],
            [(b"if-modified-since", b"@T+100")], [(b"if-modified-since", b"@T-100")], [(b"if-modified-since", b"yesterday"), (b"x-v", b"a")],
            [(b"origin", b"http://elsewhere.test")], [(b"origin", b"http://localhost")], [(b"range", b"bytes=-5")]]
# (Accept-Encoding values that refuse every coding - 406 - are sent in the wire histories only: negotiation is abstract in the model)
HAS_IMS = lambda h: any(k == b"if-modified-since" for k, _ in h)


def history(rng, spellings, extra_addrs=3, methods=True, twins=None, base=0):
    """per spelling: a listed address first, then others (also with forwarded-address headers), then the same request for a path that
    does not exist (a twin: [index of a refused request, index of the request for the absent path, compare the headers too?])
    spellings: (spelling, target or None)"""
    ops = []
    absent = 0
    for sp, tgt in spellings:
        q = rng.choice([b"", b"", b"", b"?x=1", b"?"])
        h = rng.choice(HDR_SETS)
        m = b"GET" if not methods or rng.random() < 0.8 else rng.choice([b"HEAD", b"HEAD", b"POST"])
        listed = tgt[3] if tgt is not None else 1
        if listed == 1:
            listed = rng.choice(SAME_AS_1)
        ops.append(greq(sp + q, method=m, addr=listed, headers=h))
        for _ in range(extra_addrs):
            a = rng.choice(ADDRS[2:]) if rng.random() < 0.6 else rng.choice(STRANGERS)
            q2 = q if rng.random() < 0.7 else rng.choice([b"", b"?x=1", b"?y"])
            h2 = rng.choice([h, h, rng.choice(HDR_SETS)])
            if rng.random() < 0.3:
                h2 = h2 + fwd(rng)
            m2 = rng.choice([b"GET", b"GET", b"GET", b"HEAD"])
            ops.append(greq(sp + q2, method=m2, addr=a, headers=h2))
            # the twin: the same client asks, in the same way, for a path that does not exist
            if twins is not None and tgt is not None and not HAS_IMS(h2) and rng.random() < 0.6:
                hidden, allow = _py_guard(tgt[2], tgt[4] + b"\n" if tgt[4] else b"")
                if hidden or (allow is not None and py_ip(xaddr(a)) not in allow):
                    absent += 1
                    # (every path named *.private is answered by hide, whether the file exists or not: the twin of a private file is
                    # a *.private path too, else a CORS denial or a 416 of the twin would differ without telling anything)
                    ext = b".private" if is_private_name(tgt[2]) else rng.choice([b".txt", b"", b".html"])
                    ops.append(greq(b"/zz-none-%d" % absent + ext + q2, method=m2, addr=a, headers=h2))
                    plain_hidden = tgt[1] == "private" and tgt[4] is None or tgt[4] in (b"!> hide", b"!> hide now", b"!> hide &> unknown-ext a b")
                    twins.append((base + len(ops) - 2, base + len(ops) - 1, "H" if plain_hidden else "h" if hidden else "a"))
        if rng.random() < 0.3:
            ops.append(greq(sp + q, addr=listed, headers=rng.choice(HDR_SETS)))
        r = rng.random()
        if r < 0.08:
            ops.append(pipe.clear_page(sp + rng.choice([b"", q])))
            ops.append(greq(sp + q, addr=rng.choice(ADDRS[2:]), headers=h))
        elif r < 0.11:
            ops.append(pipe.clear_all())
            ops.append(greq(sp + q, addr=rng.choice(ADDRS[2:]), headers=h))
    return ops


def mk(rng, files, ops, kind, vary=None, both=True, cache=None, fcache=None, default_ext=None, twins=(), plain_err=True, seed=()):
    out = []
    tmpl404 = any(f[1][0][1] == b"errors/404.html" and f[1][1][1].startswith(b"!> tmpl ") for f in files)
    caches = (True, False) if both else (rng.random() < 0.85 if cache is None else cache,)
    de = rng.random() < 0.35 if default_ext is None else default_ext
    for c in caches:
        kw = dict(cache=c, fcache=rng.random() < 0.7 if fcache is None else fcache, files=files, report=[xb(r) for r in REPORT], default_ext=de)
        kind = kind + ("/default-ext" if de and "/default-ext" not in kind else "")
        if vary:
            kw["vary"] = vary
        if seed:
            # what the file cache holds before the first request: (path relative to the host directory, content | None = "no such file")
            kw["fcache_seed"] = [xl(xb(p_), xl() if c_ is None else xl(xb(c_))) for p_, c_ in seed]
        if twins:
            # (refused request, request for a path that does not exist, compare cache-control / last-modified too)
            # 0: compare status and bodies; 1: cache-control / last-modified presence too (nothing but hide / *.private marks the file and
            # the error pages have no line); 2: status only (the property text asks the host's 404 of hide / *.private; what allow-ips
            # puts in place of the file is the 404 page as it is, not rendered when it is a '!> tmpl' template)
            kw["twins"] = [xl(xn(i), xn(j), xn(1 if k == "H" and plain_err else 2 if k == "a" and tmpl404 else 0)) for i, j, k in twins]
        out.append(Case("guards.run", pipe.scenario(pipe.cfg(**kw), ops), "guards.spec", {"kind": kind + ("/cache" if c else "/nocache")}))
    return out


W_FILES = lambda: [xl(xb(b"public/secret.private"), xb(b"SECRET:secret.private:000001; top secret")),
                   xl(xb(b"public/ac.txt"), xb(b"!> allow-ips 10.0.0.1 &> cache server:full\nSECRET:ac.txt:000002; listed only")),
                   xl(xb(b"public/ca.txt"), xb(b"!> cache server:full &> allow-ips 10.0.0.1\nSECRET:ca.txt:000003; listed only")),
                   xl(xb(b"public/a.txt"), xb(b"!> allow-ips 10.0.0.1\nSECRET:a.txt:000004; listed only")),
                   xl(xb(b"public/h.txt"), xb(b"!> hide\nSECRET:h.txt:000005; nobody")),
                   xl(xb(b"public/p.txt"), xb(b"PUBLIC:p.txt:000006; everybody")),
                   xl(xb(b"public/v6.txt"), xb(b"!> allow-ips ::ffff:10.0.0.1 2001:db8::1\nSECRET:v6.txt:000007; two IPv6 clients")),
                   xl(xb(b"public/dl.txt"), xb(b"!> allow-ips 10.0.0.1 &> download &> unknown-ext &> cache server:full\nSECRET:dl.txt:000013; listed only"))]


def witnesses(rng):
    """the repaired defects and close relatives, as fixed corpus"""
    cases = []
    files = W_FILES()
    cases += mk(rng, files, [greq(b"/secret.private"), greq(b"/secret%2Eprivate"), greq(b"/secret%2eprivate"),
                             greq(b"/secret.%70rivate"), greq(b"/%73ecret%2E%70%72%69%76%61%74%65", addr=2)], "corpus/private-spelling")
    cases += mk(rng, files, [greq(b"/ac.txt", addr=1), greq(b"/ac.txt", addr=2), greq(b"/ac.txt", addr=1),
                             greq(b"/ac.txt", addr=3, method=b"HEAD"), greq(b"/ac.txt?x=1", addr=2)], "corpus/allow-then-cache")
    cases += mk(rng, files, [greq(b"/ac.txt", addr=2), greq(b"/ac.txt", addr=1), greq(b"/ac.txt", addr=2)], "corpus/allow-then-cache")
    cases += mk(rng, files, [greq(b"/ca.txt", addr=1), greq(b"/ca.txt", addr=2), greq(b"/a.txt", addr=1), greq(b"/a.txt", addr=2),
                             greq(b"/a%2Etxt", addr=1), greq(b"/a%2Etxt", addr=11), greq(b"/h.txt", addr=1), greq(b"/h%2etxt", addr=1),
                             greq(b"/p.txt", addr=9), greq(b"/p.txt", addr=9)], "corpus/basics")
    # directives between allow-ips and a later cache directive must not lose the lock on the server cache preference
    cases += mk(rng, files, [greq(b"/dl.txt", addr=1), greq(b"/dl.txt", addr=2), greq(b"/dl.txt", addr=V6("::ffff:10.0.0.1")), greq(b"/dl.txt", addr=1)],
                "corpus/allow-download-cache")
    vary = [pipe.vary_rule(b"/ac.txt", [(b"x-v", 0, b"-")]), pipe.vary_rule(b"/h.txt", [(b"x-v", 0, b"-")])]
    cases += mk(rng, files, [greq(b"/ac.txt", addr=2, headers=[(b"x-v", b"a")]), greq(b"/ac.txt", addr=1, headers=[(b"x-v", b"b")]),
                             greq(b"/ac.txt", addr=2, headers=[(b"x-v", b"b")]), greq(b"/h.txt", headers=[(b"x-v", b"a")]),
                             greq(b"/h.txt", headers=[(b"x-v", b"b")]), greq(b"/h.txt", headers=[(b"x-v", b"b")])], "corpus/vary-push", vary=vary)
    # a cached 404 of a hidden page and a conditional request of ANOTHER variant (no 304 for what is not stored)
    cases += mk(rng, files, [greq(b"/h.txt", headers=[(b"x-v", b"a")]), greq(b"/h.txt", addr=2, headers=[(b"if-modified-since", b"@T+100")]),
                             greq(b"/h.txt", addr=2, headers=[(b"if-modified-since", b"@T+100"), (b"x-v", b"A")])], "corpus/ims-variant", vary=vary)
    # the third repaired defect: errors/404.html with an extension line of its own
    for e404 in (b"!> cache client:none\n<html>PUBLIC:custom 404</html>", b"!> unknown-ext\r\n<html>PUBLIC:custom 404</html>", b"<html>PUBLIC:plain custom 404</html>",
                 b"!> tmpl err\n<html>PUBLIC:templated 404 $[title]</html>"):
        f2 = files + [xl(xb(b"errors/404.html"), xb(e404)), xl(xb(b"templates/err"), xb(b"$[title]\nPUBLIC:not found\n"))]
        ops = [greq(b"/secret.private", addr=2), greq(b"/nothing-here", addr=2), greq(b"/h.txt", addr=2), greq(b"/nothing-here", addr=2),
               greq(b"/a.txt", addr=2), greq(b"/nothing-here.txt", addr=2), greq(b"/a.txt", addr=1), greq(b"/zz.private", addr=2), greq(b"/secret.private", addr=2)]
        cases += mk(rng, f2, ops, "corpus/error-page-line", twins=[(0, 1, "h"), (2, 3, "H"), (4, 5, "a"), (0, 7, "H")], plain_err=e404.startswith(b"<"))
    # IPv4 / IPv6 / IPv4-mapped clients against IPv4 and IPv6 lists; claimed addresses in headers
    ops = [greq(b"/a.txt", addr=V6("::ffff:10.0.0.1")), greq(b"/a.txt", addr=V4("10.0.0.1")), greq(b"/a.txt", addr=V6("::10.0.0.1")),
           greq(b"/v6.txt", addr=V6("::ffff:10.0.0.1")), greq(b"/v6.txt", addr=1), greq(b"/v6.txt", addr=V6("2001:db8::1")), greq(b"/v6.txt", addr=V6("2001:db8::2")),
           greq(b"/a.txt", addr=2, headers=[(b"x-forwarded-for", b"10.0.0.1"), (b"forwarded", b"for=10.0.0.1"), (b"x-real-ip", b"10.0.0.1")]),
           greq(b"/v6.txt", addr=V6("::1"), headers=[(b"x-forwarded-for", b"2001:db8::1"), (b"client-ip", b"::ffff:10.0.0.1")])]
    cases += mk(rng, files, ops, "corpus/address-families")
    # files that change (theorem guarded_content_confined_changing_files; vary_admission_v0_refuted is the first history): the page is in the
    # cache of a path with a vary rule, then gets an allow-ips line; a listed client asks for another variant, then a stranger does
    pvary = [pipe.vary_rule(b"/page.html", [(b"x-v", 0, b"-")])]
    grd = b"!> allow-ips 10.0.0.1\nSECRET:page.html:000014; for 10.0.0.1 only"
    for first in ([xl(xb(b"public/page.html"), xb(b"PUBLIC:page.html:000015; public for now"))], []):
        ops = [greq(b"/page.html", addr=2, headers=[(b"x-v", b"a")]), gwrite(b"page.html", grd),
               greq(b"/page.html", addr=1, headers=[(b"x-v", b"b")]), greq(b"/page.html", addr=2, headers=[(b"x-v", b"b")]),
               greq(b"/page.html", addr=1, headers=[(b"x-v", b"b")]), greq(b"/page.html", addr=3, headers=[(b"x-v", b"B")], method=b"HEAD"),
               greq(b"/page.html", addr=2, headers=[(b"x-v", b"a")]), greq(b"/page.html", addr=2),
               gwrite(b"page.html", b"!> allow-ips 10.0.0.2 &> cache server:full\nSECRET:page.html:000016; for 10.0.0.2 only"),
               greq(b"/page.html", addr=2, headers=[(b"x-v", b"c")]), greq(b"/page.html", addr=1, headers=[(b"x-v", b"c")]),
               greq(b"/page.html", addr=1, headers=[(b"x-v", b"b")])]
        cases += mk(rng, files + first, ops, "corpus/deploy-guard-on-cached-page", vary=pvary, default_ext=False)
    # long '!> ' lines (theorem long_allow_list_decides): 60 addresses (more than 512 bytes), the listed one last; hide behind a long list
    many = b" ".join(b"10.20.30.%d" % k for k in range(1, 61))
    lfiles = [xl(xb(b"public/l60.txt"), xb(b"!> allow-ips " + many + b" 10.0.0.1\nSECRET:l60.txt:000017; sixty-one addresses")),
              xl(xb(b"public/lh.txt"), xb(b"!> allow-ips 10.0.0.1 " + many + b" &> hide\nSECRET:lh.txt:000018; nobody")),
              xl(xb(b"public/l6.txt"), xb(b"!> allow-ips " + b" ".join(b"2001:db8:0:%x::1" % k for k in range(1, 40)) + b" ::1\nSECRET:l6.txt:000019; IPv6 list"))]
    cases += mk(rng, lfiles, [greq(b"/l60.txt", addr=1), greq(b"/l60.txt", addr=2), greq(b"/l60.txt", addr=V4("10.20.30.60")), greq(b"/l60.txt", addr=V4("10.20.30.61")),
                              greq(b"/lh.txt", addr=1), greq(b"/lh.txt", addr=2), greq(b"/l6.txt", addr=V6("::1")), greq(b"/l6.txt", addr=V6("2001:db8:0:27::1")),
                              greq(b"/l6.txt", addr=V6("2001:db8:0:28::1")), greq(b"/l6.txt", addr=1), greq(b"/l60%2Etxt", addr=3)], "corpus/long-line")
    # double decoding, invalid escapes, parameters
    cases += mk(rng, files, [greq(t, addr=a) for a in (1, 2) for t in
                             (b"/secret%252Eprivate", b"/secret.private%00", b"/secret.private%", b"/secret.private%zz", b"/secret.private;x", b"/secret%C0%AEprivate",
                              b"/a%252Etxt", b"/a.txt%00", b"/a.txt;x", b"/h%252Etxt", b"/h.txt%2F", b"/h.txt%25")], "corpus/odd-spellings")
    return cases


def known_tmpl(rng):
    """KNOWN class tmpl-names-guarded-file: a PUBLIC page whose '!> tmpl' argument names a guarded file pulls that file's $[name] blocks in"""
    files = [xl(xb(b"public/s.private"), xb(b"$[x]\nSECRET:s.private:000008; a block of a private file\n$[y]\nmore")),
             xl(xb(b"public/t.html"), xb(b"!> tmpl ../public/s.private\n<html>PUBLIC:t.html:000009; $[x]</html>")),
             xl(xb(b"templates/main"), xb(b"$[title]\nPUBLIC:a template\n"))]
    return [Case("guards.run", pipe.scenario(pipe.cfg(cache=True, fcache=True, files=files, report=[xb(r) for r in REPORT], default_ext=False),
                                              [greq(b"/t.html", addr=2), greq(b"/s.private", addr=2)]), "guards.spec", {"kind": "known/tmpl-include"})]


def wire_cases(rng, n):
    """histories on the wire (what SendKind::send wrote): Range slices, HEAD, content-length; judged inside the harness"""
    cases = []
    for i in range(n):
        files, targets, plain_err = fixture(rng, rich=False, err=rng.choice(ERR404[:7]))
        ops = []
        for path, kind, rel, listed, line in targets:
            hidden, allow = _py_guard(rel, line + b"\n" if line else b"")
            sp = path if rng.random() < 0.4 else encode(path, rng.choice(dot_masks(path)), rng)
            for k in range(rng.randrange(2, 5)):
                a = (rng.choice(SAME_AS_1) if listed == 1 else listed) if k == 0 else rng.choice(ADDRS[2:] + STRANGERS)
                m = rng.choice([b"GET", b"GET", b"HEAD"])
                h = rng.choice([[], [], [(b"range", b"bytes=0-40")], [(b"range", b"bytes=7-")], [(b"range", b"bytes=-30")], [(b"range", b"bytes=0-0")],
                                [(b"range", b"bytes=5-5000")], [(b"accept-encoding", b"gzip")], [(b"accept-encoding", b"gzip"), (b"range", b"bytes=0-25")],
                                [(b"range", b"bytes=20-10")], [(b"range", b"bytes=100000-")], [(b"accept-encoding", b"gzip;q=0, identity;q=0")],
                                [(b"accept-encoding", b"*;q=0")], [(b"accept-encoding", b"identity;q=0"), (b"range", b"bytes=0-5")]])
                if rng.random() < 0.2:
                    h = h + fwd(rng)
                ok = (not hidden) and allow is not None and py_ip(xaddr(a)) in allow
                if not ok:
                    # the same request for a path that does not exist, first; then the guarded one must equal it
                    ext = b".private" if is_private_name(rel) else b".txt"
                    ops.append(wreq(b"/zz-none-%d" % len(ops) + ext, m, a, h, b"", 0))
                    # (the headers are those of a missing page only where nothing but hide / *.private marks the file)
                    plain = (kind == "private" and line is None) or line in (b"!> hide", b"!> hide now", b"!> hide &> unknown-ext a b")
                    ops.append(wreq(sp, m, a, h, b"", len(ops) if plain and plain_err else 0))
                else:
                    ops.append(wreq(sp, m, a, h, rel, 0))
        cases.append(Case("guards.wire", pipe.scenario(pipe.cfg(cache=rng.random() < 0.8, fcache=rng.random() < 0.7, files=files, default_ext=False), ops),
                          "guards.wire", {"kind": "wire"}))
    return cases


def push_cases(rng, n):
    """HTTP/2 push (kvarn_extensions::push, mounted by mount_all): a public page links guarded files; the pushed responses are judged"""
    cases = []
    for i in range(n):
        files, targets, plain_err = fixture(rng, rich=False, err=rng.choice(ERR404[:4]))
        files.append(xl(xb(b"public/lo.txt"), xb(content(b"!> allow-ips 127.0.0.1 ::1", b"lo.txt", rng, True))))
        files.append(xl(xb(b"public/pub.js"), xb(content(None, b"pub.js", rng, False))))
        links = [t[0] for t in targets] + [b"/lo.txt", b"/pub.js"]
        rng.shuffle(links)
        page = b"<!DOCTYPE html><html><head>" + b"".join(
            rng.choice([b'<script src="%s"></script>', b'<link rel="stylesheet" href="%s">', b"<script async src='%s'></script>"]) % (
                l if rng.random() < 0.6 else encode(l, rng.choice(dot_masks(l)), rng)) for l in links) + b"</head><body>PUBLIC:index.html:000000;</body></html>"
        files.append(xl(xb(b"public/index.html"), xb(page)))
        guards = {t[2]: _py_guard(t[2], t[4] + b"\n" if t[4] else b"") for t in targets}
        guards[b"lo.txt"] = _py_guard(b"lo.txt", b"!> allow-ips 127.0.0.1 ::1\n")
        ops = []
        for a in [2, 1, V4("127.0.0.1"), V6("::1"), V6("::ffff:10.0.0.1"), V6("::ffff:127.0.0.1"), rng.choice(STRANGERS), V4("10.0.0.1")]:
            ip = py_ip(xaddr(a))
            allowed = [rel for rel, (hidden, allow) in guards.items() if not hidden and allow is not None and ip in allow]
            ops.append(xl(xn(0), xaddr(a), xb(b"/index.html"), xlist([xb(r) for r in allowed]), xn(2)))
        cases.append(Case("guards.push", pipe.scenario(pipe.cfg(cache=rng.random() < 0.8, fcache=rng.random() < 0.7, files=files, default_ext=False), ops),
                          "guards.wire", {"kind": "push"}))
    return cases


def expiry_cases(rng, n):
    """entries that expire between requests (cache client:1s => max-age=1 => server lifetime 1 s); margins of 1.5 s"""
    cases = []
    for i in range(n):
        files = W_FILES() + [xl(xb(b"public/x.txt"), xb(b"!> hide &> cache client:1s\nSECRET:x.txt:000010; nobody")),
                             xl(xb(b"public/y.private"), xb(b"!> cache client:1s\nSECRET:y.private:000011; nobody")),
                             xl(xb(b"public/z.txt"), xb(b"!> allow-ips 10.0.0.1 &> cache client:1s server:full\nSECRET:z.txt:000012; listed"))]
        t = [b"/x.txt", b"/y.private", b"/z.txt", b"/h.txt"]
        ops = [greq(p, addr=a) for p in t for a in (1, 2)]
        ops += [greq(p, addr=2, headers=[(b"if-modified-since", b"@T+100")]) for p in t]
        ops.append(pipe.wait(2600))
        ops += [greq(p, addr=a, headers=h) for p in t for a in (2, 1) for h in ([(b"if-modified-since", b"@T+100")], [])]
        cases += mk(rng, files, ops, "expiry", both=False, cache=True, default_ext=(i % 2 == 1))
    return cases


def transition_cases(rng, n):
    """FILES THAT CHANGE during a history (theorem guarded_content_confined_changing_files): the path has a vary rule and an item in
    the response cache that stems from an EARLIER version of the file (public page, other allow list, hidden) or from the time before
    the file was deployed (cached 404); then the file is (re)written with a guard line; a listed client asks for a variant the item does
    not hold (handle_vary_missing), then clients that are not listed ask for the same variant, for the old one, with and without
    queries, HEAD, conditional; later versions (list edited, public again, guarded again) follow"""
    cases = []
    for i in range(n):
        rel = rng.choice([b"page.html", b"t/doc.txt", b"news", b"q.md", b"d/w.css", b"idx/index.html"])
        path = b"/" + rel
        if rel == b"idx/index.html" and rng.random() < 0.5:
            path_req, de = b"/idx/", True           # default Prime 'Expand . and /'
        else:
            path_req, de = path, None
        sp = path_req if rng.random() < 0.6 else encode(path_req, rng.choice(dot_masks(path_req) + [rng.getrandbits(len(path_req) - 1)]), rng)
        hv = b"x-v"
        xf = rng.choice([0, 0, 1])
        vals = [b"a", b"b", b"z", b"M"] if xf == 0 else [b"a", b"z", b"b", b"y"]      # transformed: distinct for xf 0; lo/hi/lo/hi for xf 1
        # (the rules are those of the path after the rewriting Prime extensions)
        rule_path = b"/idx/index.html" if de and sp == b"/idx/" else sp
        vary = [pipe.vary_rule(rule_path, [(hv, xf, b"-")])] if rng.random() < 0.9 else None
        start = rng.choice(["public", "public", "absent", "public-line", "hidden", "other-list"])
        files = [xl(xb(b"public/other.txt"), xb(content(None, b"other.txt", rng, False)))]
        if start == "public":
            files.append(xl(xb(b"public/" + rel), xb(content(None, rel, rng, False))))
        elif start == "public-line":
            files.append(xl(xb(b"public/" + rel), xb(content(rng.choice(PLAIN_LINES[1:5]), rel, rng, False))))
        elif start == "hidden":
            files.append(xl(xb(b"public/" + rel), xb(content(rng.choice(HIDE_LINES), rel, rng, True))))
        elif start == "other-list":
            files.append(xl(xb(b"public/" + rel), xb(content(b"!> allow-ips 10.0.0.3", rel, rng, True))))
        if rng.random() < 0.25:
            files.append(xl(xb(b"errors/404.html"), xb(rng.choice(ERR404[3:7])[0])))
        q = rng.choice([b"", b"", b"", b"?x=1"])
        strangers = lambda: rng.choice(ADDRS[2:]) if rng.random() < 0.6 else rng.choice(STRANGERS)
        ops = []
        # the item enters the cache in the first world
        first = rng.sample(vals, rng.randrange(1, 3))
        for v in first:
            ops.append(greq(sp + q, addr=strangers(), headers=[(hv, v)], method=rng.choice([b"GET", b"GET", b"HEAD"])))
        if rng.random() < 0.3:
            ops.append(greq(sp + q, addr=1, headers=[]))
        rounds = rng.randrange(1, 4)
        for rd in range(rounds):
            kind_ = rng.choice(["allow", "allow", "allow", "allow6", "hide", "public"]) if rd else rng.choice(["allow", "allow", "allow", "allow6"])
            listed = 1
            if kind_ == "allow":
                line = rng.choice(ALLOW_LINES[:14])
            elif kind_ == "allow6":
                line, who = rng.choice(V6_LINES[:12])
                listed = who
            elif kind_ == "hide":
                line = rng.choice(HIDE_LINES)
            else:
                line = rng.choice(PLAIN_LINES[:5])
            ops.append(gwrite(rel, content(line, rel, rng, kind_ != "public", crlf=rng.random() < 0.1)))
            if rng.random() < 0.1:
                ops.append(pipe.clear_page(sp + q))
            fresh = [v for v in vals if v not in first] or vals
            vb = rng.choice(fresh)
            who1 = rng.choice(SAME_AS_1) if listed == 1 else listed
            # a listed client asks for a variant the cached item lacks, then strangers ask for it
            ops.append(greq(sp + q, addr=who1, headers=[(hv, vb)], method=rng.choice([b"GET", b"GET", b"GET", b"HEAD"])))
            for _ in range(rng.randrange(1, 4)):
                h = [(hv, rng.choice([vb, vb, vb, rng.choice(vals)]))]
                if rng.random() < 0.2:
                    h = h + fwd(rng)
                if rng.random() < 0.15:
                    h = h + rng.choice([[(b"if-modified-since", b"@T+100")], [(b"accept-encoding", b"gzip")], [(b"range", b"bytes=0-20")]])
                ops.append(greq(sp + rng.choice([q, q, q, b"", b"?x=1"]), addr=strangers(), headers=h, method=rng.choice([b"GET", b"GET", b"GET", b"HEAD"])))
            if rng.random() < 0.6:
                ops.append(greq(sp + q, addr=who1, headers=[(hv, vb)]))
                ops.append(greq(sp + q, addr=strangers(), headers=[(hv, vb)]))
            if rng.random() < 0.3:
                # without the vary header (the default variant), and the unencoded / another spelling of the path
                ops.append(greq(sp + q, addr=who1, headers=[]))
                ops.append(greq(sp + q, addr=strangers(), headers=[]))
                ops.append(greq(path_req + q, addr=strangers(), headers=[(hv, vb)]))
            first = first + [vb]
        cases += mk(rng, files, ops, "transition/" + start, vary=vary, both=(i % 4 == 0), cache=True, default_ext=de)
    return cases


# line lengths (offset of the line feed). The Gallina parser transcribes the Rust loop with its slices (quadratic in the length of the
# line), so the differential histories stop at 1025 bytes (4097 in the thorough tier); longer lines go through the wire component,
# where the marker oracle and the refused-vs-absent comparison need no model
LINE_EDGES = [255, 256, 257, 511, 512, 513, 1023, 1024, 1025]
LINE_EDGES_4K = [4095, 4096, 4097]
LINE_EDGES_BIG = [16383, 16384, 65535, 65536, 65537]


def _fit(line, target, rng):
    """extends a '!> ' line to exactly `target` bytes (the offset of its line feed), if it is shorter, by means that do not change its
    meaning: more spaces between words, a long argument of a directive that is not mounted, or one more directive without effect"""
    need = target - len(line)
    if need <= 0:
        return line
    how = rng.choice(["spaces", "unknown", "cache"]) if need >= 20 else "spaces"
    if how == "spaces":
        return line + b" " * need
    if how == "unknown":
        return line + b" &> unknown-ext " + b"x" * (need - len(b" &> unknown-ext "))
    return line + b" &> cache client:" + b"0" * (need - len(b" &> cache client:") - 3) + b"60s"


def long_line(rng, edges, kmax=100, near=True):
    """a guarded file with a long '!> ' line: (rel, line, crlf, listed client, other members of the list, shape)"""
    shape = rng.choice(["v4-list", "v4-list", "v6-list", "mixed-list", "many-directives", "long-arg", "hide-last", "allow-last", "two-lists"])
    k = min(kmax, rng.choice([1, 5, 20, 30, 42, 43, 44, 50, 60, 80, 100, rng.randrange(1, 101)]))
    v4 = [b"10.20.%d.%d" % (rng.randrange(256), rng.randrange(1, 255)) for _ in range(k)]
    v6 = [(b"2001:db8:%x:%x::%x" % (rng.randrange(65536), rng.randrange(65536), rng.randrange(1, 65536))) for _ in range(k)]
    listed = 1
    me = b"10.0.0.1"
    if shape in ("v6-list",):
        pool, me, listed = v6, b"2001:db8::1", V6("2001:db8::1")
    elif shape == "mixed-list":
        pool = [rng.choice(pair) for pair in zip(v4, v6)]
    else:
        pool = v4
    pos = rng.choice([0, len(pool) // 2, len(pool)])
    include = rng.random() < 0.8
    args = pool[:pos] + ([me] if include else []) + pool[pos:]
    allow = b"allow-ips " + b" ".join(args)
    if shape == "many-directives":
        pre = b" &> ".join(rng.choice([b"cache server:full", b"cache client:60s", b"unknown-ext a b c", b"download", b"cache server:full client:full"])
                           for _ in range(rng.randrange(5, 40)))
        line = b"!> " + (pre + b" &> " + allow if rng.random() < 0.5 else allow + b" &> " + pre)
    elif shape == "long-arg":
        line = b"!> unknown-ext " + b"y" * rng.choice([300, 509, 600]) + b" &> " + allow + b" &> cache server:full"
    elif shape == "hide-last":
        line = b"!> " + allow + b" &> cache server:full &> hide"
    elif shape == "allow-last":
        line = b"!> cache server:full &> unknown-ext " + b" ".join(v4[:rng.randrange(1, 40)]) + b" &> " + allow
    elif shape == "two-lists":
        line = b"!> " + allow + b" &> cache server:full &> allow-ips " + b" ".join([me] + v4[:rng.randrange(1, 30)])
    else:
        line = b"!> " + allow + rng.choice([b"", b"", b" &> cache server:full"])
    bigger = [e for e in edges if e >= len(line)]
    if bigger and (len(edges) == 1 or rng.random() < 0.8):
        tgt_len = rng.choice(bigger[:4] if near else bigger)
        if shape in ("hide-last", "allow-last", "two-lists"):
            # what decides stands at the END of the line: fit in front of it
            head, sep, tail = line.rpartition(b" &> ")
            line = _fit(head, tgt_len - len(sep) - len(tail), rng) + sep + tail
        else:
            line = _fit(line, tgt_len - (1 if rng.random() < 0.1 else 0), rng)
    rel = rng.choice([b"long.txt", b"l/list.html", b"ll"])
    return rel, line, rng.random() < 0.1, listed, (pool if shape in ("v4-list", "mixed-list", "v6-list") else []), shape


def long_line_cases(rng, n, tier):
    """LONG '!> ' lines (theorems guard_line_any_length / long_allow_list_decides: the line has no length limit): allow lists of 1..100
    addresses (IPv4, IPv6, mixed; the listed client first, in the middle or last), many directives, long arguments, lines fitted to
    255..257, 511..513, 1023..1025 bytes (4095..4097 in the thorough tier; longer ones: long_line_wire_cases); a 'hide' or the allow list
    itself may stand at the very end of the line, behind everything else"""
    cases = []
    for i in range(n):
        edges = LINE_EDGES + (LINE_EDGES_4K if tier != "quick" and i % 14 == 0 else [])
        rel, line, crlf, listed, pool, shape = long_line(rng, edges, kmax=60 if tier == "quick" or i % 8 else 100)
        data = content(line, rel, rng, True, crlf=crlf)
        if i % 7 == 3:
            # a BIG guarded file (the marker stands right after the line and once more at the very end)
            data += b" filler" * (rng.choice([5000, 9000, 20000]) // 7) + b" " + data[data.index(b"SECRET:"):data.index(b";") + 1]
        files = [xl(xb(b"public/" + rel), xb(data))]
        tgt = (b"/" + rel, "long", rel, listed, line)
        sps = [(b"/" + rel, tgt)] + ([(encode(b"/" + rel, rng.getrandbits(len(rel)), rng), tgt)] if rng.random() < 0.5 else [])
        twins = []
        ops = history(rng, sps, extra_addrs=2, twins=twins)
        # clients that ARE on the list but not the first one of it
        if pool:
            other = rng.choice(pool)
            ops.append(greq(b"/" + rel, addr=(V6 if b":" in other else V4)(other.decode())))
            ops.append(greq(b"/" + rel, addr=rng.choice(STRANGERS)))
        cases += mk(rng, files, ops, ("big-file/" if i % 7 == 3 else "long-line/") + shape, both=(i % 3 == 0), twins=[(a, b_, "a" if k_ == "a" else "h") for a, b_, k_ in twins])
    return cases


def long_line_wire_cases(rng, n):
    """the same files with lines of up to 65537 bytes, over the wire: the harness judges marker leaks and compares the refused answer
    with the answer for a path that does not exist (no model run is needed for that)"""
    cases = []
    for i in range(n):
        edges = [65536 + (i // 6) % 2] if i % 6 == 0 else (LINE_EDGES_4K + LINE_EDGES_BIG) if i % 2 == 0 else (LINE_EDGES[3:] + LINE_EDGES_4K)
        rel, line, crlf, listed, pool, shape = long_line(rng, edges, near=False)
        data = content(line, rel, rng, True, crlf=crlf)
        if i % 4 == 1:
            # a BIG guarded file (the marker stands right after the line and once more at the very end)
            data += b" filler" * (rng.choice([70000, 300000]) // 7) + b" " + data[data.index(b"SECRET:"):data.index(b";") + 1]
        files = [xl(xb(b"public/" + rel), xb(data))]
        hidden, allow = _py_guard(rel, line + b"\n")
        ops = []
        who = [rng.choice(SAME_AS_1) if listed == 1 else listed] + [rng.choice(ADDRS[2:] + STRANGERS) for _ in range(3)]
        if pool:
            other = rng.choice(pool)
            who.append((V6 if b":" in other else V4)(other.decode()))
        who.append(who[0])
        for a in who:
            m = rng.choice([b"GET", b"GET", b"GET", b"HEAD"])
            h = rng.choice([[], [], [(b"range", b"bytes=0-40")], [(b"accept-encoding", b"gzip")], [(b"range", b"bytes=-30")]])
            sp = b"/" + rel if rng.random() < 0.6 else encode(b"/" + rel, rng.getrandbits(len(rel)), rng)
            ok = (not hidden) and allow is not None and py_ip(xaddr(a)) in allow
            if ok:
                ops.append(wreq(sp, m, a, h, rel, 0))
            else:
                ops.append(wreq(b"/zz-none-%d.txt" % len(ops), m, a, h, b"", 0))
                # (cache-control of the refused answer is allow-ips' own; status and body must be those of the missing page)
                ops.append(wreq(sp, m, a, h, b"", 0))
        cases.append(Case("guards.wire", pipe.scenario(pipe.cfg(cache=rng.random() < 0.8, fcache=rng.random() < 0.7, files=files, default_ext=False), ops),
                          "guards.wire", {"kind": "wire/%s/%dk" % ("big-file" if i % 4 == 1 else "long-line", len(line) // 1000)}))
    return cases


def transition_wire_cases(rng, n):
    """files that change, over the wire (what SendKind::send wrote of a variant added to an item of an earlier world: Range, HEAD)"""
    cases = []
    for i in range(n):
        rel = rng.choice([b"page.html", b"t/doc.txt", b"news"])
        sp = b"/" + rel
        vary = [pipe.vary_rule(sp, [(b"x-v", 0, b"-")])]
        files = [xl(xb(b"public/other.txt"), xb(content(None, b"other.txt", rng, False)))]
        if rng.random() < 0.6:
            files.append(xl(xb(b"public/" + rel), xb(content(rng.choice(PLAIN_LINES[:5]), rel, rng, False))))
        hs = lambda v: [(b"x-v", v)] + rng.choice([[], [], [(b"range", b"bytes=0-40")], [(b"accept-encoding", b"gzip")], [(b"range", b"bytes=-30")]])
        meth = lambda: rng.choice([b"GET", b"GET", b"GET", b"HEAD"])
        stranger = lambda: rng.choice(ADDRS[2:] + STRANGERS)
        ops = [wreq(sp, meth(), stranger(), hs(b"a"), b"", 0)]
        vals = [b"b", b"c", b"d"]
        for rd in range(rng.randrange(1, 3)):
            line = rng.choice(ALLOW_LINES[:14] + HIDE_LINES[:2]) if rd else rng.choice(ALLOW_LINES[:14])
            hidden, allow = _py_guard(rel, line + b"\n")
            ops.append(gwrite(rel, content(line, rel, rng, True)))
            v = vals[rd]
            for a in [rng.choice(SAME_AS_1), stranger(), stranger(), rng.choice(SAME_AS_1), stranger()]:
                ok = (not hidden) and allow is not None and py_ip(xaddr(a)) in allow
                ops.append(wreq(sp, meth(), a, hs(rng.choice([v, v, v, b"a"])), rel if ok else b"", 0))
        cases.append(Case("guards.wire", pipe.scenario(pipe.cfg(cache=True, fcache=rng.random() < 0.7, files=files, vary=vary, default_ext=False), ops),
                          "guards.wire", {"kind": "wire/transition"}))
    return cases


def generate(rng, tier):
    cases = witnesses(rng) + known_tmpl(rng)
    n = 150 if tier == "quick" else 2400
    for i in range(n):
        files, targets, plain_err = fixture(rng)
        guarded_t = [t for t in targets if t[1] != "plain"]
        # the file cache holds something else than the disk for some files (stale or negative entries): what counts is what the
        # server HOLDS (theorem file_cache_transparent); such files get no refused-vs-absent twins (their line is not the disk's)
        seed = []
        if rng.random() < 0.15:
            for t in rng.sample(targets, min(len(targets), rng.randrange(1, 4))):
                rel = t[2]
                kind_ = rng.choice(["older-guarded", "negative", "older-public"])
                if kind_ == "older-guarded":
                    seed.append((b"public/" + rel, content(rng.choice([b"!> hide", b"!> allow-ips 10.0.0.3", None if is_private_name(rel) else b"!> hide &> cache server:full"]),
                                                           rel, rng, True)))
                elif kind_ == "negative":
                    seed.append((b"public/" + rel, None))
                else:
                    seed.append((b"public/" + rel, content(None, rel, rng, is_private_name(rel))))
            if rng.random() < 0.4:
                seed.append((b"errors/404.html", rng.choice([None, b"<html>PUBLIC:404 as the file cache holds it</html>"])))
                if seed[-1][1] is None:
                    seed.append((b"errors/404.html", b"<html>PUBLIC:404 inserted last</html>"))
        seeded = {p_[len(b"public/"):] for p_, _ in seed if p_.startswith(b"public/")}
        spellings = []
        for _ in range(rng.randrange(2, 5)):
            t = rng.choice(guarded_t if rng.random() < 0.85 else targets)
            if seed and rng.random() < 0.5:
                t = rng.choice([x for x in targets if x[2] in seeded] or [t])
            path = t[0]
            if t[2] in seeded:
                t = None
            r = rng.random()
            if r < 0.2:
                spellings.append((path, t))
            elif r < 0.5:
                spellings.append((encode(path, rng.choice(dot_masks(path)), rng), t))
            elif r < 0.8:
                spellings.append((encode(path, rng.getrandbits(len(path) - 1), rng), t))
            else:
                spellings.append((structural(path, rng), None))
        vary = None
        if rng.random() < 0.35:
            vary = [pipe.vary_rule(sp, [(b"x-v", rng.choice([0, 1]), b"-")]) for sp in sorted({s for s, _ in spellings})
                    if rng.random() < 0.7 and b"?" not in sp and b"#" not in sp]
        twins = []
        ops = history(rng, spellings, twins=twins if not any(p_ == b"errors/404.html" for p_, _ in seed) else None)
        cases += mk(rng, files, ops, "random" + ("/fcache-seed" if seed else ""), vary=vary, both=(i % 3 == 0), twins=twins, plain_err=plain_err, seed=seed,
                    fcache=True if seed and rng.random() < 0.8 else None)
    # exhaustive subsets of positions: all 2^k subsets of the last k = min(len, cap) characters of the path
    # (for *.private that is at least the whole ".private" suffix), kinds in rotation
    nex = 3 if tier == "quick" else 36
    cap = 8 if tier == "quick" else 9
    for i in range(nex):
        files, targets, plain_err = fixture(rng, rich=False)
        want = ("private", "allow", "hide")[i % 3]
        t = rng.choice([t for t in targets if t[1] == want])
        path, kind = t[0], t[1]
        ln = len(path) - 1
        k = min(ln, cap if want == "private" else 8)
        ops = []
        for sub in range(1 << k):
            sp = encode(path, sub << (ln - k), rng)
            ops.append(greq(sp, addr=1))
            ops.append(greq(sp, addr=rng.choice([2, 3, 11, 256]), method=rng.choice([b"GET", b"GET", b"HEAD"]), headers=rng.choice(HDR_SETS[:8])))
        cases += mk(rng, files, ops, "exhaustive-spellings/" + kind, both=False, cache=True)
    # malformed stream: token soup on the guard line
    toks = [b"allow-ips", b"hide", b"cache", b"&>", b"10.0.0.1", b"10.0.0.2", b"server:full", b"server:none", b"client:full", b"download", b"x", b"",
            b"server:", b":full", b"server:full:none", b"client:0s", b"server:0s", b"server:5s", b"!>", b"&>hide", b"allow-ips10.0.0.1", b"::1", b"::ffff:10.0.0.1",
            b"unknown-ext"]
    nm = 40 if tier == "quick" else 700
    for i in range(nm):
        line = b"!> " + b" ".join(rng.choice(toks) for _ in range(rng.randrange(1, 8)))
        if rng.random() < 0.1:
            line = line.replace(b" ", b"  ", 1)
        rel = rng.choice([b"m.txt", b"m.private" if rng.random() < 0.3 else b"m"])
        hidden, allow = _py_guard(rel, line + b"\n")
        files = [xl(xb(b"public/" + rel), xb(content(line, rel, rng, hidden or allow is not None, crlf=rng.random() < 0.1)))]
        tgt = (b"/" + rel, "soup", rel, 1, line)
        sp = [(b"/" + rel, tgt), (encode(b"/" + rel, rng.getrandbits(len(rel)), rng), tgt)]
        twins = []
        ops = history(rng, sp, extra_addrs=2, twins=twins)
        cases += mk(rng, files, ops, "malformed-line", both=False, twins=[(a, b, "a" if k == "a" else "h") for a, b, k in twins])
    cases += transition_cases(rng, 40 if tier == "quick" else 360)
    cases += long_line_cases(rng, 36 if tier == "quick" else 280, tier)
    cases += wire_cases(rng, 36 if tier == "quick" else 500)
    cases += long_line_wire_cases(rng, 12 if tier == "quick" else 60)
    cases += transition_wire_cases(rng, 8 if tier == "quick" else 48)
    cases += push_cases(rng, 6 if tier == "quick" else 60)
    cases += expiry_cases(rng, 2 if tier == "quick" else 8)
    return cases


# ----------------------------------------------------------------------------------
# oracles
# ----------------------------------------------------------------------------------
MARK = re.compile(rb"SECRET:([^:;]*):")


def _scenario(c):
    """(what the server holds: path -> content, operations, twins)"""
    cfg, ops = c.x[1]
    files = {}
    twins = []
    seed = []
    fcache = True
    for e in cfg[1]:
        if e[1][0][1] == b"files":
            for f in e[1][1][1]:
                files[f[1][0][1]] = f[1][1][1]
        if e[1][0][1] == b"twins":
            twins = [(t[1][0][1], t[1][1][1], t[1][2][1]) for t in e[1][1][1]]
        if e[1][0][1] == b"fcache_seed":
            seed = [(t[1][0][1], t[1][1][1][0][1] if t[1][1][1] else None) for t in e[1][1][1]]
        if e[1][0][1] == b"fcache":
            fcache = e[1][1][1] == 1
    if fcache:
        # an entry of the file cache (also a stale or a negative one) is what the server holds for the path
        for p_, c_ in seed:
            if c_ is None:
                files.pop(p_, None)
            else:
                files[p_] = c_
    return files, ops[1], twins


def _views(c):
    """what the server holds (path -> content) at every operation of the history: the files of the scenario, changed by the write
    operations (L (N 4) rel content); an entry of the file cache (also a stale or a negative one) hides the disk"""
    cfg, ops = c.x[1]
    disk, seed, fcache = {}, [], True
    for e in cfg[1]:
        if e[1][0][1] == b"files":
            for f in e[1][1][1]:
                disk[f[1][0][1]] = f[1][1][1]
        if e[1][0][1] == b"fcache_seed":
            seed = [(t[1][0][1], t[1][1][1][0][1] if t[1][1][1] else None) for t in e[1][1][1]]
        if e[1][0][1] == b"fcache":
            fcache = e[1][1][1] == 1

    def view():
        v = dict(disk)
        if fcache:
            for p_, c_ in seed:
                if c_ is None:
                    v.pop(p_, None)
                else:
                    v[p_] = c_
        return v

    out, cur = [], view()
    for o in ops[1]:
        if o[1][0][1] == 4:
            disk[b"public/" + o[1][1][1]] = o[1][2][1]
            cur = view()
        out.append(cur)
    return out


def _markers(reply):
    """file names whose SECRET marker occurs in the decoded body or the identity body of a reply"""
    out = set()
    if reply[0] == "L" and len(reply[1]) == 6:
        for idx in (2, 4):
            for m in MARK.finditer(reply[1][idx][1]):
                out.add(m.group(1))
    return out


def spec_ok(c, impl, spec):
    """Gallina spec: a marker of file F in reply i => spec says request i is permitted and its decoded path is F."""
    if c.comp in ("guards.wire", "guards.push"):
        return impl == spec
    try:
        a, s = xparse(impl)[1], xparse(spec)[1]
    except Exception:
        return False
    if len(a) != len(s):
        return False
    for x, y in zip(a, s):
        for name in _markers(x):
            if y[0] != "L" or len(y[1]) != 2 or y[1][0][1] != 1:
                return False
            # the decoded path resolves to the file: compare after removing empty / '.' components
            segs = [p for p in y[1][1][1].split(b"/") if p not in (b"", b".")]
            if b"/".join(segs) != name:
                return False
    return True


def _canon_reply_headers(text):
    """what the correspondence compares of the headers: the property fixes neither the text of cache-control (only that the header is there
    or not is compared) nor whether a 404 goes through the cache (last-modified presence is compared on the other statuses); the
    refused-vs-absent twins (real against real) compare the exact headers."""
    try:
        v = xparse(text)
    except Exception:
        return text
    if v[0] != "L":
        return text
    out = []
    for rp in v[1]:
        if rp[0] == "L" and len(rp[1]) == 6 and rp[1][1][0] == "L":
            status = rp[1][0][1]
            hs = []
            for h in rp[1][1][1]:
                name = h[1][0][1]
                if name == b"cache-control":
                    hs.append(xl(xb(name), xb(b"")))
                elif name == b"last-modified":
                    if status != 404:
                        hs.append(h)
                else:
                    hs.append(h)
            rp = xl(rp[1][0], xlist(hs), *rp[1][2:])
        out.append(rp)
    return xtext(xlist(out))


def compare(c, i, m):
    if c.comp in ("guards.wire", "guards.push") or i == m:
        return i == m
    return _canon_reply_headers(i) == _canon_reply_headers(m)


def _py_guard(rel, data):
    """independent reading of the property text: (hidden?, allowed address set or None)"""
    base = rel.rsplit(b"/", 1)[-1]
    private = base.endswith(b".private") and len(base) > len(b".private")
    hide = False
    allow = None
    nl = data.find(b"\n")
    # (kvarn's line grammar, Properties/C16.v present_line_grammar: a first line that starts "!>  &> " is no extension line)
    if data.startswith(b"!> ") and nl >= 0 and not data.startswith(b"!>  &> "):
        line = data[3:nl].rstrip(b"\r")
        groups, cur = [], []
        for w in line.split(b" "):
            if w == b"":
                continue
            if w == b"&>":
                groups.append(cur)
                cur = []
            else:
                cur.append(w)
        groups.append(cur)
        for g in groups:
            if not g:
                continue
            if g[0] == b"hide":
                hide = True
            if g[0] == b"allow-ips":
                s = set()
                for a in g[1:]:
                    try:
                        s.add(ipaddress.ip_address(a.decode("ascii")))
                    except Exception:
                        pass
                allow = s if allow is None else (allow & s)
    return private or hide, allow


def extra_oracle(c, impl):
    """model-independent: (1) no SECRET marker in any reply unless the file is allow-ips (not hidden/private) and the client's address (an
    IPv4 address equals no IPv6 address) is on every list; (2) the reply to a refused request equals the reply to the same request
    for a path that does not exist: status, decoded body, identity body (and cache-control / last-modified presence where nothing but
    hide / *.private marks the file and the error pages carry no line of their own)"""
    if c.comp in ("guards.wire", "guards.push"):
        return None if impl == "(L)" else "on the wire: " + kv.pretty(xparse(impl), 700)
    try:
        files, ops, twins = _scenario(c)
        views = _views(c)
        replies = xparse(impl)[1]
    except Exception:
        return None
    if len(replies) != len(ops):
        return None
    for i, (o, rp) in enumerate(zip(ops, replies)):
        if o[1][0][1] != 0:
            continue
        ip = py_ip(o[1][1])
        for name in _markers(rp):
            # (the file as the server holds it at the moment of this request)
            data = views[i].get(b"public/" + name)
            if data is None:
                return "reply %d carries a marker of an unknown file %r" % (i, name)
            hidden, allow = _py_guard(name, data)
            if hidden:
                return "reply %d (address %s, target %r) carries the content of the hidden/private file %r" % (i, ip, o[1][3][1], name)
            if allow is not None and ip not in allow:
                return "reply %d (address %s, target %r) carries the content of %r whose allow-ips list is %s" % (
                    i, ip, o[1][3][1], name, sorted(map(str, allow)))
    for i, j, level in twins:
        if i >= len(replies) or j >= len(replies):
            continue
        a, b = replies[i], replies[j]
        status_only, strict = level == 2, level == 1
        if a[0] != "L" or b[0] != "L" or len(a[1]) != 6 or len(b[1]) != 6:
            continue
        what = None
        if a[1][0] != b[1][0]:
            what = "status %s vs %s" % (a[1][0][1], b[1][0][1])
        elif status_only:
            pass
        elif a[1][2] != b[1][2] or a[1][3] != b[1][3]:
            what = "body %r vs %r" % (a[1][2][1][:60], b[1][2][1][:60])
        elif a[1][4] != b[1][4]:
            what = "identity body %r vs %r" % (a[1][4][1][:60], b[1][4][1][:60])
        elif strict and a[1][1] != b[1][1]:
            what = "headers %s vs %s" % (kv.pretty(a[1][1], 200), kv.pretty(b[1][1], 200))
        if what:
            return ("reply %d (target %r, a file that is refused) differs from reply %d (target %r, a path that does not exist) for the same client: %s"
                    % (i, ops[i][1][3][1], j, ops[j][1][3][1], what))
    return None


def classify(c, impl):
    """KNOWN class: a public page whose '!> tmpl' argument names a guarded file (see known-findings.txt)"""
    try:
        files, ops, _ = _scenario(c)
    except Exception:
        return None
    for name, data in files.items():
        if data.startswith(b"!> tmpl ../public/") and name.startswith(b"public/"):
            return "tmpl-names-guarded-file"
    # KNOWN class: errors/404.html is a '!> tmpl' template and the refused file's line has an allow-ips directive (its 404 is not rendered)
    why = c.meta.get("why", "")
    if files.get(b"errors/404.html", b"").startswith(b"!> tmpl ") and "a file that is refused" in why and "$[" in why:
        return "allow-ips-404-template-unrendered"
    return None


def signature(c, m):
    if c.comp in ("guards.wire", "guards.push"):
        return None
    try:
        rs = xparse(m)[1]
    except Exception:
        return None
    got = False
    for x in rs:
        if x[0] == "L" and len(x[1]) == 6:
            if _markers(x):
                got = True
            elif got and x[1][0][1] == 404:
                return "served-then-refused"
    return None


def directed(rng, mismatches):
    cases = witnesses(rng)
    for i in range(60):
        files, targets, plain_err = fixture(rng)
        guarded_t = [t for t in targets if t[1] != "plain"]
        sps = []
        for t in guarded_t:
            sps.append((t[0], t))
            sps.append((encode(t[0], rng.choice(dot_masks(t[0])), rng), t))
        twins = []
        ops = history(rng, sps, extra_addrs=2, methods=False, twins=twins)
        cases += mk(rng, files, ops, "directed", both=False, cache=True, fcache=True, twins=twins, plain_err=plain_err)
    cases += transition_cases(rng, 40) + long_line_cases(rng, 30, "quick")
    return cases


def extra_coverage(cases, impl, model, spec):
    nreq = served = refused = spellings = v6 = twins_n = wire = wire_req = writes = after_write = longest = long_files = 0
    seen = set()
    for c in cases:
        i = impl.get(c.id)
        if i is None:
            continue
        for f_ in (e[1][1][1] for e in c.x[1][0][1] if e[1][0][1] == b"files"):
            for f in f_:
                d_ = f[1][1][1]
                if d_.startswith(b"!> ") and b"\n" in d_:
                    longest = max(longest, d_.index(b"\n"))
                    long_files += d_.index(b"\n") >= 512
        if c.comp in ("guards.wire", "guards.push"):
            wire += 1
            wire_req += sum(1 for o in c.x[1][1][1] if o[1][0][1] == 0)
            continue
        try:
            _, ops, tw = _scenario(c)
            w_seen = False
            for o in ops:
                if o[1][0][1] == 4:
                    writes += 1
                    w_seen = True
                elif o[1][0][1] == 0 and w_seen:
                    after_write += 1
            rs = xparse(i)[1]
        except Exception:
            continue
        twins_n += len(tw)
        for o, rp in zip(ops, rs):
            if o[1][0][1] != 0 or rp[0] != "L" or len(rp[1]) != 6:
                continue
            nreq += 1
            if o[1][1][0] == "L" and o[1][1][1][0][1] == 6:
                v6 += 1
            t = o[1][3][1]
            if b"%" in t and t not in seen:
                seen.add(t)
                spellings += 1
            if _markers(rp):
                served += 1
            elif rp[1][0][1] == 404:
                refused += 1
    return {"requests": nreq, "requests_from_ipv6_clients": v6, "distinct_percent_encoded_targets": spellings,
            "replies_with_guarded_content_to_listed_address": served, "replies_404": refused,
            "refused_vs_absent_pairs_compared": twins_n, "wire_histories": wire, "wire_requests": wire_req,
            "file_rewrites_during_histories": writes, "requests_after_a_rewrite": after_write,
            "guarded_files_with_line_of_512_bytes_or_more": long_files, "longest_guard_line_bytes": longest}


def describe(c):
    files, ops, _ = _scenario(c)
    return {"component": c.comp, "kind": c.meta.get("kind"),
            "files": {k.decode("latin1"): v.split(b"\n")[0].decode("latin1")[:70] for k, v in files.items()},
            "ops": [kv.pretty(o, 100) for o in ops][:10]}
