"""C17 — access-guarding file directives hold whatever the cache contains."""
import ipaddress
import json
import os
import re

from kv import Case, xn, xb, xl, xlist, xbool, xparse, xtext
import kv
import pipe

ID = "C17"
MODULE = "C17"
IMPORTS = "PathSan PresentLine CacheX Guards GuardsProofs"
PROFILES = ("dev",)
PER_SHARD = 12
KERNEL_SAMPLE = 12
_PINS = json.load(open(os.path.join(os.path.dirname(os.path.abspath(__file__)), "pins", "C17.json")))
# every statement is pinned (driver/props/pins/C17.json, written by tools/mkpins.py after a REVIEWED change): the audit
# compiles `Check (name : pinned statement)` for each, so weakening Properties/C17.v is reported
_NAMES = ("guarded_content_confined", "reply_ok_meaning", "range_of_clean_body_clean", "spelling_decodes",
          "ext_lookup_spelling_independent", "allow_ips_never_stored", "guarded_answer_is_404",
          "private_spelling_v0_refuted", "cache_directive_v0_refuted", "violates_contradicts_confined")
THEOREMS = [(n, _PINS[n]) for n in _NAMES]
RULE = ("histories of requests against the real kvarn::handle_cache in process (host = Extensions::empty() or, for a third of the scenarios, "
        "Extensions::new() [default Prime 'Expand . and /': /e/ -> /e/index.html, /r. -> /r.html], + kvarn_extensions::mount_all, "
        "fixture files written to a fresh directory, chosen client address per request) vs. the extracted Coq model (correspondence: status, "
        "cache-control, last-modified presence, decoded body, identity body per request). Fixture files carry a marker SECRET:<file>:<nonce> "
        "after their first line; files: *.private (also in a sub-directory), '!> hide', '!> allow-ips <list>' with and without '&> cache ...' "
        "before/after it, two allow-ips directives, allow-ips + hide, CRLF line ends, near-miss address texts (10.0.0.11 vs 10.0.0.1, leading "
        "zeros, /32, ::ffff:10.0.0.1, 3 or 5 groups), unguarded controls (x.PRIVATE, .private, plain). Histories: listed address first, then "
        "other addresses, per spelling; spellings = percent-encoding of a subset of the characters of the path (exhaustive scenarios: all 2^k "
        "subsets of the last k = min(n, 8..9) characters - at least the whole '.private' suffix - for one private, one allow-ips and one hide file in "
        "rotation; either hex case), plus structural variants (trailing '/', '/.', '//', '%00', '%ff', encoded '/'); GET/HEAD/POST, "
        "Range (satisfiable, unsatisfiable), Accept-Encoding, queries, vary rules on the raw path (variant push), response cache and file cache "
        "on/off. Oracles: (1) spec component guards.spec (Gallina [permitted_b]): a SECRET marker in a body => permitted for exactly that file; "
        "(2) model-independent Python oracle with its own line/address parser (ipaddress module). "
        "distinct_nontrivial = distinct (scenario, outcome) pairs in which a listed address received guarded content and a later request was refused")
ASSUMPTIONS = [
    "the file system does not change during a history and has no links that give a guarded file a second name (fs is a function of the path text; "
    "the fixture tree uses PathSan's resolution: ENOTDIR, empty and '.' components, '..')",
    "error pages are the hard-coded ones: they carry no '!> ' line and no secret (theorem hypotheses errpage_plain / errpage_clean); a host whose "
    "errors/404.html is a '!> tmpl' template is not modelled",
    "Present extensions other than allow-ips, hide, cache, download (tmpl, nonce, user-supplied ones) are not on the modelled host",
    "client addresses are IPv4 (10.0.x.y); an allow-ips argument that only parses as IPv6 never equals them",
    "content negotiation is abstracted: bodies are compared after decoding content-encoding with standard decoders; a 406 carries the error page",
    "sequential histories; moka as a finite map (C03's assumptions); Range is applied after handle_cache (C09) to a body this property already covers",
    "a file named exactly '.private' (empty stem) is not '*.private' for Path::extension and is served",
]
TRUSTED = ["modelled: extensions/src/lib.rs ip_allow, hide (no template), cache, download, mount_all; src/extensions.rs resolve_present; src/lib.rs "
           "get_response/handle_request file path + handle_cache (Model/Cache.v); std Path::extension, IpAddr::from_str (IPv4 part), "
           "ClientCachePreference/ServerCachePreference::from_str; Model/PresentLine.v (C16) for the '!> ' line; Model/PathSan.v (C01) for decoding/sanitize"]
LEVEL_TEXT = ("Coq theorem guarded_content_confined over the model of the repaired code (file-serving path + Present directives + response "
              "cache): for every file system in which a secret byte string occurs only inside guarded files, every history of requests / clears / "
              "waits from the empty cache (any raw percent-encoded paths, queries, methods, headers, client addresses, in any order), response cache "
              "on or off, any negotiation outcome and vary rules, a reply (body sent or identity body) contains the secret only if the request's "
              "decoded path is a file whose line has allow-ips and no hide, that is not *.private, and whose every allow-ips directive lists the "
              "request's own client address (reply_ok_meaning). Proof: per-request decision of the layer below the cache + inductive cache invariant "
              "(no stored variant contains the secret; no key belongs to a raw path that can produce it - needed because a variant push stores "
              "without consulting the server preference) using allow_ips_never_stored (allow-ips forces preference None whatever cache directives "
              "surround it). spelling_decodes / ext_lookup_spelling_independent: every subset-of-positions, either-hex-case encoding denotes the same "
              "file and the same extension lookup. The statement is refuted for the code before the two fix: commits (private_spelling_v0_refuted, "
              "cache_directive_v0_refuted; both reproduced on the real code first). Tied to the repaired /repo by the differential run with a "
              "secret-marker oracle that does not depend on the model.")
LEVEL_NOTE = ("Trusted: Coq kernel; extraction (sample re-checked in-kernel); hand transcription validated by the differential run; "
              "fs / error pages / negotiation / vary as section variables with the stated hypotheses. No axioms.")
TECHNIQUE = "Coq proof (cache invariant over all histories + per-request decision) + differential correspondence on kvarn::handle_cache with secret-marker oracle"

REPORT = [b"cache-control", b"?last-modified"]
HEX_U = "0123456789ABCDEF"
HEX_L = "0123456789abcdef"


# ----------------------------------------------------------------------------------
# fixture files
# ----------------------------------------------------------------------------------
def content(line, rel, rng, guarded=True, crlf=False, pad=True):
    tag = (b"SECRET:" if guarded else b"PUBLIC:") + rel + b":%06d;" % rng.randrange(10 ** 6)
    body = tag + (b" lorem ipsum dolor sit amet " * 3 if pad else b"")
    if line is None:
        return body
    return line + (b"\r\n" if crlf else b"\n") + body


ALLOW_LINES = [
    b"!> allow-ips 10.0.0.1",
    b"!> allow-ips 10.0.0.1 10.0.0.3",
    b"!> allow-ips 10.0.0.3 10.0.0.1",
    b"!> allow-ips 10.0.0.1 &> cache server:full",
    b"!> allow-ips 10.0.0.1 &> cache server:full client:full",
    b"!> allow-ips 10.0.0.1 &> cache client:changing server:query_matters",
    b"!> allow-ips 10.0.0.1 &> cache server:30s",
    b"!> cache server:full &> allow-ips 10.0.0.1",
    b"!> cache server:full &> allow-ips 10.0.0.1 &> cache server:full",
    b"!> allow-ips 10.0.0.1 &> allow-ips 10.0.0.1 10.0.0.2",
    b"!> allow-ips 10.0.0.1 10.0.0.2 &> allow-ips 10.0.0.2",
    b"!> allow-ips 10.0.0.1 &> download &> cache server:full",
    b"!> download &> allow-ips 10.0.0.1",
    b"!> unknown-ext x y &> allow-ips 10.0.0.1 &> cache server:full",
    b"!> allow-ips 10.0.0.11",
    b"!> allow-ips 10.0.0.11 &> cache server:full",
    b"!> allow-ips 10.0.1.0 &> cache server:full",
    b"!> allow-ips 10.0.1.1 10.0.0.1",
    b"!> allow-ips  10.0.0.1  ",
]
NEAR_MISS_LINES = [
    b"!> allow-ips 10.0.0.01 &> cache server:full",
    b"!> allow-ips 010.0.0.1",
    b"!> allow-ips 10.0.0.1/32",
    b"!> allow-ips ::ffff:10.0.0.1 &> cache server:full",
    b"!> allow-ips 10.0.0",
    b"!> allow-ips 10.0.0.1.",
    b"!> allow-ips 10.0.0.1.1",
    b"!> allow-ips 10.0.0.256 10.0.0.1000",
    b"!> allow-ips 10.0.0.1,10.0.0.2",
    b"!> allow-ips",
    b"!> allow-ips 10.0.0.1:4000",
    b"!> allow-ips +10.0.0.1",
    b"!> allow-ips 10.0.0.1x &> cache server:full",
    b"!> allow-ips 10.0.00.1",
]
HIDE_LINES = [
    b"!> hide",
    b"!> hide &> cache server:full",
    b"!> cache server:none &> hide",
    b"!> allow-ips 10.0.0.1 &> hide",
    b"!> hide &> allow-ips 10.0.0.1",
    b"!> allow-ips 10.0.0.1 &> hide &> cache server:full",
    b"!> hide now",
]
PLAIN_LINES = [None, b"!> cache server:none", b"!> cache client:60s", b"!> download", b"!> cache server:full client:none", b"hello !> hide"]
ADDRS = [1, 1, 2, 3, 11, 256, 257]


def fixture(rng, rich=True):
    """returns (files xval list, targets: list of (url path bytes, kind))"""
    files = []
    targets = []

    def add(rel, line, guarded, crlf=False, kind="plain", pad=None):
        files.append(xl(xb(b"public/" + rel), xb(content(line, rel, rng, guarded, crlf, rng.random() < 0.7 if pad is None else pad))))
        targets.append((b"/" + rel, kind))

    add(rng.choice([b"s.private", b"key.private", b"a.b.private", b"..private"]), rng.choice(PLAIN_LINES[:5]), True, kind="private")
    add(b"d/" + rng.choice([b"k.private", b"x.private"]), rng.choice([None, b"!> cache server:full", b"!> allow-ips 10.0.0.1"]), True, kind="private")
    add(rng.choice([b"a.txt", b"al", b"a.html"]), rng.choice(ALLOW_LINES), True, crlf=rng.random() < 0.15, kind="allow")
    add(rng.choice([b"b.txt", b"d/b.md"]), rng.choice(ALLOW_LINES[3:9]), True, kind="allow")
    add(rng.choice([b"n.txt", b"nm"]), rng.choice(NEAR_MISS_LINES), True, kind="allow")
    add(rng.choice([b"h.txt", b"h", b"d/h.css"]), rng.choice(HIDE_LINES), True, crlf=rng.random() < 0.15, kind="hide")
    if rich:
        add(b"e/index.html", rng.choice(ALLOW_LINES[:9] + HIDE_LINES[:3]), True, kind="redirect")
        targets[-1] = (b"/e/", "redirect")
        add(b"r.html", rng.choice(ALLOW_LINES[:9] + HIDE_LINES[:3]), True, kind="redirect")
        targets[-1] = (b"/r.", "redirect")
        add(b"p.txt", rng.choice(PLAIN_LINES), False, kind="plain")
        add(rng.choice([b"x.PRIVATE", b"x.privat", b"x.private2", b"private"]), None, False, kind="plain")
        if rng.random() < 0.3:
            add(b".private", None, False, kind="plain")
    return files, targets


# ----------------------------------------------------------------------------------
# spellings
# ----------------------------------------------------------------------------------
def encode(path, mask, rng):
    """percent-encode the characters of path[1:] selected by the bit mask"""
    out = bytearray(b"/")
    for i, c in enumerate(path[1:]):
        if mask >> i & 1:
            out += b"%" + (rng.choice([HEX_U, HEX_L])[c >> 4] + rng.choice([HEX_U, HEX_L])[c & 15]).encode()
        else:
            out.append(c)
    return bytes(out)


def dot_masks(path):
    """masks that encode a dot / the extension"""
    body = path[1:]
    dots = [i for i, c in enumerate(body) if c == 0x2E]
    out = []
    for d in dots:
        out.append(1 << d)
        out.append(((1 << len(body)) - 1) & ~((1 << d) - 1))     # the dot and everything after it
        out.append(((1 << len(body)) - 1) & ~((1 << (d + 1)) - 1))  # everything after the dot
    out.append((1 << len(body)) - 1)
    return out


def structural(path, rng):
    p = path
    return rng.choice([p + b"/", p + b"/.", p + b"%00", p + b"%ff", p + b"%2F", b"/" + p, p.replace(b"/", b"//", 2)[1:] if p.count(b"/") > 1 else p + b".",
                       (p[:-1] + bytes([p[-1] ^ 0x20]) if p[-1:].isalpha() else p + b"~"), p + b"%20", p.upper(), b"/%2e/" + p[1:], b"/x/%2e%2e" + p, p + b"/..", p + b"?"])


HDR_SETS = [[], [], [], [(b"accept-encoding", b"gzip")], [(b"accept-encoding", b"br, gzip;q=0.5")], [(b"accept-encoding", b"zstd")],
            [(b"accept-encoding", b"identity")], [(b"range", b"bytes=0-9")], [(b"range", b"bytes=3-")], [(b"range", b"bytes=9-2")],
            [(b"range", b"bytes=0-0"), (b"accept-encoding", b"gzip")], [(b"x-v", b"A")], [(b"x-v", b"b")], [(b"x-v", b"B"), (b"accept-encoding", b"br")],
            [(b"if-modified-since", b"@T+100")], [(b"if-modified-since", b"@T-100")], [(b"if-modified-since", b"yesterday"), (b"x-v", b"a")]]


def history(rng, spellings, extra_addrs=3, methods=True):
    """listed address first, then others, per spelling; then a mixed tail"""
    ops = []
    for sp in spellings:
        q = rng.choice([b"", b"", b"", b"?x=1", b"?"])
        h = rng.choice(HDR_SETS)
        m = b"GET" if not methods or rng.random() < 0.8 else rng.choice([b"HEAD", b"HEAD", b"POST"])
        ops.append(pipe.req(sp + q, method=m, addr=1, headers=h))
        for _ in range(extra_addrs):
            a = rng.choice(ADDRS[2:])
            q2 = q if rng.random() < 0.7 else rng.choice([b"", b"?x=1", b"?y"])
            ops.append(pipe.req(sp + q2, method=rng.choice([b"GET", b"GET", b"GET", b"HEAD"]), addr=a, headers=rng.choice([h, h, rng.choice(HDR_SETS)])))
        if rng.random() < 0.3:
            ops.append(pipe.req(sp + q, addr=1, headers=rng.choice(HDR_SETS)))
        r = rng.random()
        if r < 0.08:
            ops.append(pipe.clear_page(sp + rng.choice([b"", q])))
            ops.append(pipe.req(sp + q, addr=rng.choice(ADDRS[2:]), headers=h))
        elif r < 0.11:
            ops.append(pipe.clear_all())
            ops.append(pipe.req(sp + q, addr=rng.choice(ADDRS[2:]), headers=h))
    return ops


def mk(rng, files, ops, kind, vary=None, both=True, cache=None, fcache=None, default_ext=None):
    out = []
    caches = (True, False) if both else (rng.random() < 0.85 if cache is None else cache,)
    de = rng.random() < 0.35 if default_ext is None else default_ext
    for c in caches:
        kw = dict(cache=c, fcache=rng.random() < 0.7 if fcache is None else fcache, files=files, report=[xb(r) for r in REPORT], default_ext=de)
        kind = kind + ("/default-ext" if de and "/default-ext" not in kind else "")
        if vary:
            kw["vary"] = vary
        out.append(Case("guards.run", pipe.scenario(pipe.cfg(**kw), ops), "guards.spec", {"kind": kind + ("/cache" if c else "/nocache")}))
    return out


def witnesses(rng):
    """the two repaired defects and close relatives, as fixed corpus"""
    cases = []
    files = [xl(xb(b"public/secret.private"), xb(b"SECRET:secret.private:000001; top secret")),
             xl(xb(b"public/ac.txt"), xb(b"!> allow-ips 10.0.0.1 &> cache server:full\nSECRET:ac.txt:000002; listed only")),
             xl(xb(b"public/ca.txt"), xb(b"!> cache server:full &> allow-ips 10.0.0.1\nSECRET:ca.txt:000003; listed only")),
             xl(xb(b"public/a.txt"), xb(b"!> allow-ips 10.0.0.1\nSECRET:a.txt:000004; listed only")),
             xl(xb(b"public/h.txt"), xb(b"!> hide\nSECRET:h.txt:000005; nobody")),
             xl(xb(b"public/p.txt"), xb(b"PUBLIC:p.txt:000006; everybody"))]
    cases += mk(rng, files, [pipe.req(b"/secret.private"), pipe.req(b"/secret%2Eprivate"), pipe.req(b"/secret%2eprivate"),
                             pipe.req(b"/secret.%70rivate"), pipe.req(b"/%73ecret%2E%70%72%69%76%61%74%65", addr=2)], "corpus/private-spelling")
    cases += mk(rng, files, [pipe.req(b"/ac.txt", addr=1), pipe.req(b"/ac.txt", addr=2), pipe.req(b"/ac.txt", addr=1),
                             pipe.req(b"/ac.txt", addr=3, method=b"HEAD"), pipe.req(b"/ac.txt?x=1", addr=2)], "corpus/allow-then-cache")
    cases += mk(rng, files, [pipe.req(b"/ac.txt", addr=2), pipe.req(b"/ac.txt", addr=1), pipe.req(b"/ac.txt", addr=2)], "corpus/allow-then-cache")
    cases += mk(rng, files, [pipe.req(b"/ca.txt", addr=1), pipe.req(b"/ca.txt", addr=2), pipe.req(b"/a.txt", addr=1), pipe.req(b"/a.txt", addr=2),
                             pipe.req(b"/a%2Etxt", addr=1), pipe.req(b"/a%2Etxt", addr=11), pipe.req(b"/h.txt", addr=1), pipe.req(b"/h%2etxt", addr=1),
                             pipe.req(b"/p.txt", addr=9), pipe.req(b"/p.txt", addr=9)], "corpus/basics")
    vary = [pipe.vary_rule(b"/ac.txt", [(b"x-v", 0, b"-")]), pipe.vary_rule(b"/h.txt", [(b"x-v", 0, b"-")])]
    cases += mk(rng, files, [pipe.req(b"/ac.txt", addr=2, headers=[(b"x-v", b"a")]), pipe.req(b"/ac.txt", addr=1, headers=[(b"x-v", b"b")]),
                             pipe.req(b"/ac.txt", addr=2, headers=[(b"x-v", b"b")]), pipe.req(b"/h.txt", headers=[(b"x-v", b"a")]),
                             pipe.req(b"/h.txt", headers=[(b"x-v", b"b")]), pipe.req(b"/h.txt", headers=[(b"x-v", b"b")])], "corpus/vary-push", vary=vary)
    return cases


def generate(rng, tier):
    cases = witnesses(rng)
    n = 170 if tier == "quick" else 2600
    for i in range(n):
        files, targets = fixture(rng)
        guarded_t = [t for t in targets if t[1] != "plain"]
        spellings = []
        for _ in range(rng.randrange(2, 5)):
            path, kind = rng.choice(guarded_t if rng.random() < 0.85 else targets)
            r = rng.random()
            if r < 0.2:
                spellings.append(path)
            elif r < 0.5:
                spellings.append(encode(path, rng.choice(dot_masks(path)), rng))
            elif r < 0.85:
                spellings.append(encode(path, rng.getrandbits(len(path) - 1), rng))
            else:
                spellings.append(structural(path, rng))
        vary = None
        if rng.random() < 0.35:
            vary = [pipe.vary_rule(sp, [(b"x-v", rng.choice([0, 1]), b"-")]) for sp in sorted(set(spellings)) if rng.random() < 0.7 and b"?" not in sp]
        ops = history(rng, spellings)
        cases += mk(rng, files, ops, "random", vary=vary, both=(i % 3 == 0))
    # exhaustive subsets of positions: all 2^k subsets of the last k = min(len, cap) characters of the path
    # (for *.private that is at least the whole ".private" suffix), kinds in rotation
    nex = 3 if tier == "quick" else 36
    cap = 8 if tier == "quick" else 9
    for i in range(nex):
        files, targets = fixture(rng, rich=False)
        want = ("private", "allow", "hide")[i % 3]
        path, kind = rng.choice([t for t in targets if t[1] == want])
        ln = len(path) - 1
        k = min(ln, cap if want == "private" else 8)
        ops = []
        for sub in range(1 << k):
            sp = encode(path, sub << (ln - k), rng)
            ops.append(pipe.req(sp, addr=1))
            ops.append(pipe.req(sp, addr=rng.choice([2, 3, 11, 256]), method=rng.choice([b"GET", b"GET", b"HEAD"]), headers=rng.choice(HDR_SETS[:8])))
        cases += mk(rng, files, ops, "exhaustive-spellings/" + kind, both=False, cache=True)
    # malformed stream: token soup on the guard line
    toks = [b"allow-ips", b"hide", b"cache", b"&>", b"10.0.0.1", b"10.0.0.2", b"server:full", b"server:none", b"client:full", b"download", b"x", b"",
            b"server:", b":full", b"server:full:none", b"client:0s", b"server:0s", b"server:5s", b"!>", b"&>hide", b"allow-ips10.0.0.1"]
    nm = 40 if tier == "quick" else 700
    for i in range(nm):
        line = b"!> " + b" ".join(rng.choice(toks) for _ in range(rng.randrange(1, 8)))
        if rng.random() < 0.1:
            line = line.replace(b" ", b"  ", 1)
        rel = rng.choice([b"m.txt", b"m.private" if rng.random() < 0.3 else b"m"])
        hidden, allow = _py_guard(rel, line + b"\n")
        files = [xl(xb(b"public/" + rel), xb(content(line, rel, rng, hidden or allow is not None, crlf=rng.random() < 0.1)))]
        sp = [b"/" + rel, encode(b"/" + rel, rng.getrandbits(len(rel)), rng)]
        ops = history(rng, sp, extra_addrs=2)
        cases += mk(rng, files, ops, "malformed-line", both=False)
    return cases


# ----------------------------------------------------------------------------------
# oracles
# ----------------------------------------------------------------------------------
MARK = re.compile(rb"SECRET:([^:;]*):")


def _scenario(c):
    cfg, ops = c.x[1]
    files = {}
    for e in cfg[1]:
        if e[1][0][1] == b"files":
            for f in e[1][1][1]:
                files[f[1][0][1]] = f[1][1][1]
    return files, ops[1]


def _markers(reply):
    """file names whose SECRET marker occurs in the decoded body or the identity body of a reply"""
    out = set()
    if reply[0] == "L" and len(reply[1]) == 6:
        for idx in (2, 4):
            for m in MARK.finditer(reply[1][idx][1]):
                out.add(m.group(1))
    return out


def spec_ok(c, impl, spec):
    """Gallina spec: a marker of file F in reply i => spec says request i is permitted and its decoded path is F."""
    try:
        a, s = xparse(impl)[1], xparse(spec)[1]
    except Exception:
        return False
    if len(a) != len(s):
        return False
    for x, y in zip(a, s):
        for name in _markers(x):
            if y[0] != "L" or len(y[1]) != 2 or y[1][0][1] != 1:
                return False
            # the decoded path resolves to the file: compare after removing empty / '.' components
            segs = [p for p in y[1][1][1].split(b"/") if p not in (b"", b".")]
            if b"/".join(segs) != name:
                return False
    return True


def _py_guard(rel, data):
    """independent reading of the property text: (kind, allowed address set or None)"""
    base = rel.rsplit(b"/", 1)[-1]
    private = base.endswith(b".private") and len(base) > len(b".private")
    hide = False
    allow = None
    nl = data.find(b"\n")
    if data.startswith(b"!> ") and nl >= 0:
        line = data[3:nl].rstrip(b"\r")
        groups, cur = [], []
        for w in line.split(b" "):
            if w == b"":
                continue
            if w == b"&>":
                groups.append(cur)
                cur = []
            else:
                cur.append(w)
        groups.append(cur)
        for g in groups:
            if not g:
                continue
            if g[0] == b"hide":
                hide = True
            if g[0] == b"allow-ips":
                s = set()
                for a in g[1:]:
                    try:
                        s.add(ipaddress.ip_address(a.decode("ascii")))
                    except Exception:
                        pass
                allow = s if allow is None else (allow & s)
    return private or hide, allow


def extra_oracle(c, impl):
    """model-independent: no SECRET marker in any reply unless the file is allow-ips (not hidden/private) and the address is listed"""
    try:
        files, ops = _scenario(c)
        replies = xparse(impl)[1]
    except Exception:
        return None
    if len(replies) != len(ops):
        return None
    for i, (o, rp) in enumerate(zip(ops, replies)):
        if o[1][0][1] != 0:
            continue
        addr = o[1][1][1]
        ip = ipaddress.ip_address("10.0.%d.%d" % ((addr // 256) % 256, addr % 256))
        for name in _markers(rp):
            data = files.get(b"public/" + name)
            if data is None:
                return "reply %d carries a marker of an unknown file %r" % (i, name)
            hidden, allow = _py_guard(name, data)
            if hidden:
                return "reply %d (address %s, target %r) carries the content of the hidden/private file %r" % (i, ip, o[1][3][1], name)
            if allow is not None and ip not in allow:
                return "reply %d (address %s, target %r) carries the content of %r whose allow-ips list is %s" % (
                    i, ip, o[1][3][1], name, sorted(map(str, allow)))
    return None


def signature(c, m):
    try:
        rs = xparse(m)[1]
    except Exception:
        return None
    got = False
    for x in rs:
        if x[0] == "L" and len(x[1]) == 6:
            if _markers(x):
                got = True
            elif got and x[1][0][1] == 404:
                return "served-then-refused"
    return None


def directed(rng, mismatches):
    cases = witnesses(rng)
    for i in range(60):
        files, targets = fixture(rng)
        guarded_t = [t for t in targets if t[1] != "plain"]
        sps = []
        for path, kind in guarded_t:
            sps.append(path)
            sps.append(encode(path, rng.choice(dot_masks(path)), rng))
        cases += mk(rng, files, history(rng, sps, extra_addrs=2, methods=False), "directed", both=False, cache=True, fcache=True)
    return cases


def extra_coverage(cases, impl, model, spec):
    nreq = served = refused = spellings = 0
    seen = set()
    for c in cases:
        i = impl.get(c.id)
        if i is None:
            continue
        try:
            _, ops = _scenario(c)
            rs = xparse(i)[1]
        except Exception:
            continue
        for o, rp in zip(ops, rs):
            if o[1][0][1] != 0 or rp[0] != "L" or len(rp[1]) != 6:
                continue
            nreq += 1
            t = o[1][3][1]
            if b"%" in t and t not in seen:
                seen.add(t)
                spellings += 1
            if _markers(rp):
                served += 1
            elif rp[1][0][1] == 404:
                refused += 1
    return {"requests": nreq, "distinct_percent_encoded_targets": spellings, "replies_with_guarded_content_to_listed_address": served,
            "replies_404": refused}


def describe(c):
    files, ops = _scenario(c)
    return {"component": c.comp, "kind": c.meta.get("kind"),
            "files": {k.decode("latin1"): v.split(b"\n")[0].decode("latin1")[:70] for k, v in files.items()},
            "ops": [kv.pretty(o, 100) for o in ops][:10]}
