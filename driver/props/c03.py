"""C03 — a cache hit returns what recomputation would return."""
import json
import os

from kv import Case, xn, xb, xl, xlist, xbool, xparse, xtext
import pipe

ID = "C03"
MODULE = "C03"
IMPORTS = "Bytes RustInt Range CacheControl Cache CacheProofs Fixture CacheX CacheXProofs CacheXWitness CacheKey CacheKeyProofs RuleSet CacheRules CacheRulesProofs CacheReachProofs CacheFixtureProofs CacheQmProofs"
PROFILES = ("dev",)
MAX_NOT_EXECUTED = 4      # timed histories that could not be run within their slack after 3 x 3 attempts (set per tier in generate); everything else always runs
_PINS = json.load(open(os.path.join(os.path.dirname(os.path.abspath(__file__)), "pins", "C03.json")))
THEOREMS = [(n, _PINS[n]) for n in ("cache_transparent", "cache_hit_same_class", "cache_transparent_from_empty", "key_injective",
                                    "cache_transparent_uri", "cache_hit_same_uri", "query_start_needed",
                                    "key_is_raw_path", "decoded_key_collides_refuted",
                                    "vary_rules_most_specific", "vary_exact_rule_wins", "vary_longest_pattern_wins",
                                    "length_first_shadows_exact_refuted",
                                    "cache_transparent_reachable", "fixture_honours_contract", "fixture_cache_transparent",
                                    "override_poisons_refuted", "stream_vary_refuted", "qm_variant_refuted",
                                    "stored_variant_keyed_by_what_it_depends_on", "qm_response_never_under_path_key", "qm_queryless_variant_refuted")]
RULE = ("histories of requests/clears/waits against kvarn::handle_cache in process (harness/src/c04x.rs): (a) host with response cache vs. the Coq cache "
        "model Model/CacheX.v (component pipex.run; correspondence: status, vary / x-h / last-modified presence, decoded body, identity body, stream, "
        "handler invocation log per request), (b) host without response cache vs. the model run with cache off, (c) oracle real-vs-model: every reply "
        "of the caching host equals the reply of the cache-less model on status, reported headers, body, identity body and stream, (d) oracle "
        "real-vs-real (component pipex.pair): the same history on two real hosts built from one configuration, with and without response cache, "
        "compared on status, EVERY response header except last-modified, decoded body, identity body, stream — the model predicts 'no difference' by "
        "theorem cache_transparent; this part also carries what the model abstracts (406 from accept-encoding: identity;q=0, Range, content-type / "
        "content-encoding). Universe: paths {/, /a, /a/, /a., /ab, /a/b, /q, /v, /w, /nohandler, unsafe spellings} x queries {none, b, x=1, x=2} x "
        "methods {GET, HEAD, POST, OPTIONS, PUT} x Accept-Encoding / Range / Origin / vary-relevant headers x all assignments of {None, QueryMatters, "
        "Full} to the handlers (QueryMatters + vary included) x vary rules x switch handlers whose variants differ in status / preference / "
        "cache-control / stream x status filter {default, cache-all} x override Prime (custom /./int, default CORS denial) x waits across a 2 s "
        "lifetime, with/without the default extensions (uri expansion of '/', 'dir/', 'name.'; clears of the unexpanded names). Plus the family "
        "'split': URIs whose path + query concatenations (the string of comprash::PathQuery) coincide although path / query differ — /a?b vs /ab, "
        "/x/y?z=1 vs /x/yz=1, /a?/b vs /a/b, /a?bc vs /ab?c, /?a vs /a, /q?x=1 vs /qx=1, /ab? vs /a?b —, empty vs absent query (/a? vs /a) and an "
        "encoded '?' (/a?b vs /a%3Fb), in both orders, against the assignments of {None, QueryMatters, Full} to the handlers of the two paths, and "
        "random histories (requests, clears) over these URIs. "
        "Family 'spell': %-escaped spellings of one path (/page, /p%61ge, /%70age; /data.json, /data%2Ejson, /data%2ejson; /a/b, /a%2Fb; /~u, /%7Eu, "
        "/%7eu ...), which kvarn routes as DIFFERENT requests: a handler bound to the plain path only (the others are 404), handlers bound to "
        "every spelling that echo the raw path, handlers with their own status/body per spelling, files whose content type is guessed from the "
        "raw extension (real-vs-real only); directed orders (plain first, odd first, with query, encoded '?', two odd spellings) and random "
        "histories with clears. Family 'rules': vary rule sets in which an exact rule stands next to patterns '<prefix>*' covering the same path "
        "(/lang + /lang*; /api + /api* + /a*; /lang* + /lang + /*; /doc* + /docs — a pattern as long as the exact path —; ...) added in both orders and in random order, every pattern varying on ANOTHER header, pages whose "
        "handlers echo the tuple of the rule that applies to them, requests with different values of each header. Family 'expand': default "
        "extensions, a vary rule on the page a short spelling expands to ('/', 'dir/', 'name.'), the item entering the cache through the short or "
        "the long spelling, then other header values, clears of either spelling. Family 'ovrules': an override Prime on a host whose page and "
        "internal route carry vary rules on different headers. Family 'qmvar': one page whose variants declare different cache preferences (x-view: plain -> Full, static; detail -> QueryMatters, echo of path?query), the three steps {Full variant; QueryMatters variant without query; QueryMatters variant with a query} in all six orders followed by other queries, the empty query '/report?', HEAD, clears, and random histories over three variants. Family 'emptyhdr': a tuple-echo page whose varied header arrives absent, present with an EMPTY value, or blank (' ', tab): transformation('') differs from the default for every transformation of the menu; both orders, every transformation. Every real-vs-real scenario is also given to the model component pipex.wf "
        "(wf_fixture: does theorem fixture_cache_transparent apply to this configuration?) — counted per family in the evidence; a scenario of "
        "the families rules / expand / ovrules / spell that was built for the theorem's domain and is rejected fails the run as a generator error. "
        "distinct_nontrivial = distinct (history, model outcome) pairs containing at least one cache hit")
ASSUMPTIONS = [
    "handlers honour their cache contract (theorem hypotheses: response is a function of method class, path of the URI that selects the handler "
    "(the internal route when a Prime overrode the URI), (query if QueryMatters), vary tuple; error responses are not cacheable). For the fixture "
    "this is now a THEOREM (fixture_honours_contract / fixture_cache_transparent) for every configuration that passes wf_fixture (no counting "
    "handler, no extended switch/stream handler, path-echo handlers QueryMatters and not an internal route, tuple-echo handlers echoing the "
    "rules of their path); the extended handlers of the families random / negotiation / timed (selection by a raw header value: a function of "
    "the transformed tuple only on the generated lower-case values, the empty value and blanks; family qmvar: the preference — Full / QueryMatters — "
    "is a function of that value too) and path-echo handlers declared Full (histories without queries) satisfy it "
    "by construction only. cache_transparent_reachable asks the contract only of the (request, override URI) pairs the Primes produce. "
    "The earlier extra hypothesis 'query-matters-ness is uniform per path' is gone: it was needed only because of the "
    "defect witnessed by qm_variant_refuted, now repaired",
    "'query' in the contract is the NON-EMPTY query (Model/CacheKey.v eff_query): comprash::PathQuery stores path and query without the '?', so "
    "'/a?' and '/a' are one key by design (PathQuery::query's documentation and kvarn's own tests path_query_empty_query_1/4); a QueryMatters "
    "handler must answer them alike (the fixture's echo handler does). Theorem key_injective states exactly this equivalence",
    "If-Modified-Since excluded here (C04 covers it): a cache-less server never answers 304",
    "moka is modelled as a finite map with read-your-writes; capacity (1024 entries) is never reached in a run",
    "sequential histories (one request at a time); the race between expiry and handle_vary_missing's second lookup is not modelled (C05)",
    "content negotiation is abstracted in the model (C06): bodies are compared after decoding content-encoding with standard decoders; the "
    "real-vs-real oracle compares the content-encoding / content-type headers and the 406 answers directly",
    "the key is made from the RAW path (key_is_raw_path); sanitize_request's percent-decoding is not in Model/CacheX.v (C01's subject, Model/PathSan.v): "
    "the generated %-escapes are ones whose decoded path passes the './' / '//' tests exactly when the raw path does",
    "vary rule sets are read through C14's model of extensions::RuleSet (Model/RuleSet.v: add_mut in the order of the configuration, insertion "
    "sort standing for sort_unstable_by; C14's most_specific_rule covers every permutation the sort may return)",
    "timed histories: a scenario in which a request started or ended more than 450 ms late is run again and then reported as not executed",
]
TRUSTED = ["modelled (Model/CacheX.v): src/lib.rs handle_cache + handle_cache_helpers (get_response's key, get_cache, maybe_cache, handle_vary_missing), "
           "src/comprash.rs UriKey/PathQuery (From<&Uri>, derived PartialEq/Eq/Hash = Model/Cache.v path_query/key_eqb)/MokaCache::{get_cache_item,insert,insert_cache_item}/ServerCachePreference::cache, src/host.rs "
           "clear_page/status filter, extensions.rs uri_redirect prime, the default CORS denial route, Vary::rules_from_path = extensions::RuleSet::{add_mut,get} "
           "(Model/RuleSet.v through CacheX.v rules_for_x: exact rule, else longest pattern) for the path of the URI the response is cached under; "
           "handlers/vary rules/override Prime are the "
           "fixture menu (harness/src/c00pipe.rs + c04x.rs = Model/Fixture.v + CacheX.v)"]
LEVEL_TEXT = ("Coq theorem cache_transparent over the full cache model (streams, body sizes, the host's status filter, override URIs of Prime extensions, "
              "vary variants with admission): for every history of requests, clears and waits, under the handler contract, every reply of the caching "
              "server equals the reply of the cache-less server (status, headers, body sent with its size, identity body, stream), by an inductive "
              "invariant on the cache (each stored variant equals recomputation for every request that can select it); plus cache_hit_same_class (an "
              "entry is only served to a request of the same path / query / method class / variant); key_injective (what the cache compares — the derived "
              "PartialEq/Hash of UriKey and PathQuery — holds of the PathQuery keys of two URIs exactly when path and non-empty query are equal, of "
              "the Path keys exactly when the paths are equal, never across the two kinds: '/a'+'b' is not '/ab'), with which cache_transparent_uri "
              "and cache_hit_same_uri restate the two theorems with the handler contract and the conclusion in terms of the URI's path and query "
              "instead of the key; query_start_needed (witness: compared on the concatenated string alone, /a?b and /ab are one key); key_is_raw_path (whichever "
              "of its two keys an entry is stored under for one URI and looked up with for another, equal keys mean equal RAW paths: percent-spellings of "
              "one decoded path never share an entry) with decoded_key_collides_refuted (keys made from the decoded path merge /page and /p%61ge although "
              "the fixture's routing answers 200 and 404); vary_rules_most_specific / vary_exact_rule_wins / vary_longest_pattern_wins (the rules the "
              "model applies to a cached page are those of C14's independent resolver: an exact rule beats every covering pattern whatever the lengths, "
              "else the longest pattern) with length_first_shadows_exact_refuted (sorted by length first, /lang* shadows /lang and the page's x-w "
              "variants get one tuple); cache_transparent_reachable (the same simulation with the handler contract asked only of the (request, override "
              "URI) pairs the Primes produce — what a path-echoing handler can meet); fixture_honours_contract + fixture_cache_transparent: for EVERY "
              "configuration of the fixture menu accepted by wf_fixture (static / method-class / QueryMatters path-echo / tuple-echo handlers with any "
              "status, headers, preference; exact + pattern vary rules; status filter; default extensions with the '/', 'dir/', 'name.' expansion and "
              "the CORS denial route; override Prime) the contract HOLDS, hence for all histories the model of the caching host (pipex.run) and the "
              "model of the cache-less host (pipex.run_nocache, the oracle) answer alike — the hypothesis of cache_transparent is discharged for the "
              "very model the code is compared with; not for configurations with extended (switch / stream) handlers. Three defects of the code before its repair are "
              "proved as witnesses on the faithful old model (override_poisons_refuted: an internal route's answer stored under the page's key; "
              "qm_variant_refuted: a QueryMatters variant joined a path-keyed entry and was served for every query; stream_vary_refuted). "
              "stored_variant_keyed_by_what_it_depends_on / qm_response_never_under_path_key: after ANY history every stored variant was computed for a "
              "GET/HEAD request of that vary tuple whose looked-up URI has the path of its Path key — and is then not query-dependent — or the path and "
              "query of its PathQuery key; in particular a QueryMatters response is never held by the path-keyed entry every query falls back to, whether "
              "or not its request carried a query (the seeded change C03-10 as a model property; fixture example c03_ex_qm_queryless_variant; qm_queryless_variant_refuted: its three-step "
              "history — Full variant, QueryMatters variant without query, the same with a query — on the model without the key-kind guard, with which "
              "that change coincides on query-less requests: /v?id=7 is answered with the response computed for /v). Tied to the repo worktree by a differential run of the real kvarn::handle_cache against the extracted model on "
              "generated histories, for hosts with and without the response cache, and by the real-vs-real comparison of the two hosts.")
LEVEL_NOTE = ("Trusted: Coq kernel; extraction (sample re-checked in-kernel); hand transcription of handle_cache into Model/CacheX.v validated by the "
              "differential run; moka as a finite map; sequential histories. No axioms.")
TECHNIQUE = "Coq proof (simulation by inductive invariant over all histories) + differential correspondence on kvarn::handle_cache + real-vs-real differential"

PATHS = [b"/", b"/a", b"/a/", b"/a.", b"/ab", b"/a/b", b"/q", b"/nohandler", b"/a/index.html", b"/a.html", b"/index.html", b"/v", b"/w"]
UNSAFE = [b"/a/./b", b"/./a", b"/a/../a", b"//a", b"/a./x", b"/./int"]
QUERIES = [None, b"b", b"x=1", b"x=2"]
METHODS = [b"GET", b"GET", b"GET", b"HEAD", b"POST", b"OPTIONS", b"PUT"]
REPORT = [b"vary", b"x-h"]       # last-modified is the cache's own stamp: not a representation header, not pinned
VVALS = [b"a", b"b", b"c"]
SLACK = 450


def handlers(rng, prefs):
    hs = []
    hpaths = [b"/a", b"/q", b"/a/index.html", b"/a.html", b"/index.html", b"/ab", b"/a/b"]
    for i, p in enumerate(hpaths):
        sp = prefs[i % len(prefs)]
        kind = 1 if sp == 1 else rng.choice([0, 4])
        # contract: Full => independent of the query (static body naming the path); QueryMatters => echo path?query
        hs.append(pipe.H(p, kind=kind, body=b"" if kind == 1 else b"static:" + p + b":", spref=sp, headers=[(b"x-h", b"%d" % i)], cpref=rng.choice([0, 3])))
    return hs


def vary_pages(rng, timed):
    """/v: switch handler selected by x-v (vary rule x-v, lower-casing = identity on the generated values): its variants differ in status,
    preference, cache-control, stream; /w: echo of the transformed tuple, QueryMatters or Full. All pure functions of the request."""
    uniform = rng.random() < 0.5
    qm0 = rng.random() < 0.3
    behs = []
    for v in VVALS:
        st = rng.choice([200, 200, 200, 404, 400, 500, 301, 101])
        # the variants of one page may differ in query-matters-ness (QueryMatters variants echo path?query, the others are static)
        qm = qm0 if uniform else rng.random() < 0.4
        sp = 1 if qm else rng.choice([0, 2, 2, 2, 3])
        hdr = rng.choice([[], [], [(b"cache-control", b"max-age=2")] if timed else [(b"cache-control", b"max-age=1000")], [(b"kvarn-cache-control", b"none")],
                          [(b"cache-control", b"no-store")]])
        stream = rng.choice([0, 0, 0, 0, 1, 2])
        h = pipe.H(b"/v", kind=1 if qm else 0, status=st, body=b"V" + v + b":", headers=hdr + [(b"x-h", b"v" + v)], spref=sp, cpref=0, compress=rng.random() < 0.5)
        behs.append((v, h, 0, stream))
    xhs = [pipe.XH(b"/v", b"x-v", behs)]
    tup = [(b"x-w", rng.choice([0, 1, 2, 3]), b"dw")] + ([(b"x-v", rng.choice([0, 1]), b"dv")] if rng.random() < 0.5 else [])
    hs = [pipe.H(b"/w", kind=3, body=b"W", spref=rng.choice([1, 2]), tuple_=tup, cpref=0)]
    rules = [pipe.vary_rule(b"/v", [(b"x-v", 0, b"a")]), pipe.vary_rule(b"/w", tup)]
    if rng.random() < 0.3:
        rules = rules[:1]          # /w without its rule would break the contract: drop the handler too
        hs = []
    return hs, xhs, rules


def rand_request(rng, focus=None, origin=False, ovhdr=False, ae406=False):
    p = rng.choice(focus) if focus and rng.random() < 0.8 else rng.choice(PATHS + (UNSAFE if rng.random() < 0.3 else []))
    q = rng.choice(QUERIES)
    t = p + (b"?" + q if q is not None else b"")
    hdrs = []
    if rng.random() < 0.3:
        hdrs.append((b"accept-encoding", rng.choice([b"gzip", b"br", b"zstd, gzip", b"identity", b"gzip;q=0.5, br"] +
                                                    ([b"identity;q=0", b"gzip;q=0, identity;q=0", b"br, identity;q=0"] if ae406 else []))))
    if rng.random() < 0.15:
        hdrs.append((b"range", rng.choice([b"bytes=0-3", b"bytes=5-2", b"bytes=2-", b"bytes=100-200"])))
    if p == b"/v" or rng.random() < 0.1:
        if rng.random() < 0.9:
            hdrs.append((b"x-v", rng.choice(VVALS) if rng.random() < 0.9 else rng.choice([b"", b" "])))      # present but empty / blank: no behaviour matches = the first one
    if p == b"/w" or rng.random() < 0.1:
        if rng.random() < 0.8:
            hdrs.append((b"x-w", rng.choice([b"a", b"B", b"zz", b"abc", b"", b"", b" "])))
    if origin and rng.random() < 0.3:
        hdrs.append((b"origin", rng.choice([b"https://evil.example", b"http://localhost", b"null", b"localhost", b"http://localhost:80"])))
    if ovhdr and rng.random() < 0.3:
        hdrs.append((b"x-int", b"1"))
    return pipe.req(t, method=rng.choice(METHODS), addr=rng.randrange(1, 4), headers=hdrs)


def history(rng, n, timed=False, **kw):
    ops = []
    focus = rng.sample(PATHS, 2) + ([b"/v"] if rng.random() < 0.5 else [])
    waits = [500, 2700] if timed else []
    for i in range(n):
        r = rng.random()
        if r < 0.07:
            p = rng.choice(PATHS)
            q = rng.choice(QUERIES)
            ops.append(pipe.clear_page(p + (b"?" + q if q is not None else b"")))
        elif r < 0.10:
            ops.append(pipe.clear_all())
        else:
            ops.append(rand_request(rng, focus, **kw))
        if waits and i in (n // 3, 2 * n // 3):
            ops.append(pipe.wait(waits.pop(0)))
    return ops


# URIs whose path + query concatenations (the `string` of comprash::PathQuery, which has no '?') coincide although path and query differ:
# only the position of the boundary (`query_start`) keeps their keys apart.  Also: empty query / no query (one key, by PathQuery's design —
# the echo handler prints them alike) and an encoded '?' in the path (a different path).
SPLITS = [(b"/a?b", b"/ab"), (b"/x/y?z=1", b"/x/yz=1"), (b"/a?/b", b"/a/b"), (b"/a?bc", b"/ab?c"), (b"/?a", b"/a"), (b"/q?x=1", b"/qx=1"),
          (b"/a?", b"/a"), (b"/a?b", b"/a%3Fb"), (b"/ab?", b"/a?b")]
SPLIT_URIS = sorted({u for pr in SPLITS for u in pr} | {b"/a?b=", b"/", b"/x/y", b"/x/y?z=", b"/x/yz=1?", b"/a/b?", b"/a??", b"/a%3F"})
SPLIT_PATHS = sorted({u.split(b"?")[0] for u in SPLIT_URIS})


def split_handlers(rng, pref_of):
    """one handler per path; QueryMatters handlers echo path?query (their contract), the others are static / echo the method class"""
    hs = []
    for i, p in enumerate(SPLIT_PATHS):
        sp = pref_of(p)
        hs.append(pipe.H(p, kind=1 if sp == 1 else rng.choice([0, 4]), body=b"e:" if sp == 1 else b"static:" + p + b":", spref=sp,
                         headers=[(b"x-h", b"s%d" % i)], cpref=rng.choice([0, 3])))
    return hs


def split_directed(rng, tier):
    """both orders of every ambiguous pair, against the assignments of {None, QueryMatters, Full} to the two handlers"""
    cases = []
    for u1, u2 in SPLITS:
        p1, p2 = u1.split(b"?")[0], u2.split(b"?")[0]
        combos = [(a, b) for a in (1, 2, 0) for b in (1, 2, 0)]
        if tier == "quick":
            combos = [(1, 1), rng.choice(combos[1:])]
        for first, second in ((u1, u2), (u2, u1)):
            for a, b in combos:
                other = rng.choice([0, 1, 2])
                hs = split_handlers(rng, lambda p: a if p == p1 else b if p == p2 else other)
                ops = [pipe.req(first), pipe.req(second), pipe.req(first, method=rng.choice([b"GET", b"HEAD"])), pipe.req(second)]
                cases += mk_cases(rng, hs, ops, False, "split", nocache_run=(tier != "quick"))
    return cases


def split_random(rng, n):
    cases = []
    for i in range(n):
        qmp = rng.choice([0.4, 0.7, 1.0])
        prefs = {p: (1 if rng.random() < qmp else rng.choice([0, 2])) for p in SPLIT_PATHS}
        hs = split_handlers(rng, lambda p: prefs[p])
        pr = rng.choice(SPLITS)
        focus = list(pr) + [rng.choice(SPLIT_URIS)]
        ops = []
        for j in range(rng.randrange(3, 12)):
            r = rng.random()
            u = rng.choice(focus) if rng.random() < 0.75 else rng.choice(SPLIT_URIS)
            if r < 0.08:
                ops.append(pipe.clear_page(u))
            elif r < 0.10:
                ops.append(pipe.clear_all())
            else:
                ops.append(pipe.req(u, method=rng.choice([b"GET", b"GET", b"GET", b"GET", b"HEAD", b"POST"]), addr=rng.randrange(1, 4)))
        cases += mk_cases(rng, hs, ops, rng.random() < 0.3, "split/random", pair=(i % 2 == 0), nocache_run=(i % 2 == 1))
    return cases


# ---- family 'spell' (seeded/C03-6): spellings of one path that differ only in %-escapes.  kvarn routes on the RAW path (prepare_single keys,
# the content type from the extension), so the spellings are different requests; the cache key must keep them apart.
SPELLINGS = [(b"/page", [b"/p%61ge", b"/%70age"]), (b"/data.json", [b"/data%2Ejson", b"/data%2ejson"]), (b"/a/b", [b"/a%2Fb", b"/a/%62"]),
             (b"/~u", [b"/%7Eu", b"/%7eu"]), (b"/a", [b"/%61"]), (b"/q", [b"/%71"])]


def spell_handlers(rng, plain, odds, mode, sp):
    """mode 0: a handler bound to the plain path only (the other spellings are 404); 1: handlers bound to every spelling that echo the raw path
    (what a prepare_fn which names the path does); 2: handlers with their own status / body per spelling"""
    mk = lambda p, i, **kw: pipe.H(p, spref=sp, headers=[(b"x-h", b"p%d" % i)], cpref=rng.choice([0, 3]), **kw)
    if mode == 0:
        return [mk(plain, 0, kind=1 if sp == 1 else rng.choice([0, 4]), body=b"generated:")]
    if mode == 1:
        return [mk(p, 0, kind=1, body=b"for:") for i, p in enumerate([plain] + odds)]
    return [mk(p, i, kind=1 if sp == 1 else 0, body=b"own%d:" % i, status=rng.choice([200, 200, 404, 301])) for i, p in enumerate([plain] + odds)]


def spell_cases(rng, tier):
    cases = []
    for plain, odds in SPELLINGS:
        for mode in (0, 1, 2):
            for sp in ((1, 2) if tier != "quick" else (rng.choice([1, 2]),)):
                hs = spell_handlers(rng, plain, odds, mode, sp)
                # a Full handler must not see two queries (kind 1 echoes the query): queries only under QueryMatters
                q = b"?a=1" if sp == 1 else b""
                o = odds[0]
                directed = [[plain, plain, o, plain], [o, plain, o], [plain + q, o + q, plain + b"%3Fa=1", plain]]
                if len(odds) > 1:
                    # two odd spellings of one path (hex digits in either case, another escaped byte), with and without the query
                    directed.append([odds[1] + q, o + q, plain + q, odds[1] + q, o])
                if tier == "quick":
                    directed = [directed[0], rng.choice(directed[1:3])] + directed[3:]
                for h in directed:
                    ops = [pipe.req(t, method=b"HEAD" if (j == 1 and rng.random() < 0.3) else b"GET") for j, t in enumerate(h)]
                    cases += mk_cases(rng, hs, ops, rng.random() < 0.5, "spell", nocache_run=(tier != "quick"), expect_wf=(mode != 1 or sp == 1),
                                      echo=b"for:" if mode == 1 else None)
    # random histories over the spellings of two paths
    for i in range(30 if tier == "quick" else 600):
        (p1, o1), (p2, o2) = rng.sample(SPELLINGS, 2)
        sp = rng.choice([1, 2, 2, 0])
        m1, m2 = rng.choice([0, 1, 2]), rng.choice([0, 1, 2])
        hs = spell_handlers(rng, p1, o1, m1, sp) + spell_handlers(rng, p2, o2, m2, sp)
        uris = [p1] + o1 + [p2] + o2
        qs = [b"", b"?a=1", b"?a=2"] if sp == 1 else [b""]
        ops = []
        for j in range(rng.randrange(3, 10)):
            u = rng.choice(uris[:len(o1) + 1]) if rng.random() < 0.7 else rng.choice(uris)
            r = rng.random()
            if r < 0.08:
                ops.append(pipe.clear_page(u))
            else:
                ops.append(pipe.req(u + rng.choice(qs), method=rng.choice([b"GET", b"GET", b"GET", b"HEAD", b"POST"]), addr=rng.randrange(1, 4)))
        cases += mk_cases(rng, hs, ops, rng.random() < 0.4, "spell/random", pair=(i % 2 == 0), nocache_run=(i % 3 == 0),
                          expect_wf=(sp == 1 or 1 not in (m1, m2)))
    # files: the content type is guessed from the extension of the raw path, the file is read from the decoded one (real-vs-real only:
    # the file system is not in Model/CacheX.v)
    files = [xl(xb(b"public/data.json"), xb(b"{\"k\": 1}")), xl(xb(b"public/page.html"), xb(b"<!DOCTYPE html><p>page</p>")), xl(xb(b"public/t.txt"), xb(b"text"))]
    for h in ([b"/data.json", b"/data%2Ejson", b"/data.json"], [b"/data%2Ejson", b"/data.json", b"/data%2ejson"], [b"/page.html", b"/p%61ge.html", b"/page%2Ehtml", b"/page.html"],
              [b"/t.txt", b"/t%2Etxt", b"/%74.txt", b"/t.txt"]):
        cases += mk_cases(rng, [], [pipe.req(t) for t in h], False, "spell/files", run=False, files=files)
    return cases


# ---- family 'rules' (seeded/C03-7): vary rule sets in which an exact rule stands next to wildcard rules that cover the same path and vary
# on OTHER headers.  extensions::RuleSet::get answers with the most specific rule (exact before wildcard, then the longer pattern: C14's
# theorem most_specific_rule, Model/RuleSet.v); the handlers honour the rule that applies to their path.
RULE_HDRS = [b"x-w", b"x-v", b"x-u"]


def applicable(patterns, path):
    """the pattern extensions::RuleSet::get must choose: the exact one, else the longest wildcard covering the path"""
    if path in patterns:
        return path
    ws = [p for p in patterns if p.endswith(b"*") and path.startswith(p[:-1])]
    return max(ws, key=len) if ws else None


def rules_cases(rng, tier):
    cases = []
    layouts = [([b"/lang", b"/lang*"], [b"/lang", b"/langx"]), ([b"/api", b"/api*", b"/a*"], [b"/api", b"/api/x", b"/ab"]),
               ([b"/lang*", b"/lang", b"/*"], [b"/lang", b"/other"]), ([b"/l/i.html", b"/l/*", b"/l*"], [b"/l/i.html", b"/l/j", b"/lx"]),
               ([b"/lang", b"/lang*", b"/lan*", b"/langu*"], [b"/lang", b"/language", b"/land"]),
               # seeded/C05-9: a wildcard whose text is as long as the exact path (prefix = path minus its last byte) ties with it when
               # rules are ordered by length alone, and wins or loses by the order of addition; '<path>*' is one longer
               ([b"/doc*", b"/docs"], [b"/docs", b"/docx"]), ([b"/docs", b"/doc*", b"/docs*"], [b"/docs", b"/docs/a", b"/doc"])]
    n = 0
    for patterns, pages in layouts:
        for rep in range(2 if tier == "quick" else 12):
            order = list(patterns)
            if rep == 1:
                order.reverse()            # both orders of addition of every layout even in the quick tier
            elif rep > 1:
                rng.shuffle(order)
            tuples = {}
            hdrs = RULE_HDRS[:]
            rng.shuffle(hdrs)
            for i, p in enumerate(order):
                # every pattern varies on its own header (a wildcard sometimes on none)
                tuples[p] = [] if (p.endswith(b"*") and rng.random() < 0.2) else [(hdrs[i % 3], rng.choice([0, 0, 1, 2]), b"d%d" % i)]
            vary = [pipe.vary_rule(p, tuples[p]) for p in order]
            hs = []
            for pg in pages:
                ap = applicable(patterns, pg)
                hs.append(pipe.H(pg, kind=3, body=b"P" + pg, spref=rng.choice([1, 2, 2]), tuple_=tuples[ap] if ap else [], cpref=0))
            vals = [b"a", b"zz", b"N", b"abc"]
            if rep == 0:
                # the exact page with two values of ITS header, then the values of the wildcards' headers
                pg = pages[0]
                own = tuples[applicable(patterns, pg)]
                h = own[0][0] if own else b"x-w"
                ops = [pipe.req(pg, headers=[(h, b"a")]), pipe.req(pg, headers=[(h, b"zz")]), pipe.req(pg, headers=[(h, b"a")]),
                       pipe.req(pages[1], headers=[(x, b"N") for x in RULE_HDRS]), pipe.req(pg, headers=[(x, b"N") for x in RULE_HDRS])]
            else:
                ops = []
                for j in range(rng.randrange(4, 10)):
                    pg = rng.choice(pages[:1] * 3 + pages)
                    if rng.random() < 0.06:
                        ops.append(pipe.clear_page(pg))
                        continue
                    ops.append(pipe.req(pg, method=rng.choice([b"GET", b"GET", b"GET", b"HEAD", b"POST"]),
                                        headers=[(x, rng.choice(vals)) for x in RULE_HDRS if rng.random() < 0.7]))
            cases += mk_cases(rng, hs, ops, rng.random() < 0.3, "rules", vary=vary, pair=True, nocache_run=(tier != "quick" or n % 3 == 0), expect_wf=True)
            n += 1
    return cases


# ---- family 'expand' (seeded/C03-8): default extensions on, a vary rule on the page a short spelling expands to ('/' -> '/index.html',
# '/a/' -> '/a/index.html', '/a.' -> '/a.html'), the item entering the cache through the short or the long spelling, then other header values.
EXPANSIONS = [(b"/", b"/index.html"), (b"/a/", b"/a/index.html"), (b"/a.", b"/a.html"), (b"/index.", b"/index.html")]


def expand_cases(rng, tier):
    cases = []
    for short, long_ in EXPANSIONS:
        for rep in range(2 if tier == "quick" else 10):
            tup = [(b"x-w", rng.choice([0, 0, 1, 2]), b"dw")] + ([(b"x-v", 0, b"dv")] if rng.random() < 0.3 else [])
            sp = rng.choice([1, 2, 2])
            hs = [pipe.H(long_, kind=3, body=b"L" + long_, spref=sp, tuple_=tup, cpref=0),
                  pipe.H(b"/plain", kind=0, body=b"plain", spref=2, cpref=0)]
            vary = [pipe.vary_rule(long_, tup)]
            if rng.random() < 0.3:
                vary.append(pipe.vary_rule(short, [(b"x-u", 0, b"du")]))      # a rule on the short spelling: never applies (the URI is rewritten first)
            H = lambda v: [(b"x-w", v)]
            if rep == 0:
                ops = [pipe.req(short, headers=H(b"a")), pipe.req(short, headers=H(b"zz")), pipe.req(long_, headers=H(b"N")),
                       pipe.req(short, headers=H(b"a")), pipe.req(long_, headers=H(b"zz"))]
            else:
                ops = []
                for j in range(rng.randrange(3, 9)):
                    u = rng.choice([short, short, long_, b"/plain"])
                    r = rng.random()
                    if r < 0.08:
                        ops.append(pipe.clear_page(rng.choice([short, long_])))
                    else:
                        ops.append(pipe.req(u + (rng.choice([b"", b"?x=1"]) if sp == 1 else b""), method=rng.choice([b"GET", b"GET", b"GET", b"HEAD", b"POST"]),
                                            headers=[(b"x-w", rng.choice([b"a", b"zz", b"N", b"abc"]))] if rng.random() < 0.85 else []))
            cases += mk_cases(rng, hs, ops, True, "expand", vary=vary, pair=True, nocache_run=(tier != "quick"), expect_wf=True)
    return cases


def ovrules_cases(rng, tier):
    """an override Prime (header x-int -> internal route /./int) on a host whose page AND internal route have vary rules on different
    headers: the item of the internal route is keyed, and its variants are told apart, by the internal URI and ITS rules"""
    cases = []
    for rep in range(3 if tier == "quick" else 25):
        tp = [(b"x-w", rng.choice([0, 1, 2]), b"dw")]
        ti = [(b"x-v", rng.choice([0, 0, 1]), b"dv")] if rng.random() < 0.8 else []
        hs = [pipe.H(b"/p", kind=3, body=b"page", spref=rng.choice([1, 2]), tuple_=tp, cpref=0),
              pipe.H(b"/./int", kind=3, body=b"internal", spref=rng.choice([1, 2, 2]), tuple_=ti, cpref=0)]
        vary = [pipe.vary_rule(b"/p", tp)] + ([pipe.vary_rule(b"/./int", ti)] if ti else [])
        if rng.random() < 0.4:
            vary.append(pipe.vary_rule(b"/*", [(b"x-u", 0, b"du")]))         # covered by the exact rules; applies to /./int when it has none
            if not ti:
                hs[1] = pipe.H(b"/./int", kind=3, body=b"internal", spref=2, tuple_=[(b"x-u", 0, b"du")], cpref=0)
        X = (b"x-int", b"1")
        if rep == 0:
            ops = [pipe.req(b"/p", headers=[(b"x-w", b"a")]), pipe.req(b"/p", headers=[(b"x-w", b"zz")]),
                   pipe.req(b"/p", headers=[X, (b"x-v", b"a"), (b"x-w", b"a")]), pipe.req(b"/p", headers=[X, (b"x-v", b"N"), (b"x-w", b"a")]),
                   pipe.req(b"/p", headers=[X, (b"x-v", b"a"), (b"x-w", b"zz")]), pipe.req(b"/p", headers=[(b"x-w", b"a"), (b"x-v", b"N")])]
        else:
            ops = []
            for j in range(rng.randrange(4, 10)):
                if rng.random() < 0.06:
                    ops.append(pipe.clear_page(rng.choice([b"/p", b"/./int"])))
                    continue
                hd = [(n, rng.choice([b"a", b"zz", b"N", b"abc"])) for n in (b"x-w", b"x-v", b"x-u") if rng.random() < 0.7]
                ops.append(pipe.req(b"/p", method=rng.choice([b"GET", b"GET", b"GET", b"HEAD", b"POST"]), headers=hd + ([X] if rng.random() < 0.5 else [])))
        cases += mk_cases(rng, hs, ops, False, "ovrules", vary=vary, pair=True, nocache_run=(tier != "quick"), expect_wf=True, ovprime=[xb(b"x-int"), xb(b"/./int")])
    return cases


# ---- family 'qmvar' (seeded/C03-10): one page whose variants declare DIFFERENT cache preferences — the handler's preference depends on the
# varied header: variant a is Full (static, independent of the query), variant b QueryMatters (echo of path?query).  The Full variant creates
# the item keyed by the path alone; a QueryMatters response — whether its request carries a query or not — must never join that item, because
# the lookup falls back from the PathQuery key to the Path key and would serve it for every query.
def qmvar_cases(rng, tier):
    import itertools
    cases = []
    Ra, Rb = [(b"x-view", b"plain")], [(b"x-view", b"detail")]
    for rep, (page, q1, q2) in enumerate([(b"/report", b"?id=7", b"?id=2"), (b"/v", b"?x=1", b"?x=2")]):
        A = pipe.H(page, kind=rng.choice([0, 4]), body=b"plain report:", spref=2, cpref=0, headers=[(b"x-h", b"A")])
        B = pipe.H(page, kind=1, body=b"detail of:", spref=1, cpref=0, headers=[(b"x-h", b"B")])
        xh = pipe.XH(page, b"x-view", [(b"plain", A, 0, 0), (b"detail", B, 0, 0)])
        vary = [pipe.vary_rule(page, [(b"x-view", 0, b"plain")])]
        full = lambda: pipe.req(page + rng.choice([b"", b"", q1]), headers=rng.choice([Ra, Ra, []]))      # absent header = the default = plain
        steps = [full(), pipe.req(page, headers=Rb), pipe.req(page + q1, headers=Rb)]
        hists = [[steps[i] for i in perm] + [pipe.req(page + q2, headers=Rb), pipe.req(page, headers=Rb), pipe.req(page + q1, headers=Rb)]
                 for perm in itertools.permutations(range(3))]
        # the query-less QueryMatters request first, the Full variant afterwards; the empty query ('/report?' is the query-less key)
        hists.append([pipe.req(page, headers=Rb), full(), pipe.req(page, headers=Rb), pipe.req(page + q1, headers=Rb), pipe.req(page + q1, headers=Ra)])
        hists.append([full(), pipe.req(page + b"?", headers=Rb), pipe.req(page + q1, headers=Rb), pipe.req(page + b"?", headers=Rb)])
        hists.append([full(), pipe.req(page, method=b"HEAD", headers=Rb), pipe.req(page + q2, headers=Rb), pipe.clear_page(page), pipe.req(page, headers=Rb),
                      pipe.req(page + q2, headers=Rb)])
        for k, ops in enumerate(hists):
            cases += mk_cases(rng, [], ops, rep == 1 and k % 2 == 0, "qmvar", xhs=[xh], vary=vary, nocache_run=(tier != "quick" or k % 3 == 0))
    # random histories: three variants (Full / QueryMatters / Full with another body), queries and no query, clears
    for i in range(12 if tier == "quick" else 300):
        page = b"/report"
        prefs = [2, 1, rng.choice([1, 2, 0])]
        behs = []
        for v, sp in zip([b"plain", b"detail", b"raw"], prefs):
            behs.append((v, pipe.H(page, kind=1 if sp == 1 else 0, body=v + b":", spref=sp, cpref=0, headers=[(b"x-h", v)]), 0, 0))
        xh = pipe.XH(page, b"x-view", behs)
        vary = [pipe.vary_rule(page, [(b"x-view", 0, b"plain")])]
        ops = []
        for j in range(rng.randrange(4, 11)):
            if rng.random() < 0.07:
                ops.append(pipe.clear_page(page + rng.choice([b"", b"?id=7"])))
                continue
            v = rng.choice([b"plain", b"detail", b"detail", b"raw", None])
            ops.append(pipe.req(page + rng.choice([b"", b"", b"?id=7", b"?id=2", b"?"]), method=rng.choice([b"GET", b"GET", b"GET", b"HEAD"]),
                                headers=[(b"x-view", v)] if v is not None else []))
        cases += mk_cases(rng, [], ops, False, "qmvar/random", xhs=[xh], vary=vary, pair=(i % 2 == 0), nocache_run=(tier != "quick"))
    return cases


# ---- family 'emptyhdr' (seeded/C03-11): a varied request header that is PRESENT with an empty (or whitespace-only) value goes through the
# rule's transformation like any other value — transformation("") is not the rule's default: lower-casing gives "", the class map "none", the
# length map "0", the constant map "k", the default is "dflt".  The tuple-echo handler renders exactly what the rule computes.
EMPTYISH = [b"", b"", b" ", b"\t", b"  "]


def emptyhdr_cases(rng, tier):
    cases = []
    for xf in (0, 1, 2, 3):
        for rep in range(2 if tier == "quick" else 8):
            d = rng.choice([b"dflt", b"sv", b"en"])
            two = rng.random() < 0.4
            tup = [(b"x-w", xf, d)] + ([(b"x-v", rng.choice([0, 1, 2]), b"dv")] if two else [])
            sp = rng.choice([1, 2, 2])
            hs = [pipe.H(b"/greet", kind=3, body=b"G", spref=sp, tuple_=tup, cpref=0)]
            vary = [pipe.vary_rule(b"/greet", tup)]
            none = lambda: pipe.req(b"/greet", headers=[(b"x-v", b"a")] if two and rng.random() < 0.5 else [])
            emp = lambda v=b"": pipe.req(b"/greet", headers=[(b"x-w", v)] + ([(b"x-v", b"a")] if two and rng.random() < 0.5 else []))
            if rep == 0:
                ops = [none(), emp(), none(), emp(), emp(b" "), pipe.req(b"/greet", headers=[(b"x-w", d)])]
            elif rep == 1:
                ops = [emp(), none(), emp(), pipe.req(b"/greet", headers=[(b"x-w", b"En")]), emp(b"\t"), none()]
            else:
                ops = []
                for j in range(rng.randrange(3, 9)):
                    if rng.random() < 0.06:
                        ops.append(pipe.clear_page(b"/greet"))
                        continue
                    r = rng.random()
                    ops.append(none() if r < 0.35 else emp(rng.choice(EMPTYISH)) if r < 0.8 else pipe.req(b"/greet", headers=[(b"x-w", rng.choice([d, b"a", b"N"]))]))
            cases += mk_cases(rng, hs, ops, rng.random() < 0.3, "emptyhdr", vary=vary, pair=True, nocache_run=(tier != "quick" or rep == 0), expect_wf=True)
    return cases


def mk_cases(rng, hs, ops, default_ext, kind, xhs=(), vary=(), pair=True, run=True, nocache_run=True, expect_wf=False, echo=None, **cfgkw):
    """expect_wf: the configuration is built to lie inside the domain of theorem fixture_cache_transparent (Model/CacheRules.v wf_fixture,
    evaluated by the model side as component pipex.wf); a scenario that does not is a generator error, reported loudly"""
    out = []
    kw = dict(default_ext=default_ext, handlers=hs, report=[xb(r) for r in REPORT], disable_ims=False, **cfgkw)
    if xhs:
        kw["xhandlers"] = list(xhs)
    if vary:
        kw["vary"] = list(vary)
    if run:
        for cache in ((True, False) if nocache_run else (True,)):
            c = pipe.cfg(cache=cache, **kw)
            out.append(Case("pipex.run", pipe.scenario(c, ops), "pipex.run_nocache" if cache else None,
                            {"kind": kind + ("/cache" if cache else "/nocache"), **({"echo": echo} if echo else {})}))
    if pair:
        out.append(Case("pipex.pair", pipe.scenario(pipe.cfg(cache=True, **kw), ops), "pipex.wf", {"kind": kind + "/pair", "expect_wf": expect_wf}))
    return out


def generate(rng, tier):
    cases = []
    # corpus: the query-key, method-class and path-expansion histories
    hs = handlers(rng, [2, 1, 2])
    corpus = [
        [pipe.req(b"/q"), pipe.req(b"/q?x=1"), pipe.req(b"/q?x=2"), pipe.req(b"/q"), pipe.req(b"/q?x=1")],
        [pipe.req(b"/a"), pipe.req(b"/a", method=b"OPTIONS"), pipe.req(b"/a", method=b"POST"), pipe.req(b"/a", method=b"HEAD"), pipe.req(b"/a?x=1")],
        [pipe.req(b"/a", method=b"OPTIONS"), pipe.req(b"/a"), pipe.req(b"/a")],
        [pipe.req(b"/a/"), pipe.req(b"/a/index.html"), pipe.req(b"/a."), pipe.req(b"/a.html"), pipe.req(b"/"), pipe.req(b"/index.html")],
        [pipe.req(b"/a/"), pipe.clear_page(b"/a/"), pipe.req(b"/a/"), pipe.req(b"/a/index.html"), pipe.clear_page(b"/a."), pipe.req(b"/a.html")],
        [pipe.req(b"/ab"), pipe.req(b"/a?b"), pipe.req(b"/a"), pipe.req(b"/ab")],
        [pipe.req(b"/a", headers=[(b"range", b"bytes=5-2")]), pipe.req(b"/a"), pipe.req(b"/a", headers=[(b"range", b"bytes=5-2")])],
        [pipe.req(b"/a/./b"), pipe.req(b"/a"), pipe.req(b"//a"), pipe.req(b"/a")],
        [pipe.req(b"/nohandler"), pipe.req(b"/nohandler"), pipe.req(b"/nohandler?x=1", method=b"POST")],
    ]
    for ops in corpus:
        for de in (False, True):
            cases += mk_cases(rng, hs, ops, de, "corpus")
    # corpus: the repaired defects — override key (custom Prime, default CORS denial with a permissive status filter), stream + vary
    page = pipe.H(b"/p", kind=0, body=b"page", spref=2, cpref=0)
    internal = pipe.H(b"/./int", kind=0, body=b"internal", spref=2, cpref=0)
    X = [(b"x-int", b"1")]
    cases += mk_cases(rng, [page, internal], [pipe.req(b"/p", headers=X), pipe.req(b"/p"), pipe.req(b"/p"), pipe.req(b"/p", headers=X), pipe.req(b"/./int")],
                      False, "corpus/override", ovprime=[xb(b"x-int"), xb(b"/./int")])
    O = [(b"origin", b"https://evil.example")]
    for sf in (0, 1):
        cases += mk_cases(rng, [page], [pipe.req(b"/p", headers=O), pipe.req(b"/p"), pipe.req(b"/p", headers=[(b"origin", b"http://localhost")]),
                                        pipe.req(b"/p", headers=O), pipe.req(b"/p")], True, "corpus/cors", sfilter=sf)
    A = pipe.H(b"/v", kind=0, body=b"a", spref=2, cpref=0)
    for st in (1, 2):
        xh = pipe.XH(b"/v", b"x-v", [(b"a", A, 0, 0), (b"b", pipe.H(b"/v", kind=0, body=b"b", spref=2, cpref=0), 0, st)])
        cases += mk_cases(rng, [], [pipe.req(b"/v", headers=[(b"x-v", b"a")]), pipe.req(b"/v", headers=[(b"x-v", b"b")]), pipe.req(b"/v", headers=[(b"x-v", b"b")])],
                          False, "corpus/stream-vary", xhs=[xh], vary=[pipe.vary_rule(b"/v", [(b"x-v", 0, b"a")])])
    Aq = pipe.H(b"/v", kind=0, body=b"static-a", spref=2, cpref=0)
    Bq = pipe.H(b"/v", kind=1, body=b"b:", spref=1, cpref=0)
    xh = pipe.XH(b"/v", b"x-v", [(b"a", Aq, 0, 0), (b"b", Bq, 0, 0)])
    Ra, Rb = [(b"x-v", b"a")], [(b"x-v", b"b")]
    cases += mk_cases(rng, [], [pipe.req(b"/v?x=1", headers=Ra), pipe.req(b"/v?x=1", headers=Rb), pipe.req(b"/v?x=2", headers=Rb), pipe.req(b"/v?x=2", headers=Ra),
                                pipe.req(b"/v?x=1", headers=Rb)], False, "corpus/qm-variant", xhs=[xh], vary=[pipe.vary_rule(b"/v", [(b"x-v", 0, b"a")])])
    # URIs whose PathQuery strings coincide but split differently (seeded/C03-3), both orders, handlers QueryMatters / Full / None
    cases += split_directed(rng, tier)
    cases += split_random(rng, 50 if tier == "quick" else 1500)
    # %-escaped spellings of a path (seeded/C03-6), exact next to wildcard vary rules (C03-7), vary rules on expanded paths (C03-8)
    cases += spell_cases(rng, tier)
    cases += rules_cases(rng, tier)
    cases += expand_cases(rng, tier)
    cases += ovrules_cases(rng, tier)
    # variants of one page with different cache preferences (seeded/C03-10), empty / blank values of varied headers (C03-11)
    cases += qmvar_cases(rng, tier)
    cases += emptyhdr_cases(rng, tier)
    nhist = 230 if tier == "quick" else 5000
    for i in range(nhist):
        prefs = [rng.choice([0, 1, 2]) for _ in range(3)]
        hs = handlers(rng, prefs)
        de = rng.random() < 0.5
        ov = (not de) and rng.random() < 0.25
        vh, xhs, rules = vary_pages(rng, False) if rng.random() < 0.6 else ([], [], [])
        kw = {}
        if ov:
            # contract: the internal route's answer is a function of ITS path (it is cached under /./int), so it must not echo the request URI
            hs = hs + [pipe.H(b"/./int", kind=rng.choice([0, 4]), body=b"internal:", spref=rng.choice([0, 1, 2]), cpref=0)]
            kw["ovprime"] = [xb(b"x-int"), xb(b"/./int")]
        if rng.random() < 0.15:
            kw["sfilter"] = 1
        ops = history(rng, rng.randrange(3, 14), origin=de, ovhdr=ov)
        cases += mk_cases(rng, hs + vh, ops, de, "random", xhs=xhs, vary=rules, pair=(i % 2 == 0), **kw)
    # real-vs-real only: what the model abstracts (406 answers, every header)
    for i in range(60 if tier == "quick" else 1500):
        hs = handlers(rng, [rng.choice([0, 1, 2]) for _ in range(3)])
        vh, xhs, rules = vary_pages(rng, False)
        de = rng.random() < 0.5
        cases += mk_cases(rng, hs + vh, history(rng, rng.randrange(4, 14), origin=de, ae406=True), de, "negotiation", xhs=xhs, vary=rules, run=False)
    # waits across a 2 s lifetime (entries expire in the middle of the history)
    for i in range(6 if tier == "quick" else 40):
        hs = [pipe.H(p, kind=0 if sp != 1 else 1, body=b"t:" + p + b":", spref=sp, headers=[(b"cache-control", b"max-age=2")] if rng.random() < 0.7 else [], cpref=0)
              for p, sp in ((b"/a", rng.choice([1, 2])), (b"/q", 1), (b"/ab", 2))]
        vh, xhs, rules = vary_pages(rng, True)
        ops = history(rng, rng.randrange(8, 13), timed=True)
        cases += mk_cases(rng, hs + vh, ops, False, "timed", xhs=xhs, vary=rules, pair=False, slack=SLACK)
    # harness trouble is not a verdict: a timed history that cannot be run within its slack (machine under load) is retried (3 attempts in the
    # harness, 3 runs by the driver), then counted and named as not executed; more than a quarter of them fails the run as a harness error
    global MAX_NOT_EXECUTED
    MAX_NOT_EXECUTED = max(4, sum(1 for c in cases if "timed" in c.meta.get("kind", "")) // 4)
    return cases


def _replies(out):
    return xparse(out)[1]


def _hdrs(h):
    return [p for p in h[1] if p[1][0] != ("B", b"last-modified")]


_WF = {}


def spec_ok(c, impl, spec):
    """reply of the caching host == reply of the cache-less model on status, reported headers, decoded body, identity body, stream.
    For the real-vs-real cases the 'spec' is the model's verdict wf_fixture on the configuration (does theorem fixture_cache_transparent
    apply?): recorded for the coverage figures and for harness_trouble; the real-vs-real comparison itself is extra_oracle's."""
    if c.comp == "pipex.pair":
        _WF[c.id] = spec
        return True
    try:
        a, b = _replies(impl), _replies(spec)
    except Exception:
        return False
    if len(a) != len(b):
        return False
    for x, y in zip(a, b):
        if x[0] == "L" and len(x[1]) == 7:
            if len(y[1]) != 7 or x[1][0] != y[1][0] or _hdrs(x[1][1]) != _hdrs(y[1][1]) or x[1][2] != y[1][2] or x[1][3] != y[1][3] \
                    or x[1][4] != y[1][4] or x[1][6] != y[1][6]:
                return False
    return True


def echo_oracle(c, impl):
    """the property read on the implementation's output alone, for hosts all of whose handlers echo the raw path (and non-empty query) of the
    request they were invoked for: every 200 answer to a GET names the path and query of ITS OWN request — an entry stored for one spelling
    or query is never served for another"""
    try:
        ops, replies = c.x[1][1][1], _replies(impl)
    except Exception:
        return None
    for i, (op, rp) in enumerate(zip(ops, replies)):
        f = op[1]
        if f[0] != ("N", 0) or f[2] != ("B", b"GET") or rp[0] != "L" or len(rp[1]) != 7 or rp[1][0] != ("N", 200):
            continue
        t = f[3][1]
        path, _, q = t.partition(b"?")
        want = c.meta["echo"] + path + (b"?" + q if q else b"")
        if rp[1][2] != ("B", want):
            return "op %d: GET %r answered 200 with body %r, which is not the echo of its own path and query (%r)" % (i, t, rp[1][2][1][:80], want)
    return None


def extra_oracle(c, impl):
    if c.comp == "pipex.run" and c.meta.get("echo"):
        return echo_oracle(c, impl)
    if c.comp != "pipex.pair":
        return None
    if impl != "(L)":
        try:
            d = xparse(impl)[1]
            import kv
            return "the host with response cache and the host without answer differently at op(s) " + "; ".join(
                "%s [%s]: cache %s / no cache %s" % (kv.pretty(x[1][0]), kv.pretty(x[1][1]), kv.pretty(x[1][2], 300), kv.pretty(x[1][3], 300)) for x in d[:3])
        except Exception:
            return "unparsable output of the real-vs-real comparison: " + impl[:200]
    return None


def out_of_domain(c, impl):
    return impl.startswith("(L (N 96)") or impl.startswith("(L (N 93)")


def harness_trouble(cases, impl, model):
    off = [c for c in cases if c.comp == "pipex.pair" and c.meta.get("expect_wf") and _WF.get(c.id) not in (None, "(N 1)")]
    if off:
        return "generator error: %d scenario(s) built for the domain of fixture_cache_transparent are rejected by wf_fixture (%s): %s" % (
            len(off), _WF.get(off[0].id), ", ".join("%s[%s]" % (c.id, c.meta.get("kind")) for c in off[:8]))
    timed = [c for c in cases if "timed" in c.meta.get("kind", "")]
    bad = [c for c in timed if (impl.get(c.id) or "").startswith("(L (N 93)")]
    if timed and len(bad) * 3 > len(timed):
        return "%d of %d timed histories could not be run within their timing slack (machine too loaded): %s" % (
            len(bad), len(timed), ", ".join("%s[%s]" % (c.id, c.meta.get("kind")) for c in bad[:12]))
    return None


def extra_coverage(cases, impl, model, spec):
    bad = [c for c in cases if (impl.get(c.id) or "").startswith("(L (N 93)")]
    pairs = [c for c in cases if c.comp == "pipex.pair"]
    wf = {}
    for c in pairs:
        k = c.meta.get("kind", "-").split("/")[0]
        a, b = wf.get(k, (0, 0))
        wf[k] = (a + (spec.get(c.id) == "(N 1)"), b + 1)
    return {"timing_not_executed": len(bad), "timing_not_executed_ids": [{"id": c.id, "kind": c.meta.get("kind")} for c in bad][:30],
            "real_vs_real_scenarios_inside_fixture_cache_transparent": {k: "%d of %d" % v for k, v in sorted(wf.items())}}


def signature(c, m):
    # non-trivial: at least one 200 with an empty handler log (a hit) in the model's prediction
    if "/cache" not in c.meta.get("kind", ""):
        return None
    try:
        for x in _replies(m):
            if x[0] == "L" and len(x[1]) == 7 and x[1][5][1] == [] and x[1][0][1] not in (400, 403, 404, 416):
                return "hit"
    except Exception:
        pass
    return None


def describe(c):
    import kv
    ops = c.x[1][1][1]
    return {"component": c.comp, "kind": c.meta.get("kind"), "ops": [kv.pretty(o, 120) for o in ops][:14]}
