"""C03 — a cache hit returns what recomputation would return."""
from kv import Case, xn, xb, xl, xlist, xbool, xparse, xtext
import pipe

ID = "C03"
MODULE = "C03"
IMPORTS = "Bytes RustInt Range CacheControl Cache CacheProofs"
PROFILES = ("dev",)
THEOREMS = [
    ("cache_transparent", None),
    ("cache_hit_same_class", None),
    ("cache_transparent_from_empty", None),
]
RULE = ("histories of requests/clears against kvarn::handle_cache in process: (a) host with response cache vs. the Coq cache model "
        "(correspondence: status, vary, last-modified presence, decoded body, identity body, handler invocation log per request), "
        "(b) host without response cache vs. the model run with cache off, (c) oracle: every reply of the caching host equals the reply of the "
        "cache-less model on status, body and identity body. Universe: paths {/, /a, /a/, /a., /ab, /a/b, /q, /nohandler} x queries "
        "{none, b, x=1, x=2} x methods {GET, HEAD, POST, OPTIONS, PUT} x Accept-Encoding/Range headers x all assignments of "
        "{None, QueryMatters, Full} to the handlers, with/without the default extensions (uri expansion of '/', 'dir/', 'name.'). "
        "distinct_nontrivial = distinct (history, model outcome) pairs containing at least one cache hit (empty handler log on a 200)")
ASSUMPTIONS = [
    "handlers honour their cache contract (theorem hypotheses: response is a function of method class, path, (query if QueryMatters), vary tuple; "
    "query-matters-ness is uniform per path; error responses are not cacheable); fixture handlers satisfy it by construction",
    "If-Modified-Since excluded here (C04 covers it): a cache-less server never answers 304",
    "moka is modelled as a finite map with read-your-writes; capacity (1024 entries) is never reached in a run",
    "sequential histories (one request at a time); the race between expiry and handle_vary_missing's second lookup is not modelled",
    "content negotiation is abstracted (C06): bodies are compared after decoding content-encoding with standard decoders",
]
TRUSTED = ["modelled: src/lib.rs handle_cache + handle_cache_helpers (get_cache, maybe_cache, handle_vary_missing), src/comprash.rs UriKey/PathQuery/"
           "MokaCache::{get_cache_item,insert,insert_cache_item}/ServerCachePreference::cache, src/host.rs clear_page/status filter, "
           "extensions.rs uri_redirect prime; handlers/vary rules are the fixture menu (harness/src/c00pipe.rs = Model/Fixture.v)"]
LEVEL_TEXT = ("Coq theorem cache_transparent: for every history of requests, clears and waits, under the handler contract, every reply of the "
              "caching server equals the reply of the cache-less server (status, headers, body sent, identity body), by an inductive invariant on "
              "the cache (each stored variant equals recomputation for every request that can select it); plus hit_same_class (an entry is only "
              "served to a request of the same path / query / method class / variant). Tied to /repo by a differential run of the real "
              "kvarn::handle_cache against the extracted model on generated histories, for hosts with and without the response cache.")
LEVEL_NOTE = ("Trusted: Coq kernel; extraction (sample re-checked in-kernel); hand transcription of handle_cache into Model/Cache.v validated by the "
              "differential run; moka as a finite map; sequential histories. No axioms.")
TECHNIQUE = "Coq proof (simulation by inductive invariant over all histories) + differential correspondence on kvarn::handle_cache"

PATHS = [b"/", b"/a", b"/a/", b"/a.", b"/ab", b"/a/b", b"/q", b"/nohandler", b"/a/index.html", b"/a.html", b"/index.html"]
QUERIES = [None, b"b", b"x=1", b"x=2"]
METHODS = [b"GET", b"GET", b"GET", b"HEAD", b"POST", b"OPTIONS", b"PUT"]
REPORT = [b"vary", b"?last-modified", b"x-h"]


def handlers(rng, prefs):
    hs = []
    hpaths = [b"/a", b"/q", b"/a/index.html", b"/a.html", b"/index.html", b"/ab", b"/a/b"]
    for i, p in enumerate(hpaths):
        sp = prefs[i % len(prefs)]
        kind = 1 if sp == 1 else rng.choice([0, 4])
        # contract: Full => independent of the query (static body naming the path); QueryMatters => echo path?query
        hs.append(pipe.H(p, kind=kind, body=b"" if kind == 1 else b"static:" + p + b":", spref=sp, headers=[(b"x-h", b"%d" % i)], cpref=rng.choice([0, 3])))
    return hs


def rand_request(rng, focus=None):
    p = rng.choice(focus) if focus and rng.random() < 0.8 else rng.choice(PATHS)
    q = rng.choice(QUERIES)
    t = p + (b"?" + q if q is not None else b"")
    hdrs = []
    if rng.random() < 0.3:
        hdrs.append((b"accept-encoding", rng.choice([b"gzip", b"br", b"zstd, gzip", b"identity", b"gzip;q=0.5, br"])))
    if rng.random() < 0.15:
        hdrs.append((b"range", rng.choice([b"bytes=0-3", b"bytes=5-2", b"bytes=2-", b"bytes=100-200"])))
    return pipe.req(t, method=rng.choice(METHODS), addr=rng.randrange(1, 4), headers=hdrs)


def history(rng, n):
    ops = []
    focus = rng.sample(PATHS, 2)
    for _ in range(n):
        r = rng.random()
        if r < 0.07:
            p = rng.choice(PATHS)
            q = rng.choice(QUERIES)
            ops.append(pipe.clear_page(p + (b"?" + q if q is not None else b"")))
        elif r < 0.10:
            ops.append(pipe.clear_all())
        else:
            ops.append(rand_request(rng, focus))
    return ops


def mk_cases(rng, hs, ops, default_ext, kind):
    out = []
    for cache in (True, False):
        c = pipe.cfg(cache=cache, default_ext=default_ext, handlers=hs, report=[xb(r) for r in REPORT], disable_ims=False)
        out.append(Case("pipe.run", pipe.scenario(c, ops), "pipe.run_nocache" if cache else None,
                        {"kind": kind + ("/cache" if cache else "/nocache")}))
    return out


def generate(rng, tier):
    cases = []
    # corpus: the query-key, method-class and path-expansion histories
    hs = handlers(rng, [2, 1, 2])
    corpus = [
        [pipe.req(b"/q"), pipe.req(b"/q?x=1"), pipe.req(b"/q?x=2"), pipe.req(b"/q"), pipe.req(b"/q?x=1")],
        [pipe.req(b"/a"), pipe.req(b"/a", method=b"OPTIONS"), pipe.req(b"/a", method=b"POST"), pipe.req(b"/a", method=b"HEAD"), pipe.req(b"/a?x=1")],
        [pipe.req(b"/a", method=b"OPTIONS"), pipe.req(b"/a"), pipe.req(b"/a")],
        [pipe.req(b"/a/"), pipe.req(b"/a/index.html"), pipe.req(b"/a."), pipe.req(b"/a.html"), pipe.req(b"/"), pipe.req(b"/index.html")],
        [pipe.req(b"/ab"), pipe.req(b"/a?b"), pipe.req(b"/a"), pipe.req(b"/ab")],
        [pipe.req(b"/a", headers=[(b"range", b"bytes=5-2")]), pipe.req(b"/a"), pipe.req(b"/a", headers=[(b"range", b"bytes=5-2")])],
        [pipe.req(b"/nohandler"), pipe.req(b"/nohandler"), pipe.req(b"/nohandler?x=1", method=b"POST")],
    ]
    for ops in corpus:
        for de in (False, True):
            cases += mk_cases(rng, hs, ops, de, "corpus")
    nhist = 400 if tier == "quick" else 6000
    for i in range(nhist):
        prefs = [rng.choice([0, 1, 2]) for _ in range(3)]
        hs = handlers(rng, prefs)
        ops = history(rng, rng.randrange(3, 14))
        cases += mk_cases(rng, hs, ops, rng.random() < 0.5, "random")
    return cases


def _replies(out):
    return xparse(out)[1]


def spec_ok(c, impl, spec):
    """reply of the caching host == reply of the cache-less model on status, decoded body, identity body."""
    try:
        a, b = _replies(impl), _replies(spec)
    except Exception:
        return False
    if len(a) != len(b):
        return False
    for x, y in zip(a, b):
        if x[0] == "L" and len(x[1]) == 6:
            if len(y[1]) != 6 or x[1][0] != y[1][0] or x[1][2] != y[1][2] or x[1][4] != y[1][4]:
                return False
    return True


def signature(c, m):
    # non-trivial: at least one 200 with an empty handler log (a hit) in the model's prediction
    if "/cache" not in c.meta.get("kind", ""):
        return None
    try:
        for x in _replies(m):
            if x[0] == "L" and len(x[1]) == 6 and x[1][0][1] == 200 and x[1][5][1] == []:
                return "hit"
    except Exception:
        pass
    return None


def describe(c):
    import kv
    ops = c.x[1][1][1]
    return {"component": c.comp, "kind": c.meta.get("kind"), "ops": [kv.pretty(o, 120) for o in ops][:14]}
