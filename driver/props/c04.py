"""C04 — only cacheable responses are stored, and never served past their lifetime."""
from kv import Case, xn, xb, xl, xlist, xbool, xparse, xtext
import pipe

ID = "C04"
MODULE = "C04"
IMPORTS = "Bytes RustInt Range CacheControl Cache CacheProofs Cache04Proofs"
PROFILES = ("dev",)
PER_SHARD = 3          # scenarios contain real sleeps: spread them over all cores
KERNEL_SAMPLE = 30
THEOREMS = [
    ("status_filter_exact", "forall s, status_filter_drop s = true <-> (100 <= s <= 199) \\/ s = 304 \\/ (400 <= s <= 499 /\\ s <> 404 /\\ s <> 410)"),
    ("admission_exact", "forall m f, may_store true m f = true <-> f_spref f <> SP_NONE /\\ get_or_head m = true /\\ "
     "status_filter_drop (f_status f) = false /\\ N.of_nat (length (f_body f)) < size_limit /\\ kvarn_none f = false"),
    ("kvarn_cache_control_none_refused", None),
    ("miss_stores_iff_admitted", None),
    ("never_stale", None),
    ("variant_push_keeps_expiry", None),
    ("cleared_is_miss", None),
    ("cleared_all_is_miss", None),
    ("not_found_is_recomputed", None),
    ("unsafe_or_non_get_is_recomputed", None),
    ("computed_once_while_fresh", None),
    ("not_modified_rule", None),
    ("not_modified_arithmetic", "forall t created, ims_fresh t created = true <-> "
     "(Z.of_N (created / 1000) <= t)%Z \\/ (t = Z.of_N (created / 1000) - 1)%Z /\\ created mod 1000 = 0"),
    ("lifetime_equation", None),
]
RULE = ("kvarn::handle_cache in process with handlers whose body carries their invocation number, against the Coq cache model "
        "(correspondence) and against expectations derived from the property text (oracle: must-recompute / must-not-recompute / "
        "status per request). (A) admission product: server preference x method x status x cache-control form x body size (incl. "
        "4 MiB-1 / 4 MiB) with three equal requests; (B) lifetimes: max-age=1 / kvarn-cache-control 1s / no-store,max-age=1 with real "
        "sleeps (hit at 0.4 s, recompute at 1.6 s; margins >= 0.4 s), clears of the page / host in between; (C) If-Modified-Since "
        "with the scenario start aligned to xx.5 s wall clock, dates start+k for k in -5..5 and garbage; (D) vary + max-age: a second "
        "variant must not extend the first one's lifetime. distinct_nontrivial = distinct scenarios whose model run contains a hit or a 304")
ASSUMPTIONS = [
    "times are nominal (sum of sleeps); every timing decision has a margin >= 0.4 s; the wall clock is the machine's",
    "streams (Prepare extensions that capture the connection) are not in the fixture menu: the model's stream=false case",
    "moka's eviction under capacity pressure is not modelled (<= 16 keys per run, capacity 1024)",
    "If-Modified-Since dates are generated relative to the aligned scenario start; the `time` crate's HTTP-date parser is abstracted to its result",
    "ServerCachePreference::MaxAge(d) ignores d (observation, outside the property's wording)",
]
TRUSTED = ["modelled: as C03, plus utils/src/parse.rs CacheControl::{from_cache_control, from_kvarn_cache_control, from_headers, store, as_freshness} "
           "byte for byte (Model/CacheControl.v)"]
LEVEL_TEXT = ("Coq theorems over the cache model for all states/requests/times: admission is exactly the property's conjunction (status filter list, "
              "GET/HEAD, declared preference, < 4 MiB, not kvarn-cache-control: none); whatever a lookup returns is within its lifetime; max-age=N "
              "parses to N seconds; variant pushes keep the absolute expiry; a clear makes the page a miss; misses / non-GET / unsafe requests "
              "always recompute; a stored response is served without recomputation by the next equal request while fresh; 304 iff a usable "
              "entry exists and date >= stored second (corner case spelled out). Tied to /repo by the differential run with counting handlers and real waits.")
LEVEL_NOTE = ("Trusted: Coq kernel; extraction (sample re-checked in-kernel); transcription of handle_cache/CacheControl validated differentially; "
              "real-time behaviour exercised only with ~1 s lifetimes. No axioms.")
TECHNIQUE = "Coq proof (lemmas over all cache states and times) + differential correspondence with counting handlers and timed histories"

REPORT = [b"?last-modified"]
CC_FORMS = {
    "none": [],
    "max-age=1000": [(b"cache-control", b"max-age=1000")],
    "no-store": [(b"cache-control", b"no-store")],
    "no-store,max-age=30": [(b"cache-control", b"no-store, max-age=30")],
    "public": [(b"cache-control", b"public, max-age=604800, immutable")],
    "kvarn-none": [(b"kvarn-cache-control", b"none")],
    "kvarn-none-sp": [(b"kvarn-cache-control", b" none ")],
    "kvarn-full": [(b"kvarn-cache-control", b"full")],
    "kvarn-1m": [(b"kvarn-cache-control", b"1m")],
    "kvarn-2h": [(b"kvarn-cache-control", b"2h"), (b"cache-control", b"no-store")],
    "garbage": [(b"cache-control", b"max-age=abc")],
    "kvarn-garbage": [(b"kvarn-cache-control", b"soon")],
    "two-max-age": [(b"cache-control", b"max-age=5, max-age=6")],
}
STATUSES = [200, 200, 204, 301, 304, 400, 403, 404, 405, 410, 418, 500]
FOUR_MIB = 4 * 1024 * 1024


def cacheable(spref, method, status, size, cc):
    """the property's text"""
    if spref == 0 or method not in (b"GET", b"HEAD"):
        return False
    if 100 <= status <= 199 or status == 304 or (400 <= status <= 499 and status not in (404, 410)):
        return False
    if size >= FOUR_MIB:
        return False
    if cc in ("kvarn-none", "kvarn-none-sp"):
        return False
    return True


def case(c, ops, kind, expect):
    return Case("pipe.run", pipe.scenario(c, ops), None, {"kind": kind, "expect": expect})


def base_cfg(hs, **kw):
    return pipe.cfg(cache=True, handlers=hs, report=[xb(r) for r in REPORT], **kw)


def admission(rng, spref, method, status, size, cc):
    pad = b"x" * max(0, size - 3)
    body = pad + b"n="          # the counter adds one digit -> total size = size for counts < 10
    h = pipe.H(b"/c", kind=2, status=status, body=body, headers=CC_FORMS[cc], spref=spref, maxage=5, cpref=0, compress=False)
    methods = [method] * 3 + ([] if size > 100000 else [rng.choice([b"GET", b"HEAD", b"OPTIONS", b"POST", b"TRACE", b"PUT"]) for _ in range(4)])
    ops = [pipe.req(b"/c", method=m) for m in methods]
    expect = []
    stored = False
    for m in methods:
        ok = cacheable(spref, m, status, size, cc)
        if m in (b"GET", b"HEAD") and stored:
            expect.append(("hit", status))
        else:
            expect.append(("compute", status))
            stored = stored or ok
    ok = cacheable(spref, method, status, size, cc)
    return case(base_cfg([h]), ops, "admission/" + ("cacheable" if ok else "not-cacheable"), expect)


def lifetimes(rng):
    out = []
    for name, hdr in [("max-age=1", [(b"cache-control", b"max-age=1")]), ("kvarn-1s", [(b"kvarn-cache-control", b"1s")]),
                      ("no-store,max-age=1", [(b"cache-control", b"no-store, max-age=1")]),
                      ("max-age=2", [(b"cache-control", b"max-age=2")])]:
        L = 2000 if name == "max-age=2" else 1000
        h = pipe.H(b"/c", kind=2, body=b"n=", headers=hdr, spref=rng.choice([1, 2]), cpref=0)
        ops = [pipe.req(b"/c"), pipe.wait(400), pipe.req(b"/c"), pipe.wait(L - 400 + 600), pipe.req(b"/c"), pipe.req(b"/c", method=b"HEAD")]
        out.append(case(base_cfg([h]), ops, "lifetime/" + name, [("compute", 200), None, ("hit", 200), None, ("compute", 200), ("hit", 200)]))
    # clears
    h = pipe.H(b"/c", kind=2, body=b"n=", spref=2, cpref=0)
    h2 = pipe.H(b"/d", kind=2, body=b"m=", spref=1, cpref=0)
    ops = [pipe.req(b"/c"), pipe.req(b"/d?x=1"), pipe.req(b"/c"), pipe.clear_page(b"/c"), pipe.req(b"/c"), pipe.req(b"/d?x=1"),
           pipe.clear_page(b"/d?x=1"), pipe.req(b"/d?x=1"), pipe.req(b"/c"), pipe.clear_all(), pipe.req(b"/c"), pipe.req(b"/d?x=1")]
    exp = [("compute", 200), ("compute", 200), ("hit", 200), None, ("compute", 200), ("hit", 200), None, ("compute", 200), ("hit", 200),
           None, ("compute", 200), ("compute", 200)]
    out.append(case(base_cfg([h, h2]), ops, "clear", exp))
    # clearing the page with another query also clears the Full entry (stored under the bare path)
    ops = [pipe.req(b"/c?a=1"), pipe.clear_page(b"/c?zzz"), pipe.req(b"/c?a=1"), pipe.req(b"/d?x=1"), pipe.clear_page(b"/d?x=2"), pipe.req(b"/d?x=1")]
    out.append(case(base_cfg([h, h2]), ops, "clear", [("compute", 200), None, ("compute", 200), ("compute", 200), None, ("hit", 200)]))
    return out


def ims(rng):
    out = []
    h = pipe.H(b"/c", kind=2, body=b"n=", spref=2, cpref=0)
    for pre_wait in (0, 1000):
        base = pre_wait // 1000
        ks = [-5, -2, -1, 0, 1, 5]
        ops = [pipe.wait(pre_wait), pipe.req(b"/c")] if pre_wait else [pipe.req(b"/c")]
        exp = [None, ("compute", 200)] if pre_wait else [("compute", 200)]
        for k in ks:
            t = base + k
            v = b"@T+%d" % t if t >= 0 else b"@T-%d" % (-t)
            ops.append(pipe.req(b"/c", method=rng.choice([b"GET", b"HEAD"]), headers=[(b"if-modified-since", v)]))
            exp.append(("hit", 304 if k >= 0 else 200))
        ops.append(pipe.req(b"/c", headers=[(b"if-modified-since", b"yesterday")]))
        exp.append(("hit", 200))
        ops.append(pipe.req(b"/c", method=b"POST", headers=[(b"if-modified-since", b"@T+100")]))
        exp.append(("compute", 200))
        ops.append(pipe.req(b"/other", headers=[(b"if-modified-since", b"@T+100")]))
        exp.append((None, 404))
        for dis in (False, True):
            e2 = [(e[0], 200 if (dis and e[1] == 304) else e[1]) if e else None for e in exp]
            out.append(case(base_cfg([h], align=True, phase=500, disable_ims=dis), ops, "ims" + ("/disabled" if dis else ""), e2))
    return out


def vary_lifetime(rng):
    h = pipe.H(b"/v", kind=2, body=b"n=", headers=[(b"cache-control", b"max-age=1")], spref=2, cpref=0)
    c = pipe.cfg(cache=True, handlers=[h], report=[xb(r) for r in REPORT], vary=[pipe.vary_rule(b"/v", [(b"x-v", 0, b"d")])])
    A = [(b"x-v", b"a")]
    Bv = [(b"x-v", b"b")]
    ops = [pipe.req(b"/v", headers=A), pipe.wait(600), pipe.req(b"/v", headers=Bv), pipe.req(b"/v", headers=A), pipe.wait(900),
           pipe.req(b"/v", headers=A), pipe.req(b"/v", headers=Bv)]
    exp = [("compute", 200), None, ("compute", 200), ("hit", 200), None, ("compute", 200), None]
    return [case(c, ops, "vary-lifetime", exp)]


def generate(rng, tier):
    cases = []
    # corpus: the defects repaired in /repo
    for cc in ("kvarn-none", "no-store,max-age=30", "kvarn-none-sp"):
        cases.append(admission(rng, 2, b"GET", 200, 10, cc))
    cases += lifetimes(rng) + ims(rng) + vary_lifetime(rng)
    n = 250 if tier == "quick" else 6000
    for _ in range(n):
        size = rng.choice([10, 10, 10, 49, 1000])
        cases.append(admission(rng, rng.choice([0, 1, 2, 3]), rng.choice([b"GET", b"GET", b"HEAD", b"POST", b"OPTIONS"]),
                               rng.choice(STATUSES), size, rng.choice(list(CC_FORMS))))
    for size in (FOUR_MIB - 1, FOUR_MIB):
        for sp in ((2,) if tier == "quick" else (1, 2, 3)):
            cases.append(admission(rng, sp, b"GET", 200, size, "none"))
    if tier == "thorough":
        for _ in range(10):
            cases += lifetimes(rng) + ims(rng) + vary_lifetime(rng)
    return cases


def extra_oracle(c, impl):
    """expectations from the property text, evaluated on the implementation's output"""
    exp = c.meta.get("expect")
    if not exp:
        return None
    try:
        out = xparse(impl)[1]
    except Exception:
        return "unparsable output"
    if len(out) != len(exp):
        return "wrong number of results"
    for i, (e, o) in enumerate(zip(exp, out)):
        if e is None or o[0] != "L" or len(o[1]) != 6:
            continue
        want, status = e
        got_status = o[1][0][1]
        computed = len(o[1][5][1]) > 0
        if status is not None and got_status != status:
            return "op %d: status %d, the property demands %d" % (i, got_status, status)
        if want == "compute" and not computed:
            return "op %d: served from the cache, the property demands recomputation" % i
        if want == "hit" and computed:
            return "op %d: recomputed, the property demands one computation per key while fresh" % i
    return None


def signature(c, m):
    try:
        for x in xparse(m)[1]:
            if x[0] == "L" and len(x[1]) == 6 and (x[1][0][1] == 304 or (x[1][5][1] == [] and x[1][0][1] != 404)):
                return "hit"
    except Exception:
        pass
    return None


def describe(c):
    import kv
    ops = c.x[1][1][1]
    return {"component": c.comp, "kind": c.meta.get("kind"), "handlers": kv.pretty(c.x[1][0][1][1][1][1], 300),
            "ops": [kv.pretty(o, 100) for o in ops][:14], "expect": c.meta.get("expect")}
