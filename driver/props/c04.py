"""C04 — only cacheable responses are stored, and never served past their lifetime."""
import json
import os

from kv import Case, xn, xb, xl, xlist, xbool, xparse, xtext
import pipe

ID = "C04"
MODULE = "C04"
IMPORTS = "Bytes RustInt Range CacheControl Cache CacheProofs Cache04Proofs Fixture CacheX CacheXProofs CacheControlProofs CacheXWitness Hosts CacheClear CacheClearProofs"
PROFILES = ("dev",)
PER_SHARD = 3          # scenarios contain real sleeps: spread them over all cores
KERNEL_SAMPLE = 30
MAX_NOT_EXECUTED = 0   # no case may silently lose its implementation or model side (timing trouble is counted separately)
# every statement is pinned: `Check (name : statement)` on each run (driver/props/pins/C04.json, printed by Coq itself)
_PINS = json.load(open(os.path.join(os.path.dirname(os.path.abspath(__file__)), "pins", "C04.json")))
THEOREMS = [(n, _PINS[n]) for n in (
    "status_filter_exact", "admission_exact", "stream_never_stored", "kvarn_cache_control_none_refused", "miss_stores_iff_admitted",
    "stored_variants_admitted", "uncacheable_always_recomputed", "never_stale", "never_served_past_own_lifetime",
    "lifetime_equation", "lifetime_max_age_among", "lifetime_kvarn_unit",
    "cleared_is_miss", "cleared_page_is_recomputed", "cleared_all_is_miss", "not_found_is_recomputed", "unsafe_or_non_get_is_recomputed",
    "computed_once_history", "not_modified_rule", "not_modified_arithmetic",
    "fixture_collection_is_built", "clear_page_designation_exact", "clear_all_filter_exact", "cleared_page_by_designation_is_recomputed",
    "clear_reports_what_it_cleared", "cleared_host_by_filter_is_recomputed", "clear_by_other_name_is_noop", "clear_all_by_other_filter_is_noop",
    "designated_history_erases", "computed_once_designated_history", "designated_run_meets_spec", "designated_own_name_is_plain",
    "vary_push_admission_refuted", "variant_lifetime_refuted", "clear_unprimed_refuted", "ims_unstored_variant_refuted")]
RULE = ("kvarn::handle_cache in process (component pipex.run, harness/src/c04x.rs) with handlers whose body carries their invocation number, "
        "against the Coq cache model Model/CacheX.v (correspondence) and against expectations derived from the property text (oracle: "
        "must-recompute / must-not-recompute / status / stream per request). (A) admission product: server preference x method x status "
        "(every boundary of the filter: 100,101,199,200,204,301,303,304,305,399,400,403,404,405,409,410,411,418,499,500) x cache-control form x "
        "body size (incl. 4 MiB-1 / 4 MiB as a NUMBER of filler bytes, never materialised on the model side) x streamed / not x status filter "
        "(default, cache-all, only-200), three equal requests + random methods; (B) vary admission: a page with a vary rule whose second variant "
        "is not admissible (no server caching, 400, kvarn-cache-control none, 4 MiB, streamed) or shorter-lived; (C) lifetimes 2 s "
        "(max-age, kvarn N s, no-store+max-age, max-age among directives) probed at 0.5 s and 2.8 s (and max-age=0), a variant pushed 1.4 s into a 2 s "
        "lifetime must not restart it; every request timed by the harness: a "
        "scenario whose request started or ended more than `slack` late is run again (3 attempts) and then counted as not executed (never "
        "a violation); clears of the page / host / the page under its redirected URI / a page with BOTH its keys occupied (path?query and path) on "
        "each spelling; (C') the clears as their caller names the host (component pipex.rund, harness c04x.rs ops (L (N 1) target designation) / (L (N 2) (L [filter])), "
        "model Model/CacheClear.v over C15's collection model, specification component pipex.rund_spec): hosts named localhost / a.test / default, "
        "inserted or made the default host, clear_page by own name, \"\", \"default\", an unknown name, the name in upper case, the name with a trailing dot; "
        "clear_response_caches with no filter / own name / another name / \"\" / \"default\"; a host without response cache; random histories of "
        "requests and designated clears against a reference reading in Python (which requests are computed, what every clear answers); "
        "(D) If-Modified-Since with the scenario start aligned "
        "to xx.3 s wall clock; (E) kvarn_utils::parse::CacheControl called directly (cc.parse) on bounded-exhaustive and random header "
        "strings, compared with the byte-level model and an independent reference parser in Python. "
        "distinct_nontrivial = distinct scenarios whose model run contains a hit or a 304")
ASSUMPTIONS = [
    "times are nominal (sum of sleeps) on the model side; the harness measures every request and refuses (retries, then reports not-executed) "
    "a scenario in which a request started or ended more than 450 ms late; every timing decision has a margin >= 0.35 s beyond that slack "
    "(lifetime 2 s: 'fresh' probed at 0.5 s, 'expired' at 2.8 s / 3.0 s / 3.2 s)",
    "moka's eviction under capacity pressure is not modelled (<= 16 keys per run, capacity 1024)",
    "If-Modified-Since dates are generated relative to the aligned scenario start; the `time` crate's HTTP-date parser is abstracted to its result",
    "ServerCachePreference::MaxAge(d) ignores d (observation, outside the property's wording)",
    "sequential histories; the second lookup inside handle_vary_missing is collapsed (interleavings are C05's subject)",
    "the collection of the pipeline fixture holds ONE host (inserted or default): which host a clear reaches among several (alternative names, "
    "replaced hosts) is C15's subject (hosts.pipe; clear_page_target_eq / clear_all_targets_eq) — here the designation decides between this host and none",
    "clear_page(\"\" / \"default\", ..) answers found = false for a default host WITHOUT response cache while clear_page(<its name>, ..) answers "
    "found = true (observation, modelled as is; nothing is stored on such a host)",
    "kvarn-cache-control: N<unit> with N*unit >= 2^32 panics in a build with overflow checks (C02 known class kvarn-cache-control-overflow); "
    "the pipeline generators stay below, the direct component cc.parse compares the panic outcome too",
]
TRUSTED = ["modelled (Model/CacheX.v): src/lib.rs handle_cache + handle_cache_helpers {get_response's key, get_cache, maybe_cache, handle_vary_missing}, "
           "src/comprash.rs UriKey/PathQuery/MokaCache::{get_cache_item,insert,insert_cache_item}/server_cache_lifetime/ServerCachePreference::cache, "
           "src/host.rs clear_page (both branches: \"\"/\"default\" -> get_default, a name -> get_host) / clear_response_caches (with and without "
           "filter) / status filter, over the collection CollectionBuilder::{insert,default} builds (Model/CacheClear.v on Model/Hosts.v), extensions.rs uri_redirect_target; utils/src/parse.rs CacheControl::"
           "{from_cache_control, from_kvarn_cache_control, from_headers, store, as_freshness} byte for byte (Model/CacheControl.v); handlers, vary rules, "
           "override Prime and status filters are the fixture menu (harness/src/c00pipe.rs + c04x.rs = Model/Fixture.v + CacheX.v)"]
LEVEL_TEXT = ("Coq theorems over the full cache model (streams, body size as a number, the host's status filter, override URIs, vary variants) for ALL "
              "histories of requests, clears and waits: every variant the cache ever holds passed the admission test, which is exactly the property's "
              "conjunction (not streamed, declared preference, status filter = the property's list, GET/HEAD, < 4 MiB, not kvarn-cache-control: none) "
              "[stored_variants_admitted, admission_exact, status_filter_exact]; under the handler contract a non-admissible response is recomputed by every "
              "request — with or without If-Modified-Since — of every history [uncacheable_always_recomputed]; a variant found by a lookup was stored at most its OWN lifetime ago, also among "
              "longer-lived variants of the same page [never_served_past_own_lifetime]; max-age=N alone or among other directives and kvarn-cache-control "
              "N<unit> for every N, unit give N(*unit) seconds [lifetime_*]; a clear of the page (as given or as the default redirect rewrites it) or of "
              "the host makes the next request recompute — with the host named as the caller of Collection::clear_page / clear_response_caches names it: the "
              "designation reaches the host exactly when it is \"\"/\"default\" and the host is the default host or it is the host's name "
              "[clear_page_designation_exact], the filter exactly when absent or the host's name [clear_all_filter_exact]; a clear that reaches the host "
              "answers (found, cleared iff a key was occupied) and the next request is recomputed in every state [cleared_page_by_designation_is_recomputed, "
              "clear_reports_what_it_cleared, cleared_host_by_filter_is_recomputed]; a clear that names another host changes nothing "
              "[clear_by_other_name_is_noop, clear_all_by_other_filter_is_noop] and such clears — of the very page too — leave it computed once "
              "[computed_once_designated_history]; every designated history leaves the state of its erased plain history, so all theorems over all plain "
              "histories hold for designated ones [designated_history_erases]; the model component compared with the code is its specification run on "
              "every input and extends pipex.run [designated_run_meets_spec, designated_own_name_is_plain]; misses / non-GET / unsafe requests always recompute; after a response was stored, every history "
              "of other requests, waits and clears of other keys leaves the same request answered without recomputation until the deadline "
              "[computed_once_history]; 304 iff a usable entry exists, holds the variant the request selects and date >= stored second (corner case spelled out). Four "
              "defects of the code before its repair are proved as witnesses on the faithful old model (vary_push_admission_refuted, "
              "variant_lifetime_refuted, clear_unprimed_refuted, ims_unstored_variant_refuted). Tied to the repo worktree by the differential run with counting handlers and timed histories.")
LEVEL_NOTE = ("Trusted: Coq kernel; extraction (sample re-checked in-kernel); transcription of handle_cache/CacheControl validated differentially; "
              "real-time behaviour exercised only with 2 s lifetimes; computed_once_history assumes (named hypotheses) that error responses are not "
              "admissible and that the handler's responses for the path agree on query-matters-ness and outlive the deadline. No axioms.")
TECHNIQUE = "Coq proof (invariants over all histories of the cache model) + differential correspondence with counting handlers and timed histories"

REPORT = [b"vary"]      # last-modified is the cache's own stamp: not part of the property, not pinned
CC_FORMS = {
    "none": [],
    "max-age=1000": [(b"cache-control", b"max-age=1000")],
    "no-store": [(b"cache-control", b"no-store")],
    "no-store,max-age=30": [(b"cache-control", b"no-store, max-age=30")],
    "public": [(b"cache-control", b"public, max-age=604800, immutable")],
    "kvarn-none": [(b"kvarn-cache-control", b"none")],
    "kvarn-none-sp": [(b"kvarn-cache-control", b" none ")],
    "kvarn-full": [(b"kvarn-cache-control", b"full")],
    "kvarn-1m": [(b"kvarn-cache-control", b"1m")],
    "kvarn-2h": [(b"kvarn-cache-control", b"2h"), (b"cache-control", b"no-store")],
    "garbage": [(b"cache-control", b"max-age=abc")],
    "kvarn-garbage": [(b"kvarn-cache-control", b"soon")],
    "two-max-age": [(b"cache-control", b"max-age=5, max-age=6")],
    "kvarn-none+max-age": [(b"kvarn-cache-control", b"none"), (b"cache-control", b"max-age=1000")],
}
# every boundary of the default filter (400..=403 | 405..=409 | 411..=499 | 100..=199 | 304) and its neighbours
STATUSES = [200, 200, 200, 100, 101, 103, 199, 204, 301, 303, 304, 305, 399, 400, 403, 404, 405, 409, 410, 411, 418, 451, 499, 500, 503]
FOUR_MIB = 4 * 1024 * 1024
SLACK = 450


def status_dropped(status, sfilter):
    if sfilter == 1:
        return False
    if sfilter == 2:
        return status != 200
    return 100 <= status <= 199 or status == 304 or (400 <= status <= 499 and status not in (404, 410))


def cacheable(spref, method, status, size, cc, stream=0, sfilter=0):
    """the property's text"""
    if spref == 0 or method not in (b"GET", b"HEAD"):
        return False
    if status_dropped(status, sfilter):
        return False
    if stream:
        return False
    if size >= FOUR_MIB:
        return False
    if cc in ("kvarn-none", "kvarn-none-sp", "kvarn-none+max-age"):
        return False
    return True


def case(c, ops, kind, expect, comp="pipex.run"):
    return Case(comp, pipe.scenario(c, ops), None, {"kind": kind, "expect": expect})


def base_cfg(hs=(), **kw):
    return pipe.cfg(cache=True, handlers=list(hs), report=[xb(r) for r in REPORT], **kw)


def admission(rng, spref, method, status, size, cc, stream=0, sfilter=0):
    body = b"n="           # the counter adds one digit: total size = pad + 3 for counts < 10
    pad = max(0, size - 3)
    h = pipe.H(b"/c", kind=2, status=status, body=body, headers=CC_FORMS[cc], spref=spref, maxage=5, cpref=0, compress=False)
    xh = pipe.XH(b"/c", b"", [(b"", h, pad, stream)])
    methods = [method] * 3 + ([] if size > 100000 else [rng.choice([b"GET", b"HEAD", b"OPTIONS", b"POST", b"TRACE", b"PUT"]) for _ in range(4)])
    ops = [pipe.req(b"/c", method=m) for m in methods]
    expect = []
    stored = False
    for m in methods:
        ok = cacheable(spref, m, status, pad + 3, cc, stream, sfilter)
        if m in (b"GET", b"HEAD") and stored:
            expect.append(("hit", status, 0))
        else:
            expect.append(("compute", status, stream))
            stored = stored or ok
    ok = cacheable(spref, method, status, pad + 3, cc, stream, sfilter)
    kw = {"sfilter": sfilter} if sfilter else {}
    return case(base_cfg(xhandlers=[xh], **kw), ops, "admission/" + ("cacheable" if ok else "not-cacheable") +
                ("/stream" if stream else "") + ("/4MiB" if size > 100000 else "") + ("/filter%d" % sfilter if sfilter else ""), expect)


# ---- (B) vary: the second variant is admitted on its own terms ------------------------------------------
VARY = [pipe.vary_rule(b"/v", [(b"x-v", 0, b"d")])]
SECOND = {
    "cacheable": dict(),
    "spref-none": dict(spref=0),
    "status-400": dict(status=400),
    "status-101": dict(status=101),
    "status-500": dict(status=500),          # 5xx is cacheable under the default filter
    "kvarn-none": dict(headers=[(b"kvarn-cache-control", b"none")]),
    "4MiB": dict(pad=FOUR_MIB - 3),
    "4MiB-1": dict(pad=FOUR_MIB - 4),
    "stream": dict(stream=1),
    "stream-len": dict(stream=2),
}


def vary_admission(rng, name):
    kw = dict(SECOND[name])
    pad, stream = kw.pop("pad", 0), kw.pop("stream", 0)
    A = pipe.H(b"/v", kind=2, body=b"a=", spref=2, cpref=0, compress=False)
    Bh = pipe.H(b"/v", kind=2, body=b"b=", cpref=0, compress=False, **{"spref": 2, **kw})
    xh = pipe.XH(b"/v", b"x-v", [(b"a", A, 0, 0), (b"b", Bh, pad, stream)])
    c = base_cfg(xhandlers=[xh], vary=VARY)
    ra = pipe.req(b"/v", headers=[(b"x-v", b"a")])
    rb = pipe.req(b"/v", headers=[(b"x-v", b"b")], method=rng.choice([b"GET", b"HEAD"]))
    ok = cacheable(kw.get("spref", 2), b"GET", kw.get("status", 200), pad + 3, "kvarn-none" if "headers" in kw else "none", stream)
    st = kw.get("status", 200)
    ops = [ra, rb, rb, ra, rb]
    exp = [("compute", 200, 0), ("compute", st, stream), ("hit" if ok else "compute", st, 0 if ok else stream), ("hit", 200, 0),
           ("hit" if ok else "compute", st, 0 if ok else stream)]
    return case(c, ops, "vary-admission/" + name, exp)


def vary_lifetime(rng):
    """variant a never expires, variant b lives 2 s: b must be recomputed after 3.2 s although a is still there"""
    out = []
    for first, second in (([], [(b"cache-control", b"max-age=2")]), ([(b"cache-control", b"max-age=1000")], [(b"kvarn-cache-control", b"2s")]),
                          ([(b"cache-control", b"max-age=2")], [])):
        A = pipe.H(b"/v", kind=2, body=b"a=", spref=2, cpref=0, compress=False, headers=first)
        Bh = pipe.H(b"/v", kind=2, body=b"b=", spref=2, cpref=0, compress=False, headers=second)
        xh = pipe.XH(b"/v", b"x-v", [(b"a", A, 0, 0), (b"b", Bh, 0, 0)])
        c = base_cfg(xhandlers=[xh], vary=VARY, slack=SLACK)
        ra = pipe.req(b"/v", headers=[(b"x-v", b"a")])
        rb = pipe.req(b"/v", headers=[(b"x-v", b"b")])
        ops = [ra, rb, pipe.wait(500), rb, ra, pipe.wait(2700), rb, ra]
        # whichever variant carries the 2 s lifetime must be recomputed at 3.2 s; the other one may go with it (one lifetime per entry)
        exp = [("compute", 200, 0), ("compute", 200, 0), None, ("hit", 200, 0), ("hit", 200, 0), None,
               ("compute", 200, 0) if second else None, ("compute", 200, 0) if first and not second else None]
        out.append(case(c, ops, "vary-lifetime", exp))
    # a variant pushed 1.4 s after the entry was stored must not restart the entry's 2 s lifetime
    A = pipe.H(b"/v", kind=2, body=b"a=", spref=2, cpref=0, compress=False, headers=[(b"cache-control", b"max-age=2")])
    Bh = pipe.H(b"/v", kind=2, body=b"b=", spref=2, cpref=0, compress=False)
    xh = pipe.XH(b"/v", b"x-v", [(b"a", A, 0, 0), (b"b", Bh, 0, 0)])
    ra = pipe.req(b"/v", headers=[(b"x-v", b"a")])
    rb = pipe.req(b"/v", headers=[(b"x-v", b"b")])
    ops = [ra, pipe.wait(1400), rb, ra, pipe.wait(1600), ra]
    out.append(case(base_cfg(xhandlers=[xh], vary=VARY, slack=SLACK), ops, "vary-lifetime/restart",
                    [("compute", 200, 0), None, ("compute", 200, 0), ("hit", 200, 0), None, ("compute", 200, 0)]))
    return out


# ---- (C) lifetimes and clears ---------------------------------------------------------------------------
def lifetimes(rng):
    out = []
    forms = [("max-age=2", [(b"cache-control", b"max-age=2")]), ("kvarn-2s", [(b"kvarn-cache-control", b"2s")]),
             ("no-store,max-age=2", [(b"cache-control", b"no-store, max-age=2")]),
             ("among", [(b"cache-control", b"public, max-age=2 ,immutable")]),
             ("kvarn-2s+cc", [(b"kvarn-cache-control", b" 2s"), (b"cache-control", b"max-age=1000")])]
    for name, hdr in forms:
        h = pipe.H(b"/c", kind=2, body=b"n=", headers=hdr, spref=rng.choice([1, 2, 3]), cpref=0)
        # probes: 0.5 s (fresh) and 2.8 s — less than a whole second past the lifetime, so that an expiry test in whole seconds shows
        ops = [pipe.req(b"/c"), pipe.wait(500), pipe.req(b"/c"), pipe.wait(2300), pipe.req(b"/c"), pipe.req(b"/c", method=b"HEAD")]
        out.append(case(base_cfg([h], slack=SLACK), ops, "lifetime/" + name,
                        [("compute", 200, 0), None, ("hit", 200, 0), None, ("compute", 200, 0), ("hit", 200, 0)]))
    # max-age=0 / 0s: stored, but never served later (any later instant is more than 0 s after it was stored)
    for name, hdr in (("max-age=0", [(b"cache-control", b"max-age=0")]), ("kvarn-0s", [(b"kvarn-cache-control", b"0s")])):
        h = pipe.H(b"/c", kind=2, body=b"n=", headers=hdr, spref=2, cpref=0)
        ops = [pipe.req(b"/c"), pipe.wait(60), pipe.req(b"/c"), pipe.wait(60), pipe.req(b"/c", method=b"HEAD")]
        out.append(case(base_cfg([h]), ops, "lifetime/" + name, [("compute", 200, 0), None, ("compute", 200, 0), None, ("compute", 200, 0)]))
    return out


def clears(rng):
    out = []
    h = pipe.H(b"/c", kind=2, body=b"n=", spref=2, cpref=0)
    h2 = pipe.H(b"/d", kind=2, body=b"m=", spref=1, cpref=0)
    C, H_ = ("compute", 200, 0), ("hit", 200, 0)
    ops = [pipe.req(b"/c"), pipe.req(b"/d?x=1"), pipe.req(b"/c"), pipe.clear_page(b"/c"), pipe.req(b"/c"), pipe.req(b"/d?x=1"),
           pipe.clear_page(b"/d?x=1"), pipe.req(b"/d?x=1"), pipe.req(b"/c"), pipe.clear_all(), pipe.req(b"/c"), pipe.req(b"/d?x=1")]
    out.append(case(base_cfg([h, h2]), ops, "clear", [C, C, H_, None, C, H_, None, C, H_, None, C, C]))
    # clearing the page with another query also clears the Full entry (stored under the bare path)
    ops = [pipe.req(b"/c?a=1"), pipe.clear_page(b"/c?zzz"), pipe.req(b"/c?a=1"), pipe.req(b"/d?x=1"), pipe.clear_page(b"/d?x=2"), pipe.req(b"/d?x=1")]
    out.append(case(base_cfg([h, h2]), ops, "clear", [C, None, C, C, None, H_]))
    # keys: a Full response is one item whatever the query, a QueryMatters response one item per query
    ops = [pipe.req(b"/c?x=1"), pipe.req(b"/c?x=2"), pipe.req(b"/c"), pipe.req(b"/d?x=1"), pipe.req(b"/d?x=2"), pipe.req(b"/d?x=1"), pipe.req(b"/d"),
           pipe.req(b"/d?x=2", method=b"HEAD")]
    out.append(case(base_cfg([h, h2]), ops, "keys", [C, H_, H_, C, C, H_, C, H_]))
    # both keys of one page occupied: the handler says QueryMatters when asked with a query (x-k: q) and Full for the bare form;
    # requested with the query first and without it second. clear_page on either spelling: the next request for THAT spelling recomputes
    # (a surviving path-only entry would answer /p?q too: every lookup falls back from the path?query key to the path key)
    Q = pipe.H(b"/p", kind=2, body=b"q=", spref=1, cpref=0)
    F = pipe.H(b"/p", kind=2, body=b"form=", spref=2, cpref=0)
    xh = pipe.XH(b"/p", b"x-k", [(b"q", Q, 0, 0), (b"", F, 0, 0)])
    rq = pipe.req(b"/p?q=a", headers=[(b"x-k", b"q")])
    rf = pipe.req(b"/p")
    for cleared, after in ((b"/p?q=a", [(rq, C), (rf, None), (rq, H_)]), (b"/p", [(rf, C), (rq, None), (rf, H_)]),
                           (b"/p?other", [(rf, C), (rq, H_)])):
        ops = [rq, rf, rq, rf, pipe.clear_page(cleared)] + [r for r, _ in after]
        out.append(case(base_cfg(xhandlers=[xh]), ops, "clear/both-keys", [C, C, H_, H_, None] + [e for _, e in after]))
    # the page as the client names it ("/a/", "/a.", "/") is stored under the redirected URI: clearing either name clears it
    hs = [pipe.H(b"/a/index.html", kind=2, body=b"i=", spref=2, cpref=0), pipe.H(b"/a.html", kind=2, body=b"h=", spref=1, cpref=0),
          pipe.H(b"/index.html", kind=2, body=b"r=", spref=2, cpref=0)]
    for given, stored in ((b"/a/", b"/a/index.html"), (b"/a.", b"/a.html"), (b"/", b"/index.html")):
        q = rng.choice([b"", b"?x=1"])
        ops = [pipe.req(given + q), pipe.req(given + q), pipe.clear_page(given + q), pipe.req(given + q), pipe.req(stored + q),
               pipe.clear_page(stored + q), pipe.req(given + q), pipe.clear_all(), pipe.req(given + q)]
        out.append(case(base_cfg(hs, default_ext=True), ops, "clear/redirected", [C, H_, None, C, H_, None, C, None, C]))
    return out


# ---- (C') the clears as their caller names the host (component pipex.rund, Model/CacheClear.v) ---------------------
def dcase(c, ops, kind, expect):
    """model = pipex.rund; the specification component pipex.rund_spec (the two lookups read from the doc comments of
    src/host.rs) is evaluated on the same input: a difference is reported with this input as the replay"""
    return Case("pipex.rund", pipe.scenario(c, ops), "pipex.rund_spec", {"kind": kind, "expect": expect})


def designates(own, dflt, name):
    """clear_page's doc: "If host is "" or "default", the default host is used"; otherwise the host of that name"""
    return dflt if name in (b"", b"default") else name == own


def filter_reaches(own, flt):
    return flt is None or flt == own


def ref_history(own, dflt, ops):
    """reference reading of a history over the two counting handlers /c (Full: one item per path) and /d (QueryMatters: one
    item per path?query): which requests must be computed, what each clear must answer"""
    stored = set()
    exp = []
    for o in ops:
        if o[0] == "req":
            _, path, query = o
            # Full: the item of the path; QueryMatters: the item of path + query (no query = the empty query, NOT the path's item)
            key = ("P", path) if path == b"/c" else ("PQ", path, query or b"")
            if key in stored:
                exp.append(("hit", 200, 0))
            else:
                exp.append(("compute", 200, 0))
                stored.add(key)
        elif o[0] == "page":
            _, name, path, query = o
            if designates(own, dflt, name):
                keys = {("PQ", path, query or b""), ("P", path)}      # the uri as given and without its query
                exp.append(("clear", True, bool(stored & keys)))
                stored -= keys
            else:
                exp.append(("clear", False, False))
        else:
            if filter_reaches(own, o[1]):
                stored.clear()
            exp.append(None)
    return exp


def d_ops(ops):
    out = []
    for o in ops:
        if o[0] == "req":
            out.append(pipe.req(o[1] + (b"?" + o[2] if o[2] is not None else b"")))
        elif o[0] == "page":
            out.append(pipe.clear_page(o[2] + (b"?" + o[3] if o[3] is not None else b""), host=o[1]))
        else:
            out.append(pipe.clear_all(o[1], designated=True))
    return out


def designated_clears(rng, tier):
    out = []
    h = pipe.H(b"/c", kind=2, body=b"n=", spref=2, cpref=0)
    h2 = pipe.H(b"/d", kind=2, body=b"m=", spref=1, cpref=0)
    for own in (b"localhost", b"a.test", b"default"):
        for dflt in (False, True):
            kw = {} if own == b"localhost" else {"host": own}
            if dflt:
                kw["default_host"] = True
            c = base_cfg([h, h2], **kw)
            names = [own, b"", b"default", b"other.test", own.upper(), own + b"."]
            for name in names:
                ops = [("req", b"/c", None), ("req", b"/c", None), ("page", name, b"/c", None), ("req", b"/c", None),
                       ("req", b"/d", b"x=1"), ("page", name, b"/d", b"x=1"), ("req", b"/d", b"x=1"), ("page", name, b"/c", b"q"), ("req", b"/c", None)]
                out.append(dcase(c, d_ops(ops), "clear/by-name" + ("/default-host" if dflt else ""), ref_history(own, dflt, ops)))
            for flt in (None, own, b"other.test", b"", b"default", own.upper()):
                ops = [("req", b"/c", None), ("req", b"/c", None), ("req", b"/d", b"x=1"), ("all", flt), ("req", b"/c", None), ("req", b"/d", b"x=1")]
                out.append(dcase(c, d_ops(ops), "clear/filter" + ("/default-host" if dflt else ""), ref_history(own, dflt, ops)))
            # the host has no response cache: nothing is ever stored; the default branch then reports "not found"
            ops = [("req", b"/c", None), ("page", own, b"/c", None), ("page", b"default", b"/c", None), ("all", own), ("req", b"/c", None)]
            out.append(dcase(pipe.cfg(cache=False, handlers=[h, h2], report=[xb(r) for r in REPORT], **kw), d_ops(ops), "clear/no-cache",
                             [("compute", 200, 0), None, None, None, ("compute", 200, 0)]))
    # the default branch clears the page under the URI the default redirect rewrites it to as well ("/" is stored under "/index.html")
    hs = [pipe.H(b"/a/index.html", kind=2, body=b"i=", spref=2, cpref=0), pipe.H(b"/index.html", kind=2, body=b"r=", spref=2, cpref=0)]
    C, H_ = ("compute", 200, 0), ("hit", 200, 0)
    for given, stored in ((b"/a/", b"/a/index.html"), (b"/", b"/index.html")):
        for dflt in (False, True):
            q = rng.choice([b"", b"?x=1"])
            ops = [pipe.req(given + q), pipe.req(given + q), pipe.clear_page(given + q, host=b"default"), pipe.req(given + q),
                   pipe.clear_page(stored + q, host=b""), pipe.req(given + q), pipe.clear_all(b"localhost", designated=True), pipe.req(given + q)]
            kw = {"default_host": True} if dflt else {}
            exp = [C, H_, ("clear", True, True), C, ("clear", True, True), C, None, C] if dflt else \
                  [C, H_, ("clear", False, False), H_, ("clear", False, False), H_, None, C]
            out.append(dcase(base_cfg(hs, default_ext=True, **kw), ops, "clear/by-name/redirected", exp))
    # random histories of requests and designated clears
    n = 40 if tier == "quick" else 1500
    for _ in range(n):
        own = rng.choice([b"localhost", b"localhost", b"a.test", b"default", b"b.test"])
        dflt = rng.random() < 0.5
        kw = {} if own == b"localhost" else {"host": own}
        if dflt:
            kw["default_host"] = True
        names = [own, own, b"", b"default", b"other.test", b"localhost", b"a.test"]
        ops = []
        for _ in range(rng.randrange(4, 14)):
            r = rng.random()
            path, query = rng.choice([(b"/c", None), (b"/c", None), (b"/c", b"x=1"), (b"/d", None), (b"/d", b"x=1"), (b"/d", b"x=2")])
            if r < 0.6:
                ops.append(("req", path, query))
            elif r < 0.85:
                ops.append(("page", rng.choice(names), path, query))
            else:
                ops.append(("all", rng.choice([None] + names)))
        out.append(dcase(base_cfg([h, h2], **kw), d_ops(ops), "clear/designated-history", ref_history(own, dflt, ops)))
    return out


# ---- (D) If-Modified-Since ---------------------------------------------------------------------------------
def ims(rng):
    out = []
    h = pipe.H(b"/c", kind=2, body=b"n=", spref=2, cpref=0)
    for pre_wait in (0, 1000):
        base = pre_wait // 1000
        ks = [-5, -2, -1, 0, 1, 5]
        ops = [pipe.wait(pre_wait), pipe.req(b"/c")] if pre_wait else [pipe.req(b"/c")]
        exp = [None, ("compute", 200, 0)] if pre_wait else [("compute", 200, 0)]
        for k in ks:
            t = base + k
            v = b"@T+%d" % t if t >= 0 else b"@T-%d" % (-t)
            ops.append(pipe.req(b"/c", method=rng.choice([b"GET", b"HEAD"]), headers=[(b"if-modified-since", v)]))
            exp.append(("hit", 304 if k >= 0 else 200, 0))
        ops.append(pipe.req(b"/c", headers=[(b"if-modified-since", b"yesterday")]))
        exp.append(("hit", 200, 0))
        ops.append(pipe.req(b"/c", method=b"POST", headers=[(b"if-modified-since", b"@T+100")]))
        exp.append(("compute", 200, 0))
        ops.append(pipe.req(b"/other", headers=[(b"if-modified-since", b"@T+100")]))
        exp.append((None, 404, 0))
        for dis in (False, True):
            e2 = [(e[0], 200 if (dis and e[1] == 304) else e[1], e[2]) if e else None for e in exp]
            out.append(case(base_cfg([h], align=True, phase=300, slack=400, disable_ims=dis), ops, "ims" + ("/disabled" if dis else ""), e2))
    # a page with a vary rule: 304 only for the variant the entry holds; a variant that must not be stored (handler: no server caching)
    # or was never requested is computed although the client's date is not older than the entry
    A = pipe.H(b"/v", kind=2, body=b"a=", spref=2, cpref=0, compress=False)
    Bn = pipe.H(b"/v", kind=2, body=b"b=", spref=0, cpref=0, compress=False)
    Cc = pipe.H(b"/v", kind=2, body=b"c=", spref=2, cpref=0, compress=False)
    xh = pipe.XH(b"/v", b"x-v", [(b"a", A, 0, 0), (b"b", Bn, 0, 0), (b"c", Cc, 0, 0)])
    I = (b"if-modified-since", b"@T+0")
    ops = [pipe.req(b"/v", headers=[(b"x-v", b"a")]), pipe.req(b"/v", headers=[(b"x-v", b"b")]), pipe.req(b"/v", headers=[(b"x-v", b"b"), I]),
           pipe.req(b"/v", headers=[(b"x-v", b"c"), I]), pipe.req(b"/v", headers=[(b"x-v", b"c"), I]), pipe.req(b"/v", headers=[(b"x-v", b"a"), I])]
    out.append(case(base_cfg(xhandlers=[xh], vary=VARY, align=True, phase=300, slack=400), ops, "ims/vary",
                    [("compute", 200, 0), ("compute", 200, 0), ("compute", 200, 0), ("compute", 200, 0), ("hit", 304, 0), ("hit", 304, 0)]))
    return out


# ---- (E) CacheControl directly ---------------------------------------------------------------------------
UNITS = {ord("s"): 1, ord("m"): 60, ord("h"): 3600, ord("d"): 86400}
WS = b" \t"


def ref_u32(s):
    """Rust's u32::from_str"""
    if s[:1] == b"+":
        s = s[1:]
    if not s or not all(48 <= c <= 57 for c in s):
        return None
    v = int(s)
    return v if v <= 0xFFFFFFFF else None


def ref_cache_control(v):
    """reference reading of `cache-control` (independent of the Coq model): outcome ('ok', max_age, no_store) | ('err', n)"""
    max_age, no_store = None, False
    for seg in v.split(b","):
        t = seg.strip(WS)
        if t.startswith(b"no-store"):
            no_store = True
        elif t.startswith(b"max-age="):
            if max_age is not None:
                return ("err", 1)
            a = ref_u32(t[8:])
            if a is None:
                return ("err", 2)
            max_age = a
    return ("ok", max_age, no_store)


def ref_kvarn(v):
    t = v.strip(WS)
    if t == b"none":
        return ("ok", None, True)
    if t == b"full":
        return ("ok", None, False)
    if len(t) > 1 and 48 <= t[0] <= 57 and (65 <= t[-1] <= 90 or 97 <= t[-1] <= 122):
        i = ref_u32(t[:-1])
        if i is None:
            return ("err", 2)
        if t[-1] not in UNITS:
            return ("err", 3)
        if i * UNITS[t[-1]] > 0xFFFFFFFF:
            return ("panic",)
        return ("ok", i * UNITS[t[-1]], False)
    return ("err", 4)


def ref_text(o):
    if o[0] == "panic":
        return "(L (N 2))"
    if o[0] == "err":
        return "(L (N 1) (N %d))" % o[1]
    _, ma, ns = o
    store = (not ns) or (ma is not None and ma > 60)
    opt = "(L)" if ma is None else "(L (N %d))" % ma
    return "(L (N 0) (L %s (N %d) (N %d) %s))" % (opt, int(ns), int(store), opt)


CC_TOKENS = [b"max-age=", b"no-store", b",", b" ", b"1", b"60", b"61", b"+", b"=", b"s-maxage=", b"public", b"\t", b"MAX-AGE=", b"0",
             b"-1", b"x", b"4294967295", b"4294967296", b"max-age", b"no-storefront", b";", b"\"5\""]
KV_TOKENS = [b"none", b"full", b" ", b"\t", b"1", b"0", b"60", b"s", b"m", b"h", b"d", b"w", b"S", b"+", b"-", b"49710", b"49711", b"4294967295",
             b"4294967296", b"71582788", b"71582789", b"1193046", b"1193047", b"x", b"1.5"]


def cc_case(which, v, kind):
    if which == 2:
        x = xl(xn(2), xlist([xl(xb(k), xb(val)) for k, val in v]))
        hk = [val for k, val in v if k == b"kvarn-cache-control"]
        hc = [val for k, val in v if k == b"cache-control"]
        ref = ref_kvarn(hk[0]) if hk else (ref_cache_control(hc[0]) if hc else ("ok", None, False))
    else:
        x = xl(xn(which), xb(v))
        ref = ref_cache_control(v) if which == 0 else ref_kvarn(v)
    return Case("cc.parse", x, None, {"kind": kind, "ref": ref_text(ref)})


def cc_direct(rng, tier):
    out = []
    # bounded-exhaustive: all words of <= 2 tokens (quick) / <= 3 tokens (thorough)
    depth = 2 if tier == "quick" else 3
    for which, toks in ((0, CC_TOKENS), (1, KV_TOKENS)):
        words = [b""]
        frontier = [b""]
        for _ in range(depth):
            frontier = [w + t for w in frontier for t in toks]
            words += frontier
        if tier == "quick":
            words = words[:1 + len(toks)] + rng.sample(words[1 + len(toks):], min(350, len(words) - 1 - len(toks)))
        elif len(words) > 9000:
            words = words[:1 + len(toks) + len(toks) ** 2] + rng.sample(words[1 + len(toks) + len(toks) ** 2:], 6000)
        out += [cc_case(which, w, "cc/exhaustive") for w in words]
    n = 300 if tier == "quick" else 6000
    for _ in range(n):
        which = rng.choice([0, 0, 1, 2])
        if which == 0:
            segs = []
            for _ in range(rng.randrange(1, 5)):
                r = rng.random()
                if r < 0.45:
                    segs.append(rng.choice([b"", b" ", b"  ", b"\t"]) + b"max-age=" + rng.choice([b"", b"+", b"-", b" "]) +
                                str(rng.choice([0, 1, 59, 60, 61, 3600, 2 ** 32 - 1, 2 ** 32, rng.randrange(0, 10 ** 6)])).encode() +
                                rng.choice([b"", b"", b" ", b"s", b"\t"]))
                elif r < 0.65:
                    segs.append(rng.choice([b"no-store", b" no-store", b"no-store ", b"no-stores", b"No-Store", b"xno-store"]))
                else:
                    segs.append(rng.choice([b"public", b"private", b"immutable", b"s-maxage=5", b"max-age", b"must-revalidate", b"", b" ", b"max-age =5"]))
            out.append(cc_case(0, rng.choice([b",", b", ", b" ,", b",,"]).join(segs), "cc/random"))
        elif which == 1:
            n_ = rng.choice([0, 1, 2, 59, 60, 61, 49710, 49711, 1193046, 1193047, 71582788, 71582789, 2 ** 32 - 1, 2 ** 32, rng.randrange(0, 10 ** 7)])
            v = rng.choice([b"", b" ", b"\t "]) + rng.choice([b"", b"", b"+", b"0"]) + str(n_).encode() + rng.choice([b"s", b"m", b"h", b"d", b"w", b"S", b"", b"ms"]) + rng.choice([b"", b"", b" "])
            out.append(cc_case(1, v, "cc/random"))
        else:
            hs = []
            if rng.random() < 0.6:
                hs.append((b"kvarn-cache-control", rng.choice([b"none", b" none ", b"full", b"1m", b"2h", b"61s", b"soon", b"", b"5", b"49711d"])))
            if rng.random() < 0.8:
                hs.append((b"cache-control", rng.choice([b"max-age=5", b"no-store", b"no-store, max-age=61", b"no-store, max-age=60", b"max-age=5, max-age=6",
                                                         b"max-age=x", b"public", b""])))
            if rng.random() < 0.2 and hs:
                hs.append(hs[0][:1] + (b"max-age=9",))        # a second value of the same name: the first one counts
            rng.shuffle(hs)
            out.append(cc_case(2, hs, "cc/headers"))
    return out


def generate(rng, tier):
    cases = []
    # corpus: the defects repaired in the repo worktree
    for cc in ("kvarn-none", "no-store,max-age=30", "kvarn-none-sp"):
        cases.append(admission(rng, 2, b"GET", 200, 10, cc))
    for name in SECOND:
        cases.append(vary_admission(rng, name))
    cases += vary_lifetime(rng) + lifetimes(rng) + clears(rng) + designated_clears(rng, tier) + ims(rng)
    # every status of the list once with a cacheable preference, streams once per kind, the size boundary
    for st in sorted(set(STATUSES)):
        cases.append(admission(rng, rng.choice([1, 2, 3]), b"GET", st, 10, "none"))
    for stream in (1, 2):
        for sp in (0, 2):
            cases.append(admission(rng, sp, rng.choice([b"GET", b"HEAD"]), 200, rng.choice([0, 10]), "none", stream=stream))
    for size in (FOUR_MIB - 1, FOUR_MIB):
        for sp in ((2,) if tier == "quick" else (1, 2, 3)):
            cases.append(admission(rng, sp, b"GET", 200, size, "none"))
    for sf in (1, 2):
        for st in (200, 304, 403, 404, 500):
            cases.append(admission(rng, 2, b"GET", st, 10, "none", sfilter=sf))
    n = 230 if tier == "quick" else 6000
    for _ in range(n):
        size = rng.choice([3, 10, 10, 10, 49, 1000])
        cases.append(admission(rng, rng.choice([0, 1, 2, 3]), rng.choice([b"GET", b"GET", b"HEAD", b"POST", b"OPTIONS"]),
                               rng.choice(STATUSES), size, rng.choice(list(CC_FORMS)), stream=rng.choice([0, 0, 0, 0, 0, 1, 2]),
                               sfilter=rng.choice([0, 0, 0, 0, 0, 0, 1, 2])))
    cases += cc_direct(rng, tier)
    if tier == "thorough":
        for _ in range(8):
            cases += vary_lifetime(rng) + lifetimes(rng) + clears(rng) + ims(rng)
            for name in SECOND:
                cases.append(vary_admission(rng, name))
    return cases


def out_of_domain(c, impl):
    # (L (N 93) over) = the scenario could not be run under its timing constraints (after 3 attempts)
    return impl.startswith("(L (N 96)") or impl.startswith("(L (N 93)")


def harness_trouble(cases, impl, model):
    timed = [c for c in cases if c.comp == "pipex.run" and any(e[1][0] == ("B", b"slack") for e in c.x[1][0][1])]
    bad = [c for c in timed if (impl.get(c.id) or "").startswith("(L (N 93)")]
    if timed and len(bad) * 3 > len(timed):
        return "%d of %d timed scenarios could not be run within their timing slack (machine too loaded): %s" % (
            len(bad), len(timed), ", ".join("%s[%s]" % (c.id, c.meta.get("kind")) for c in bad[:12]))
    return None


def extra_coverage(cases, impl, model, spec):
    bad = [c for c in cases if (impl.get(c.id) or "").startswith("(L (N 93)")]
    return {"timing_not_executed": len(bad), "timing_not_executed_ids": [{"id": c.id, "kind": c.meta.get("kind"), "overshoot_ms": impl[c.id]} for c in bad][:30]}


def extra_oracle(c, impl):
    """expectations from the property text, evaluated on the implementation's output"""
    if c.comp == "cc.parse":
        ref = c.meta.get("ref")
        if ref is not None and impl != ref:
            return "CacheControl gives %s, the reference reading of the header gives %s" % (impl, ref)
        return None
    exp = c.meta.get("expect")
    if not exp:
        return None
    try:
        out = xparse(impl)[1]
    except Exception:
        return "unparsable output"
    if len(out) != len(exp):
        return "wrong number of results"
    for i, (e, o) in enumerate(zip(exp, out)):
        if e is not None and e[0] == "clear":
            if o[0] != "L" or len(o[1]) != 2:
                return "op %d: not the answer of a clear" % i
            got = (bool(o[1][0][1]), bool(o[1][1][1]))
            if got != (e[1], e[2]):
                return "op %d: clear_page answered (found, cleared) = %s, the designation and the history demand %s" % (i, got, (e[1], e[2]))
            continue
        if e is None or o[0] != "L" or len(o[1]) != 7:
            continue
        want, status, stream = e
        got_status = o[1][0][1]
        computed = len(o[1][5][1]) > 0
        if status is not None and got_status != status:
            return "op %d: status %d, the property demands %d" % (i, got_status, status)
        if want == "compute" and not computed:
            return "op %d: served from the cache, the property demands recomputation" % i
        if want == "hit" and computed:
            return "op %d: recomputed, the property demands one computation per key while fresh" % i
        if want is not None and o[1][6][1] != stream:
            return "op %d: stream flag %d, expected %d (a streamed response must reach the client as a stream)" % (i, o[1][6][1], stream)
    return None


def signature(c, m):
    if c.comp not in ("pipex.run", "pipex.rund"):
        return None
    try:
        for x in xparse(m)[1]:
            if x[0] == "L" and len(x[1]) == 7 and (x[1][0][1] == 304 or (x[1][5][1] == [] and x[1][0][1] != 404)):
                return "hit"
    except Exception:
        pass
    return None


def describe(c):
    import kv
    if c.comp not in ("pipex.run", "pipex.rund"):
        return {"component": c.comp, "kind": c.meta.get("kind"), "input": kv.pretty(c.x, 200)}
    ops = c.x[1][1][1]
    return {"component": c.comp, "kind": c.meta.get("kind"), "config": kv.pretty(c.x[1][0], 400),
            "ops": [kv.pretty(o, 100) for o in ops][:14], "expect": c.meta.get("expect")}
