"""C01 — Requests cannot read outside the public directory or reach internal routes."""
from kv import Case, xn, xb, xl, xlist, xopt, xbool
import kv

ID = "C01"
MODULE = "C01"
IMPORTS = "Bytes PathSan PathSanProofs PathSanServe PathSanServeProofs PathSanPipe PathSanPipeProofs"
PROFILES = ("dev",)
INSIDE = ("exists names : list bytes, names <> [] /\\ Forall (fun s => proper_name s = true) names /\\ "
          "descend (fst P) names = Some (File c)")
THEOREMS = [
    ("accepted_path_confined",
     "forall p : bytes, sanitize_path p = Ok tt -> exists (t : bytes) (pre : list bytes) (last_ : bytes), "
     "percent_decode p = c_slash :: t /\\ segments t = pre ++ [last_] /\\ Forall plain_seg pre /\\ "
     "(forall a b : list bytes, pre = a ++ b -> walk [] a = Some (rev (names_of a))) /\\ "
     "walk [] (segments t) = (if is_empty last_ || is_dot last_ then Some (rev (names_of pre)) "
     "else if is_dotdot last_ then match rev (names_of pre) with [] => None | _ :: st => Some st end "
     "else Some (last_ :: rev (names_of pre)))"),
    ("served_content_is_inside_public",
     "forall (p host public f : bytes) (root cwd P : pos) (c : bytes), sanitize_path p = Ok tt -> "
     "request_fs_path host public p = Ok (Some f) -> wf_pos root -> wf_pos cwd -> "
     "resolve_path root cwd (host ++ [c_slash] ++ public) = Some P -> read_path root cwd f = Some c -> " + INSIDE),
    ("served_file_is_inside_public",
     "forall (h : host_cfg) (root cwd P : pos) (m : meth) (ov : option bytes) (p : bytes) (r : reply) (ev : list event) (c : bytes), "
     "benign_host h -> wf_pos root -> wf_pos cwd -> resolve_path root cwd (h_path h ++ [c_slash] ++ h_public h) = Some P -> "
     "serve h (read_path root cwd) m ov None p = (r, ev) -> r_body r = Some c -> " + INSIDE),
    ("unsafe_is_rejected",
     "forall p : bytes, unsafe (percent_decode p) <-> sanitize_path p = Err E_UNSAFE"),
    ("unsafe_is_400_and_silent",
     "forall (h : host_cfg) (fs : bytes -> option bytes) (m : meth) (ov : option bytes) (cached : option reply) (p : bytes), "
     "unsafe (percent_decode p) -> let '(r, ev) := serve h fs m ov cached p in "
     "r_status r = 400 /\\ r_body r = None /\\ r_from_cache r = false /\\ silent ev"),
    ("internal_routes_unreachable",
     "forall p : bytes, sanitize_path p = Ok tt -> ~ has_dot_slash p /\\ ~ has_dot_slash (percent_decode p) /\\ "
     "(forall key : bytes, has_dot_slash key -> p <> key /\\ percent_decode p <> key)"),
    ("internal_prepare_only_via_prime",
     "forall (h : host_cfg) (fs : bytes -> option bytes) (m : meth) (cached : option reply) (p : bytes) (r : reply) "
     "(ev : list event) (key : bytes), benign_host h -> serve h fs m None cached p = (r, ev) -> "
     "In (EPrepareSingle key) ev \\/ In (EPrepareRun key) ev -> key = primed_path h p /\\ ~ has_dot_slash key"),
    ("one_decoding",
     "forall p d : bytes, decoded_for_use p = Some d -> "
     "decoded_for_check p = d /\\ util_percent_decode p = d /\\ d = percent_decode p"),
    ("accepted_path_never_panics",
     "forall host public p : bytes, sanitize_path p = Ok tt -> request_fs_path host public p <> Panic"),
    ("unsafe_reads_only_the_error_page",
     "forall (h : host_cfg) (rd : bytes -> option bytes) (on : bool) (fc : fcache) (m : meth) (ov : option bytes) (cached : option reply) (p : bytes), "
     "unsafe (percent_decode p) -> let '(r, ev, fc', os) := serve_st h rd on fc m ov cached p in "
     "r_status r = 400 /\\ r_body r = None /\\ r_from_cache r = false /\\ silent ev /\\ Forall (fun f => f = error_path h 400) os /\\ "
     "(forall k, k <> error_path h 400 -> fc_get k fc' = fc_get k fc)"),
    ("fcache_transparent",
     "forall (h : host_cfg) (rd : bytes -> option bytes) (on : bool) (fc : fcache) (m : meth) (ov : option bytes) (cached : option reply) (p : bytes), "
     "fc_coherent rd fc -> let '(r, ev, fc', os) := serve_st h rd on fc m ov cached p in "
     "(r, ev) = serve h rd m ov cached p /\\ fc_coherent rd fc' /\\ incl os (read_paths ev)"),
    ("error_page_path_is_constant",
     "forall (h : host_cfg) (rd : bytes -> option bytes) (on : bool) (fc : fcache) (m : meth) (ov : option bytes) (cached : option reply) (p : bytes), "
     "let '(r, ev, _, _) := serve_st h rd on fc m ov cached p in forall path, In (EErrRead path) ev -> path = error_path h (r_status r)"),
    ("error_page_content",
     "forall (h : host_cfg) (fs : bytes -> option bytes) (m : meth) (ov : option bytes) (p : bytes) (r : reply) (ev : list event) (c : bytes), "
     "serve h fs m ov None p = (r, ev) -> r_err r = Some c -> fs (error_path h (r_status r)) = Some c"),
    ("history_bodies_confined",
     "forall (f : front) (c : pcfg) (root cwd P : pos) (ops : list op), benign_host (pc_host c) -> wf_pos root -> wf_pos cwd -> "
     "pc_fs c = read_path root cwd -> resolve_path root cwd (h_path (pc_host c) ++ [c_slash] ++ h_public (pc_host c)) = Some P -> "
     "Forall (answer_ok c P) (run_history_with f (fmt_std c) c empty_state ops)"),
    ("unsafe_request_is_400_in_every_state",
     "forall (f : front) (c : pcfg) (st : pstate) (m t : bytes) (k : N) (p : bytes) (q : option bytes), f_uri f t = Some (p, q) -> "
     "unsafe (percent_decode p) -> fc_coherent (pc_fs c) (snd st) -> exists (body : bytes) (opens : list bytes) (fc' : fcache), "
     "step_request_with f (fmt_std c) c st m t k = (XL [XN 400; XB body; XL []; x_list XB opens], (fst st, fc')) /\\ "
     "(body = errpage \\/ pc_fs c (error_path (pc_host c) 400) = Some body) /\\ "
     "Forall (fun o => In o (open_name (pc_tree c) (error_path (pc_host c) 400))) opens /\\ "
     "(forall f0, f0 <> error_path (pc_host c) 400 -> fc_get f0 fc' = fc_get f0 (snd st))"),
    ("internal_routes_need_override",
     "forall (f : front) (c : pcfg) (st : pstate) (m t : bytes) (k : N), benign_host (pc_host c) -> "
     "override_of (pc_default_ext c) m (f_kind f t k) = None -> "
     "step_request_with f (fmt_std (strip_internal c)) (strip_internal c) st m t k = step_request_with f (fmt_std c) c st m t k"),
    ("opened_objects_confined",
     "forall (h : host_cfg) (rd : bytes -> option bytes) (tree : node) (on : bool) (fc : fcache) (m : meth) (ov : option bytes) "
     "(cached : option reply) (p : bytes) (r : reply) (ev : list event) (fc' : fcache) (os : list bytes) (f : bytes) (stP names : list bytes) (isdir : bool), "
     "benign_host h -> serve_st h rd on fc m ov cached p = (r, ev, fc', os) -> In f os -> "
     "cwalk tree [] (segments (h_path h ++ [c_slash] ++ h_public h)) = Some stP -> opened tree f = Some (names, isdir) -> "
     "f = error_path h (r_status r) \\/ isdir = true \\/ "
     "exists rel : list bytes, rel <> [] /\\ Forall (fun s => proper_name s = true) rel /\\ names = rev stP ++ rel"),
    ("read_is_opened",
     "forall (tree : node) (f c : bytes), starts_with [c_slash] f = true -> read_path (tree, []) (tree, []) f = Some c -> "
     "forall (names : list bytes) (isdir : bool), opened tree f = Some (names, isdir) -> isdir = false /\\ descend tree names = Some (File c)"),
    # the predicates the statements use, pinned with their bodies
    ("def_unsafe",
     "forall d : bytes, unsafe d <-> ((exists a b, d = a ++ [c_dot; c_slash] ++ b) \\/ ~ (exists r, d = c_slash :: r) \\/ "
     "(exists r, d = c_slash :: c_slash :: r))"),
    ("def_silent",
     "forall ev : list event, silent ev <-> forallb (fun e => negb match e with EPrepareSingle _ | EPrepareRun _ | EPrepareFn | EFsRead _ => true "
     "| _ => false end) ev = true"),
    ("def_benign_host",
     "forall h : host_cfg, benign_host h <-> "
     "((has_dot_slash_b (percent_decode (h_ext_default h)) = false /\\ hd_is c_slash (percent_decode (h_ext_default h)) = false) /\\ "
     "(has_dot_slash_b (percent_decode (h_folder_default h)) = false /\\ hd_is c_slash (percent_decode (h_folder_default h)) = false))"),
    ("def_fc_coherent",
     "forall (rd : bytes -> option bytes) (fc : fcache), fc_coherent rd fc <-> (forall k e, fc_get k fc = Some e -> e = rd k)"),
    ("def_read_paths",
     "forall ev : list event, read_paths ev = flat_map (fun e => match e with EFsRead f => [f] | EErrRead f => [f] | _ => [] end) ev"),
    ("def_answer_ok",
     "forall (c : pcfg) (P : pos) (x : xval), answer_ok c P x <-> match x with | XL [XN _; XB b; _; _] => "
     "b = errpage \\/ b = cors_denied \\/ b = [] \\/ (exists k s, In (k, (b, s)) (pc_handlers c)) \\/ "
     "(exists names : list bytes, names <> [] /\\ Forall (fun s => proper_name s = true) names /\\ descend (fst P) names = Some (File b)) \\/ "
     "(exists status : N, pc_fs c (error_path (pc_host c) status) = Some b) | _ => True end"),
    ("def_strip_internal",
     "forall c : pcfg, pc_handlers (strip_internal c) = pc_handlers c /\\ pc_fs (strip_internal c) = pc_fs c /\\ "
     "pc_tree (strip_internal c) = pc_tree c /\\ pc_host_header (strip_internal c) = pc_host_header c /\\ "
     "pc_cache (strip_internal c) = pc_cache c /\\ pc_fcache (strip_internal c) = pc_fcache c /\\ "
     "pc_default_ext (strip_internal c) = pc_default_ext c /\\ "
     "h_prepare_single (pc_host (strip_internal c)) = filter (fun k => negb (has_dot_slash_b k)) (h_prepare_single (pc_host c)) /\\ "
     "h_path (pc_host (strip_internal c)) = h_path (pc_host c) /\\ h_public (pc_host (strip_internal c)) = h_public (pc_host c) /\\ "
     "h_errors (pc_host (strip_internal c)) = h_errors (pc_host c) /\\ h_fs (pc_host (strip_internal c)) = h_fs (pc_host c) /\\ "
     "h_redirect (pc_host (strip_internal c)) = h_redirect (pc_host c) /\\ h_ext_default (pc_host (strip_internal c)) = h_ext_default (pc_host c) /\\ "
     "h_folder_default (pc_host (strip_internal c)) = h_folder_default (pc_host c)"),
    ("def_has_dot_slash_b",
     "forall d : bytes, has_dot_slash_b d = true <-> exists a b, d = a ++ [c_dot; c_slash] ++ b"),
]
RULE = ("(a) direct calls of kvarn_utils::parse::sanitize_request (on an http::Request built from the target), kvarn_utils::percent_decode, "
        "kvarn_utils::make_path and the path construction of get_response against the Coq model (correspondence) and against the "
        "executable specification 'percent-decoded bytes contain ./, do not start with /, or start with //' (oracle); targets are "
        "bounded-exhaustive over the token alphabet {/ . %2e %2E %2f %2F %5c %00 %25 %c0%af %ff a e-acute ..} (quick: all of length <= 4 "
        "after the leading '/', thorough: <= 6, evaluated in batches of 14^3), all token strings of length <= 3 without the leading '/', "
        "all strings of length <= 2 and random longer ones over a second alphabet of scheme / authority / separator tokens "
        "{/ . .. %2e %2f : @ [ ] * ? # a % http:// // localhost secret.txt \\ %41} and a hand-written list of absolute-form, authority-form, "
        "'*' and slash-less targets (http::Uri is modelled for every form: scheme, authority incl. userinfo / port / IPv6 brackets / percent rules, "
        "path, query, fragment), a hand-written list of traversal spellings, a full-detail sample, random longer targets, random mutations, "
        "arbitrary bytes; plus make_path, percent_decode on arbitrary text and from_utf8 / from_utf8_lossy on byte strings around every "
        "UTF-8 boundary. (b) the real request pipeline, in process: a kvarn Host over a fixture tree written to disk (files inside the public "
        "directory incl. sub-directories, index.html, *.html, names like '%2e%2e' and '..\\secret.txt', and 404.html / 400.html; SENTINEL "
        "files with the same base names in every directory from the run directory down to the parent of the public directory, in a "
        "sibling of it and in the errors directory; the operator's error pages <errors_dir>/400.html and 404.html in a part of the "
        "scenarios), with Extensions::new() (uri_redirect and CORS Prime extensions) or Extensions::empty(), public_data_dir in "
        "{default, pub, www/pub}, errors_dir in {default, err, err/pages}, extension_default / folder_default in {default, txt, a, a.html, "
        "sub/index.html, secret.txt, 'index.', percent-encoded and doubly percent-encoded spellings, empty, with a trailing '/'}, "
        "disable_fs, response cache on/off, file cache on/off, six path-bound Prepare handlers (server cache preference None / "
        "QueryMatters / Full) and a predicate-bound Prepare whose predicate logs that it was consulted; histories of 10-30 requests "
        "(GET/HEAD/POST/OPTIONS and rarer methods, no / same-site / foreign Origin header, with or without access-control-request-method, "
        "targets in every form, with and without query; in a part of the scenarios the client's Host header carries a piece of the "
        "path: 'localhost/..', 'localhost/%2e%2e', 'localhost?', ... — the fixture host is the collection's default host) and of steps that copy a response-cache entry to an arbitrary key go through the public "
        "kvarn::handle_cache; per request the status, the content-decoded body (kvarn's generated error page canonicalised by class: it IS "
        "what kvarn_utils::hardcoded_error_body generates for the status), the Prepare log AND the list of files and directories the "
        "server process opened below the run directory (inotify IN_OPEN on every directory of the fixture) are compared with "
        "PathSanServe.serve_st run over the same tree with the response cache and the file cache threaded through (Model/PathSanPipe.v "
        "run_history, correspondence) and checked by oracles that do not use the model: no body contains a sentinel; status is 400 "
        "exactly when the Coq specification unsafe_b(percent_decode path) holds and then the body is the generated or the operator's 400 "
        "page, no Prepare was consulted and nothing but the operator's 400 page was opened; 403/204/'CORS request denied' never answer a "
        "request for which no CORS Prime applies; a 200 body is a public file's or a handler's; an error body is generated or the "
        "operator's page for that status; every opened object lies below the public directory or is the operator's error page for the "
        "status of the answer (or, for a path ending in '..', the directory containing the public directory). A few scenarios use a host "
        "whose OWN options lead outside (folder_default '../secret.txt', '%2e%2e/secret.txt', ...): the Coq specification component "
        "reports the hypothesis benign_host as violated, the model must still predict the answers, the confinement oracles are not "
        "applied. (c) the same scenarios through the front door: HTTP/1.1 text (every target form) over a loopback connection whose "
        "server end is handed to the public kvarn::handle_connection (request parsing, host selection, handle_cache, SendKind::send), and "
        "over TLS + HTTP/2 (ALPN h2): with the h2 crate's client (origin-form ':path' incl. double encodings and queries) and with "
        "hand-written HEADERS frames (ANY text as ':path': without a leading '/', absolute form, '*', '?x' ...; what "
        "http::uri::PathAndQuery refuses is refused by the server's h2 layer and never becomes a request); compared with the "
        "same model (a HEAD answer has no body; a request answered by closing the connection / resetting the stream counts as refused) "
        "and checked by the same oracles. (d) the in-process history once more in a child harness process under 'strace -f -e "
        "trace=%file': per request the distinct path strings below the run directory handed to ANY file-related system call (open, "
        "stat, access, ..., successful or not) are compared with the model's list of paths handed to the operating system and checked: "
        "an unsafe request touches nothing but the operator's 400 page; with benign options every path string starts with the public "
        "directory or is the operator's error page. distinct_nontrivial counts distinct (component, input, model outcome class) triples; "
        "batch cases count once each, their targets are reported as targets_in_batches, pipeline requests as pipeline_requests")
ASSUMPTIONS = [
    "no symbolic links below or at the public directory and a case-sensitive POSIX file system (the tree model of theorems 1b/1c/2f/6)",
    "Unix: Path::is_relative() is 'does not start with /' (the model and the harness run on Linux)",
    "the operator's options extension_default / folder_default are benign (their percent-decoding contains no './' and does not start "
    "with '/'; true for the defaults 'html' and 'index.html', proved as benign_defaults) — hypothesis of theorems 1c, 2f, 3b, 6 and 8; "
    "that it is needed is proved (confinement_without_benign_host_refuted) and exercised (non-benign scenarios)",
    "the operator's error pages <host.path>/<errors_dir>/<status>.html lie outside the public directory by design and are sent as "
    "bodies of error answers: theorems 2e / 6 show that their path is a function of the host and of the status code only",
    "the files do not change while the server runs (fc_coherent: what the file cache holds is what the file system holds; established "
    "for the empty cache and preserved by every step)",
    "theorems 1c/3b/6/8 speak about the built-in Prime extensions ('Expand . and /', the two CORS reroutes of Extensions::new) and about "
    "Prime extensions returning a /./ override; other operator-written Prime/Prepare/Present extensions that build their own paths "
    "are outside the property (the fixture's Prepare handlers return fixed bodies)",
    "the URI of a request is what kvarn's HTTP/1 readers (kvarn_async::read::request, application::parse_http_1) and the in-process "
    "harness build: scheme '://' Host-header target, parsed by http::Uri (modelled in full: Model/PathSan.v uri_parse); over HTTP/2 the "
    "h2 crate builds it from ':scheme', ':authority' and ':path' (http::uri::PathAndQuery: must be '*' or start with '/', '?' or '#')",
    "the response cache and the file cache are finite maps with read-your-writes (moka; their capacities are never reached in a "
    "history); response-cache keys are UriKey::PathQuery / UriKey::Path with the QueryMatters rule; no If-Modified-Since, no Vary "
    "rules (C03/C04's subject); theorems 2b/2c/7 show both caches are bypassed for unsafe paths whatever they contain",
    "sequential histories (one request at a time); HTTP/1.1 without TLS and HTTP/2 over TLS through kvarn::handle_connection on a "
    "loopback connection (HTTP/3 builds the same http::Request and calls the same handle_cache, but is not driven here; the accept "
    "loop of RunConfig::execute is C10/C11/C12's subject)",
    "the file-system access probes see what the kernel reports: inotify IN_OPEN (every scenario) = successful open(2) of an object "
    "below the run directory; strace %file (a part of the in-process scenarios) = every path string passed to a file-related system "
    "call by the harness process; memory-mapped or io_uring access is not used by this build (feature uring off)",
]
TRUSTED = ["modelled: utils/src/parse.rs sanitize_request (path part), parse::uri; utils/src/lib.rs percent_decode, make_path; src/lib.rs "
           "handle_cache / get_response / handle_request / maybe_cache as far as sanitize result, cache keys (UriKey, query_matters) and "
           "filling, path construction, Prepare lookup and read_file are concerned; src/error.rs default (error-page path and read); "
           "src/read.rs file / file_cached (file-cache lookup, filling, negative entries); src/host.rs Options::get_errors_dir / "
           "get_public_data_dir, disable_fs, default_status_code_cache_filter; src/extensions.rs resolve_prime (uri_redirect), "
           "resolve_prepare; src/cors.rs with_disallow_cors and Cors::is_part_of_origin (when the two Prime extensions reroute, what the "
           "two internal handlers answer); http::Uri::from_shared (1.5.0: scheme, authority, path-and-query parsers); "
           "percent_encoding::percent_decode, core::str::from_utf8 and String::from_utf8_lossy are transcribed and compared with the "
           "real functions on every run",
           "the pipeline harness harness/src/c01pipe.rs (+ c00pipe.rs build_host / make_request / decode_body): fixture on disk under "
           ".run/<pid>-<n>/, request construction, canonicalisation of kvarn's generated error page (by comparison with "
           "kvarn_utils::hardcoded_error_body), content-decoding of bodies; the inotify reader (libc); for the loopback variants a listener "
           "owned by the harness for the whole scenario (the port is never released), a minimal HTTP/1.1 client (one request at a time, "
           "responses framed by content-length, 8 s timeouts), the h2 + tokio-rustls client and a minimal HTTP/2 client that writes its frames "
           "itself (HPACK literals; of the response it decodes :status and the DATA frames); for the system-call trace /usr/bin/strace "
           "and the parser of its -xx output; and the Python oracles in driver/props/c01.py (sentinel search, status-400 rule against the "
           "Coq spec component pathsanpipe.spec, CORS rule, opened-objects rule, system-call rule)"]
EXHAUSTIVE = False
KERNEL_SAMPLE = 40

TOKENS = [b"/", b".", b"%2e", b"%2E", b"%2f", b"%2F", b"%5c", b"%00", b"%25", b"%c0%af", b"%ff", b"a", "é".encode(), b".."]
XTOK = xlist([xb(t) for t in TOKENS])

# hand-written targets: every clause of the property and every known trick
DIRECTED = [
    b"/", b"/a", b"/a/b.txt", b"/index.html", b"/a/", b"/a/.", b"/a/..", b"/..", b"/.", b"/...", b"/..a", b"/a..", b"/a../b", b"/.a/b",
    b"/../secret.txt", b"/../../outside.txt", b"/a/../../secret.txt", b"/./cors_fail", b"/./cors_options", b"/%2e/cors_fail",
    b"/%2E/cors_options", b"/.%2fcors_fail", b"/%2e%2fcors_fail", b"/%2e%2e/secret.txt", b"/%2E%2E/secret.txt", b"/.%2e/secret.txt",
    b"/%2e./secret.txt", b"/..%2fsecret.txt", b"/..%2Fsecret.txt", b"/%2e%2e%2fsecret.txt", b"/..%5csecret.txt", b"/..\\secret.txt",
    b"/%252e%252e/secret.txt", b"/%252e%252e%252fsecret.txt", b"/%25252e%25252e/secret.txt", b"/..%252fsecret.txt",
    b"/%c0%ae%c0%ae/secret.txt", b"/%c0%ae%c0%ae%c0%afsecret.txt", b"/..%c0%afsecret.txt", b"/%e0%80%ae/secret.txt",
    b"/%2e/%ff", b"/%2e%2e/%ff/secret.txt", b"/%ff/../secret.txt", b"/%ff/%2e%2e/secret.txt", b"/%2f%ff", b"/%2fetc/passwd%ff",
    b"/%ff%2e%2e%2f%2e%2e%2fsecret.txt", b"/..%ff/secret.txt", b"/%2e%2e%ff/", b"/%80/./x", b"/%80/%2e/x",
    b"//", b"//etc/passwd", b"/%2fetc/passwd", b"/%2Fetc/passwd", b"///", b"/a//b", b"/a///", b"/%2f", b"/%2f%2f",
    b"/%00", b"/a%00.txt", b"/..%00/secret.txt", b"/%00/../secret.txt", b"/index.html%00", b"/%", b"/%2", b"/%2g", b"/%g2", b"/%%2e",
    b"/%2%2e", b"/%2e%", b"/%2e%2", b"/%.", b"/%./", b"/.%", b"/%25", b"/%252e", b"/%25%32%65", b"/%%32%65",
    b"*", b"a", b"example.com", b"..", b".", b"-", b"a.b-c", b"/?", b"/?a", b"/a?../b", b"/a?/../b#c", b"/a#/../b", b"/#", b"/a?b?c",
    b"/a?%ff", b"/a?\xff", "/é".encode(), "/é/../x".encode(), "/é?é#é".encode(), b"/\xc3", b"/\xe9", b"/a?\xc3\xa9", b"/%c3%a9", b"/%C3%A9",
    b"/%e9", b"/%ed%a0%80", b"/%f4%90%80%80", b"/%f0%9f%98%80", b"/\"{}", b"/a b", b"/a\tb", b"/<", b"/>", b"/^", b"/`", b"/|", b"/~", b"/!", b"/$&'()*+,;=:@",
    b"/[", b"/]", b"/\\", b"/\x7f", b"/\x00", b"", b"/a/./b", b"/a/.", b"/a/..", b"/a/b/..", b"/a/b/../", b"/a./b", b"/a/b.", b"/a/b..",
    b"/.html", b"/..html", b"/a/.hidden", b"/a/..hidden", b"/..%2e", b"/%2e%2e%2e", b"/%2e%2e.", b"/.%2e.", b"/a/%2e%2e", b"/a/%2e",
    b"/cors_fail", b"/./", b"/.//", b"/%2e/", b"/%2e%2f", b"/%2E%2F", b"/%2e%2F%2e%2E%2f", b"/a/%2e%2e/%2e%2e/%2e%2e/secret.txt",
    # spellings that only become a traversal when something after the check decodes once more, maps separators, or expands the
    # trailing '/' or '.' (the redirect Prime runs after sanitize_request)
    b"/%252e%252e/", b"/%252e%252e/index.html", b"/%252e%252e%252f", b"/%252e%252e/secret.", b"/%252e%252e%252fsecret.", b"/a/%252e%252e/%252e%252e/",
    b"/%252e%252e/%252e%252e/", b"/%252e%252e/%252e%252e/outside.txt", b"/..%5c", b"/..%5c/", b"/..%5csecret.", b"/..\\", b"/a/..%5c..%5csecret.txt",
    b"/%2e%2e%5csecret.txt", b"/..%255csecret.txt", b"/..%255c", b"/%252e%252e%255csecret.txt", b"/%252e/", b"/%252e%252f", b"/a%252f", b"/a%2f", b"/a%2e",
    b"/secret%2e", b"/secret%252e", b"/a/%2e", b"/%2e%2e", b"/..", b"/../", b"/...", b"/.../", b"/..;/secret.txt", b"/;/../secret.txt",
    b"/%2e%2e;/secret.txt", b"/a/..;/..;/secret.txt", b"/.%00./secret.txt", b"/%u002e%u002e/secret.txt", b"/%%32e%%32e/secret.txt",
    # encoded spellings of the fixture's path-bound handlers (/h, /h/index.html, /a/a.html, /aa.html): the Prepare table is keyed by the RAW path
    b"/h", b"/%68", b"/h/", b"/%68/", b"/h%2f", b"/h/index.html", b"/h/index%2ehtml", b"/a/a.html", b"/a/a%2ehtml", b"/a/a.", b"/a/%61.", b"/%61a.",
    b"/aa.", b"/aa.html", b"/%61%61.html", b"/h?x", b"/%68?x", b"/H",
]


def direct(t, kind):
    return Case("pathsan.direct", xb(t), "pathsan.direct_spec", {"kind": kind})


def batch(prefix, n, kind):
    return Case("pathsan.batch", xl(XTOK, xb(prefix), xn(n)), "pathsan.batch_spec", {"kind": kind, "targets": len(TOKENS) ** n})


def rand_target(rng):
    r = rng.random()
    if r < 0.55:
        n = rng.randrange(5, 30)
        t = b"/" + b"".join(rng.choice(TOKENS) for _ in range(n))
    elif r < 0.75:
        # mutate a directed target
        t = bytearray(rng.choice(DIRECTED) or b"/")
        for _ in range(rng.randrange(1, 4)):
            op = rng.randrange(3)
            pos = rng.randrange(len(t) + 1)
            ins = rng.choice(TOKENS + [b"%", b"2", b"e", b"?", b"#", b"%2", b"%e", b"\\", b"%C0", b"%AE", b"%ED%A0", b"%F4%90"])
            if op == 0:
                t[pos:pos] = ins
            elif op == 1 and t:
                del t[min(pos, len(t) - 1)]
            elif t:
                p = min(pos, len(t) - 1)
                t[p:p + 1] = ins
        t = bytes(t)
    elif r < 0.9:
        # escapes of arbitrary bytes between slashes and dots
        n = rng.randrange(1, 12)
        parts = []
        for _ in range(n):
            k = rng.random()
            if k < 0.35:
                parts.append(b"%%%02x" % rng.randrange(256) if rng.random() < 0.5 else b"%%%02X" % rng.randrange(256))
            elif k < 0.7:
                parts.append(rng.choice([b"/", b".", b"..", b"./", b"/."]))
            else:
                parts.append(bytes([rng.choice(b"abz09-_~%")]))
        t = b"/" + b"".join(parts)
    else:
        # arbitrary bytes (mostly refused by http::Uri)
        t = b"/" + bytes(rng.choice([rng.randrange(0x21, 0x7f), rng.randrange(256), 0x2e, 0x2f]) for _ in range(rng.randrange(1, 10)))
    if not t.startswith(b"/"):
        t = b"/" + t
    if rng.random() < 0.1:
        t += rng.choice([b"?", b"?a=b", b"?../..", b"#x", b"?a#b", b"?%ff", b"#/../"])
    return t


UTF8_EDGE = [0x00, 0x2e, 0x2f, 0x7f, 0x80, 0x8f, 0x90, 0x9f, 0xa0, 0xbf, 0xc0, 0xc1, 0xc2, 0xdf, 0xe0, 0xe1, 0xec, 0xed, 0xee, 0xef,
             0xf0, 0xf1, 0xf3, 0xf4, 0xf5, 0xff]


def rand_bytes(rng):
    n = rng.randrange(0, 9)
    return bytes(rng.choice(UTF8_EDGE) if rng.random() < 0.85 else rng.randrange(256) for _ in range(n))


def rand_text(rng):
    al = ["a", ".", "/", "é", "%", "2", "e", "F", "f", "%2e", "%ff", "%c3%a9", "%C3", "€", "😀", "..", "b.c", ""]
    return "".join(rng.choice(al) for _ in range(rng.randrange(0, 8))).encode()


# ------------------------------------------------------------------------------------------------
# pipeline part: the real kvarn::handle_cache / kvarn::handle_connection on a Host over a fixture tree on disk
# (harness/src/c01pipe.rs) against PathSanServe.serve_st over the same tree (Model/PathSanPipe.v), plus model-independent oracles
# ------------------------------------------------------------------------------------------------
SENTINEL = b"SENTINEL"
PUBLIC_DIRS = [b"public", b"pub", b"www/pub"]
# names chosen so that token strings, the default folder_default / extension_default expansion and single / double
# decodings hit them: a real file may be called "%2e%2e" or "..\secret.txt"; 404.html / 400.html also exist INSIDE the
# public directory (the basenames of the operator's error pages)
INSIDE = [b"index.html", b"a.html", b"secret.txt", b"secret.html", b"aa", b"a.a", b"%", b"\\", "é".encode(), "aé".encode(),
          b"a/index.html", b"a/a", b"a/a.html", b"a/b.txt", "a/é".encode(), b"a/aa/index.html", b"a/aa/a", b"a\\a", b"..\\secret.txt",
          b"%2e", b"%2f", b"%2e%2e/index.html", b"%2e%2e/secret.txt", b"%2e%2e/a", b"%2e%2e%2fsecret.txt", b".a/a", b"..a", b"a..",
          b"sub/index.html", b"sub/secret.html", b"sub/%2e%2e/index.html", b"404.html", b"400.html", b"a.txt", b"sub/a", b"a/sub/index.html"]
OUTSIDE_NAMES = [b"index.html", b"secret.txt", b"secret.html", b"a.html", b"aa", b"a.a", b"%", "é".encode(), b"outside.txt", b"html",
                 b"private/index.html", b"private/a", b"private/secret.txt", b"a.txt", b"a"]
# spref: 0 None, 1 QueryMatters, 2 Full
HANDLERS = [(b"/h", b"HANDLER-h", 2), (b"/a/a.html", b"HANDLER-a-a-html", 0), (b"/h/index.html", b"HANDLER-h-index", 2),
            (b"/aa.html", b"HANDLER-aa-html", 2), (b"/q", b"HANDLER-q", 1), (b"/q/index.html", b"HANDLER-q-index", 1)]
METHODS = [b"GET", b"HEAD", b"POST", b"OPTIONS"]
RARE_METHODS = [b"PUT", b"DELETE", b"PATCH", b"TRACE", b"CONNECT", b"FOO", b"get"]
INTERNAL_STATUS = (403, 204)
PIPE_COMPS = ("pathsanpipe.run", "pathsanpipe.wire", "pathsanpipe.h2", "pathsanpipe.h2raw")
SYS_COMP = "pathsanpipe.sys"    # the in-process history in a child process under strace: (status, path strings handed to file system calls)
SPEC_OF = {"pathsanpipe.run": "pathsanpipe.spec", "pathsanpipe.wire": "pathsanpipe.wire_spec", "pathsanpipe.h2": "pathsanpipe.h2_spec",
           "pathsanpipe.h2raw": "pathsanpipe.h2raw_spec",
           SYS_COMP: "pathsanpipe.spec"}
ALIAS = "alias"   # pseudo method of a history step (ALIAS, from, to): copy the response-cache entry under `from` to the key `to`
UNSAFE_TARGETS = [b"/../secret.txt", b"/./cors_fail", b"/./cors_options", b"//etc/passwd", b"/%2e%2e/secret.txt", b"/a/../index.html", b"/../",
                  b"/..%2fsecret.txt", b"/%2e/cors_fail", b"/a/./a", b"/../secret.", b"/.%2e/index.html", b"//", b"/%2f", b"/../../outside.txt",
                  b"/%2e%2e%2f", b"/./", b"/sub/../../secret.html", b"http://localhost/../secret.txt", b"//localhost/secret.txt",
                  b"/../errors/404.html", b"/%2e%2e/errors/404.html"]
CORS_DENIED = b"CORS request denied"
ERR_STATUSES = (400, 404, 405)
# host options (errors_dir, extension_default, folder_default); BENIGN: the hypothesis benign_host of the confinement theorems holds
BENIGN_OPTS = [(b"errors", b"html", b"index.html")] * 6 + [
    (b"err", b"html", b"index.html"), (b"err/pages", b"txt", b"a"), (b"errors", b"txt", b"sub/index.html"), (b"errors", b"a.html", b"secret.txt"),
    (b"errors", b"html", b"index."), (b"errors", b"%68tml", b"%69ndex.html"), (b"errors", b"", b""), (b"err", b"html/", b"a/"),
    # doubly encoded: benign as long as the option is decoded exactly once (with the path it was appended to)
    (b"errors", b"%2568tml", b"%252e%252e/secret.txt"), (b"errors", b"%252e%252e/secret.txt", b"%252e%252e%252fsecret.txt")]
# the operator's own configuration leads outside: the model predicts it (correspondence), the oracles are not applied; the Coq
# spec component says "not benign" for exactly these
NON_BENIGN_OPTS = [(b"errors", b"html", b"../secret.txt"), (b"errors", b"html", b"%2e%2e/secret.txt"), (b"errors", b"/../secret.txt", b"index.html"),
                   (b"errors", b"html", b"/index.html"), (b"errors", b"x/./y", b"index.html"), (b"errors", b"html", b"%2e/%2e%2e/secret.txt")]


def fixture_files(public, errors=b"errors", err_pages=True):
    files = []
    base = b"host/" + public + b"/"
    for n in INSIDE:
        files.append((base + n, b"PUB:" + n))
    # every directory from the run directory down to the parent of the public directory gets sentinel files
    levels = [b"", b"host/"]
    parts = public.split(b"/")
    for i in range(1, len(parts)):
        levels.append(b"host/" + b"/".join(parts[:i]) + b"/")
    for lv in levels:
        for n in OUTSIDE_NAMES:
            files.append((lv + n, SENTINEL + b":" + lv + n))
    # the errors directory: the operator's pages for some status codes (never a sentinel: they are meant to be sent) and
    # sentinel files beside them
    eb = b"host/" + errors + b"/"
    if err_pages:
        for st in (b"400", b"404"):
            files.append((eb + st + b".html", b"ERRFILE:" + st))
    for n in (b"index.html", b"secret.txt", b"405.txt", b"a"):
        files.append((eb + n, SENTINEL + b":" + eb + n))
    return files


_FIX = {}


def pipe_cfg(default_ext, cache, fcache, public, opts=BENIGN_OPTS[0], err_pages=True, nofs=False, hh=b"localhost"):
    key = (default_ext, cache, fcache, public, opts, err_pages, nofs, hh)
    if key not in _FIX:
        errors, ext, folder = opts
        _FIX[key] = xl(xbool(default_ext), xbool(cache), xbool(fcache), xb(public),
                       xlist([xl(xb(a), xb(b)) for a, b in fixture_files(public, errors, err_pages)]),
                       xlist([xl(xb(a), xb(b), xn(s)) for a, b, s in HANDLERS]),
                       xl(xb(errors), xb(ext), xb(folder), xbool(nofs), xb(hh)))
    return _FIX[key]


def pipe_case(cfgkey, reqs, kind, comp="pathsanpipe.run"):
    ops = [xl(xn(1), xb(t), xb(k)) if m is ALIAS else xl(xb(m), xb(t), xn(k)) for m, t, k in reqs]
    return Case(comp, xl(pipe_cfg(*cfgkey), xlist(ops)), SPEC_OF[comp],
                {"kind": kind, "requests": sum(1 for r in reqs if r[0] is not ALIAS), "cfg": cfgkey})


DOTDOT = [b"..", b"%2e%2e", b"%2E%2e", b".%2e", b"%2e.", b"%252e%252e", b"%252E%252E", b".%252e", b"%25252e%25252e", b"%c0%ae%c0%ae", b"..%00", b"...", b"."]
SEP = [b"/", b"/", b"%2f", b"%2F", b"%5c", b"%5C", b"\\", b"%252f", b"%255c", b"%c0%af", b"//", b"/./", b"%00/"]
LEAF = [b"secret.txt", b"index.html", b"", b"secret.", b"secret.html", b"outside.txt", b"a.html", b"a.", b"aa", b"private/", b"private/a", b"%",
        b"host/secret.txt", b"public/index.html", b"html", b".", b"%2e", b"%2f", b"%252e", b"%252f", b"errors/404.html", b"errors/secret.txt",
        b"errors/", b"a.txt", b"a"]
PREFIX = [b"", b"", b"a/", b"sub/", b"%2e%2e/", b"a/aa/", b"nonexistent/", b"%252e%252e/", b"a%2f", b"sub%5c"]
PTOKENS = TOKENS + [b"%252e", b"%252f", b"%255c", b"%5C", b"\\", b"%252E", b"%2e%2e", b"%25", b"secret.txt", b"secret", b"index.html", b"html", b"sub",
                    b"private", b"host", b"public", b"aa", b"h", b"a.html", b"index", b"?", b"?a", b"errors", b"404.html", b"q", b"txt"]
ENDINGS = [b"/", b".", b"%2e", b"%2f", b"%252e", b"%252f", b"/.", b"./", b"..", b"%2e/", b"/%2e", b"%5c", b"\\"]
QUERIES = [b"", b"?", b"?x=1", b"?x=2", b"?../..", b"?/../secret.txt", b"?x=1#f", b"#f", b"?%ff", b"?a?b"]
# request targets that are not in origin form: absolute form (any scheme, userinfo, port, IPv6 literal), authority form, "*",
# text without a leading '/': kvarn's HTTP/1 reader (and the in-process harness) glue the target to "http://<Host header>"
OTHER_FORMS = [b"*", b"/\xc3\xa9?\xc3\xa9#\xc3", b"/a#\xff", b"/a?\xff", b"/\xff", "/é#é".encode(), b"http://localhost/../secret.txt", b"http://localhost/index.html", b"http://localhost", b"http://localhost/", b"HTTP://LOCALHOST/a/b.txt",
               b"https://localhost/../secret.txt", b"http://other.example/../secret.txt", b"http://localhost:80/secret.txt", b"ftp://h/../x",
               b"http://u:p@localhost/../secret.txt", b"http://[::1]/../secret.txt", b"//localhost/../secret.txt", b"http:/../secret.txt",
               b"http:///../secret.txt", b"://x/../secret.txt", b"localhost", b"localhost:80", b"example.com", b"../secret.txt", b"..", b".", b"a",
               b"secret.txt", b"..%2fsecret.txt", b"%2e%2e/secret.txt", b"@evil/../x", b"@/../secret.txt", b":80/../secret.txt", b":/../secret.txt",
               b"?/../secret.txt", b"?x", b"#/../secret.txt", b"\\..\\secret.txt", b"[::1]/../secret.txt", b"[/../secret.txt", b"]/../x", b"a:b:c/../x",
               b"a%41/../x", b"u%41@h/../secret.txt", b"x@", b"x@/index.html", b".html", b"/..", b"*/../secret.txt", b"**", b"/*", b"h", b"q?x=1",
               b"http://localhost/q?x=1", b"http://localhost?x", b"http://localhost#/../x", b"ws://localhost/../x", b"a+b-c.d://h/../secret.txt",
               b"localhost/", b"localhost/../secret.txt", b"localhost//secret.txt", b".localhost/secret.txt", b"-/secret.txt"]
OTHER_TOKENS = [b"/", b".", b"..", b"%2e", b"%2f", b":", b"@", b"[", b"]", b"*", b"?", b"#", b"a", b"%", b"http://", b"//", b"localhost", b"secret.txt", b"\\", b"%41"]


def other_form_target(rng):
    r = rng.random()
    if r < 0.45:
        return rng.choice(OTHER_FORMS)
    if r < 0.7:
        pre = rng.choice([b"http://localhost", b"http://", b"https://localhost:8443", b"x://", b"", b"", b"localhost", b"@", b":", b"http://a@", b"http://[::1]"])
        return pre + rng.choice([climb_target(rng), token_target(rng, rng.random() < 0.5)])
    return b"".join(rng.choice(OTHER_TOKENS) for _ in range(rng.randrange(1, 6)))


def climb_target(rng):
    t = b"/" + rng.choice(PREFIX)
    for _ in range(rng.randrange(1, 4)):
        t += rng.choice(DOTDOT) + rng.choice(SEP)
    return t + rng.choice(LEAF)


def token_target(rng, ending=False):
    t = b"/" + b"".join(rng.choice(PTOKENS) for _ in range(rng.randrange(0, 7)))
    if ending:
        t += rng.choice(ENDINGS)
    return t


COMMON_TARGETS = [b"/", b"/index.html", b"/a/", b"/a/index.html", b"/a.", b"/a.html", b"/secret.txt", b"/secret.", b"/aa", b"/aa.", b"/h", b"/h/",
                  b"/a/a.", b"/a/a.html", b"/a/a", b"/sub/", b"/%252e%252e/", b"/%252e%252e/index.html", b"/%2e%2e/", b"/..%5csecret.txt",
                  "/é".encode(), b"/%c3%a9", b"/%25", b"/%5c", b"/a%5ca", b"/nonexistent", b"/a", b"/sub", b"/%2e", b"/.a/a", b"/..a", b"/a..",
                  b"/404.html", b"/400.html", b"/404.", b"/q", b"/q/", b"/q?x=1", b"/q?x=2", b"/q?", b"/q/?x=1", b"/a/b.txt?x=1", b"/h?x=1", b"/nonexistent?x=1",
                  b"/a.txt", b"/sub/a", b"/errors/404.html", b"/a/sub/"]


def pipe_target(rng):
    r = rng.random()
    if r < 0.28:
        t = climb_target(rng)
    elif r < 0.46:
        t = token_target(rng, True)
    elif r < 0.6:
        t = token_target(rng)
    elif r < 0.78:
        t = rng.choice(COMMON_TARGETS)
    elif r < 0.86:
        t = rng.choice([t for t in DIRECTED if t.startswith(b"/")])
    elif r < 0.93:
        return other_form_target(rng)
    else:
        t = rand_target(rng)
    if rng.random() < 0.08:
        t = t.split(b"#")[0].split(b"?")[0] + rng.choice(QUERIES)
    return t


# what a client may write into the Host header (HTTP/1.1): kvarn's readers parse scheme "://" Host-header target as ONE text, so a '/'
# in the Host header starts the path there
HOST_HEADERS = [b"localhost/..", b"localhost/%2e%2e", b"localhost/a", b"localhost?", b"localhost#", b"localhost:80", b"localhost/.", b"localhost//",
                b"localhost/../..", b"other.example", b"localhost/sub", b"localhost/%2e", b"localhost/..%2f..", b"u@localhost", b"localhost/a/..",
                b"localhost/%252e%252e", b"[::1]", b"localhost/q?x=1&y=", b"localhost/../errors"]


def rand_cfgkey(rng, benign=True, hosts=True):
    opts = rng.choice(BENIGN_OPTS) if benign else rng.choice(NON_BENIGN_OPTS)
    hh = rng.choice(HOST_HEADERS) if hosts and rng.random() < 0.12 else b"localhost"
    return (rng.random() < 0.65, rng.random() < 0.6, rng.random() < 0.5, rng.choice(PUBLIC_DIRS), opts, rng.random() < 0.6, rng.random() < 0.04, hh)


def history(rng, n):
    """n requests; targets are repeated (other method, other Origin kind, equivalent spelling, other query) so that the caches are exercised"""
    reqs = []
    while len(reqs) < n:
        if reqs and rng.random() < 0.3:
            m, t, k = rng.choice(reqs)
            v = rng.random()
            if v < 0.45:
                pass
            elif v < 0.6 and t.endswith(b"/"):
                t = t + b"index.html"
            elif v < 0.7 and t.endswith(b"."):
                t = t + b"html"
            elif v < 0.8:
                t = t + rng.choice(ENDINGS)
            elif v < 0.95:
                t = t.split(b"#")[0].split(b"?")[0] + rng.choice(QUERIES)
            reqs.append((rng.choice(METHODS) if rng.random() < 0.5 else b"GET", t, rng.choice([0, 0, 0, 1, 2, 3, 4])))
            continue
        m = b"GET" if rng.random() < 0.6 else rng.choice(METHODS) if rng.random() < 0.85 else rng.choice(RARE_METHODS)
        k = 0 if rng.random() < 0.7 else rng.randrange(5)
        reqs.append((m, pipe_target(rng), k))
    return reqs


def primed_key(t, default_ext, opts=BENIGN_OPTS[0]):
    p = t.split(b"#")[0].split(b"?")[0]
    if default_ext and p.endswith(b"."):
        return p + opts[1]
    if default_ext and p.endswith(b"/"):
        return p + opts[2]
    return p


def poisoned_history(rng, default_ext):
    """cache entries of harmless responses are copied to the keys unsafe requests (and the CORS overrides) look up"""
    reqs = []
    sources = [(b"/h", b"/h"), (b"/index.html", b"/index.html"), (b"/aa", b"/aa"), (b"/nonexistent", b"/nonexistent")]
    if default_ext:
        sources += [(b"/", b"/index.html"), (b"/a/", b"/a/index.html"), (b"/secret.", b"/secret.html")]
    for _ in range(rng.randrange(3, 7)):
        t, key = rng.choice(sources)
        reqs.append((rng.choice([b"GET", b"GET", b"HEAD"]), t, 0))
        u = rng.choice(UNSAFE_TARGETS) if rng.random() < 0.7 else pipe_target(rng)
        to = rng.choice([primed_key(u, default_ext), primed_key(u, default_ext), u, b"/./cors_fail", b"/./cors_options", b"/zz", b"//localhost/../secret.txt"])
        reqs.append((ALIAS, key, to))
        for _ in range(rng.randrange(1, 4)):
            reqs.append((rng.choice([b"GET", b"GET", b"HEAD", b"POST", b"OPTIONS"]), rng.choice([u, u, to, b"/zz"]), rng.choice([0, 0, 0, 2, 3, 4])))
    return reqs


def fcache_history(rng):
    """error pages and files with equal basenames inside / outside the public directory, every target several times: the file cache
    (keyed by the path string, with negative entries) answers the later ones"""
    pool = [b"/404.html", b"/400.html", b"/404.", b"/nonexistent", b"/nonexistent2", b"/../errors/404.html", b"/errors/404.html", b"/a.txt", b"/a",
            b"/secret.txt", b"/index.html", b"/", b"/sub/", b"/a/", b"/../secret.txt", b"//secret.txt", b"/a/b.txt", b"/%2e%2e/errors/404.html",
            b"/404.html?x", b"/h", b"/q?x=1", b"/q?x=2", b"/nonexistent/", b"/nonexistent.", b"/sub/a", b"/%34%30%34.html"]
    return [(rng.choice([b"GET", b"GET", b"GET", b"HEAD", b"POST"]), rng.choice(pool), 0) for _ in range(rng.randrange(12, 28))]


def query_history(rng):
    """QueryMatters handlers and query targets: entries keyed by path+query and by path alone"""
    pool = [b"/q", b"/q?", b"/q?x=1", b"/q?x=2", b"/q?x=1#f", b"/q/", b"/q/?x=1", b"/q/index.html?x=1", b"/q/index.html", b"/h?x=1", b"/h?x=2", b"/h",
            b"/a/b.txt?x=1", b"/a/b.txt?x=2", b"/a/b.txt", b"/?x=1", b"/?x=2", b"/nonexistent?x=1", b"/nonexistent?x=2", b"/qx=1", b"/q%3fx=1",
            b"/../secret.txt?x=1", b"/q?/../secret.txt", b"/q?x=1?y", b"/index.html?", b"/a/a.html?x=1"]
    return [(rng.choice([b"GET", b"GET", b"GET", b"HEAD", b"POST", b"OPTIONS"]), rng.choice(pool), rng.choice([0, 0, 0, 0, 2, 3])) for _ in range(rng.randrange(12, 28))]


# the history of Example ex_history in Properties/C01.v (evaluated there by the Coq kernel): run on the real code and on the
# extracted model each time, and compared with the value the kernel computed — ties the extraction of PathSanPipe to the kernel
EX_FILES = [(b"host/public/index.html", b"INDEX"), (b"host/public/a/b.txt", b"AB"), (b"host/errors/404.html", b"E404"), (b"host/secret.txt", b"SECRET"),
            (b"outside.txt", b"OUTSIDE")]
EX_HISTORY = [(b"GET", b"/", 0), (b"GET", b"/index.html", 0), (b"GET", b"/../secret.txt", 0), (ALIAS, b"/index.html", b"/%2e%2e/secret.txt"),
              (b"GET", b"/%2e%2e/secret.txt", 0), (b"GET", b"/%252e%252e/", 0), (b"GET", b"/%252e%252e/x", 0), (b"GET", b"/a/b.txt", 2),
              (b"GET", b"/./cors_fail", 0), (b"GET", b"http://localhost/../secret.txt", 0)]


def _ans(status, body, log=(), opened=()):
    return "(L (N %d) (B %s) %s %s)" % (status, body.hex(), "(L" + "".join(" (B %s)" % x.hex() for x in log) + ")",
                                        "(L" + "".join(" (B %s)" % x.hex() for x in opened) + ")")


EX_EXPECTED = "(L " + " ".join([
    _ans(200, b"INDEX", [b"pf"], [b"host/public/index.html"]), _ans(200, b"INDEX"), _ans(400, b"ERRPAGE"), "(L (N 1))", _ans(400, b"ERRPAGE"),
    _ans(404, b"E404", [b"pf"], [b"host/errors/404.html"]), _ans(404, b"E404", [b"pf"]), _ans(403, CORS_DENIED), _ans(400, b"ERRPAGE"),
    _ans(400, b"ERRPAGE")]) + ")"


def pinned_case():
    cfg = xl(xbool(True), xbool(True), xbool(True), xb(b"public"), xlist([xl(xb(a), xb(b)) for a, b in EX_FILES]), xlist([]),
             xl(xb(b"errors"), xb(b"html"), xb(b"index.html"), xbool(False), xb(b"localhost")))
    ops = [xl(xn(1), xb(t), xb(k)) if m is ALIAS else xl(xb(m), xb(t), xn(k)) for m, t, k in EX_HISTORY]
    return Case("pathsanpipe.run", xl(cfg, xlist(ops)), "pathsanpipe.spec", {"kind": "pipe-kernel-pinned", "requests": 9, "pinned": EX_EXPECTED})


def chunks(l, n):
    return [l[i:i + n] for i in range(0, len(l), n)]


D0 = BENIGN_OPTS[0]


def pipe_cases(rng, tier):
    import itertools
    cases = [pinned_case()]
    directed = [t for t in DIRECTED if t]
    q = tier == "quick"
    # 1. the hand-written list (every target form) through every combination of default extensions / response cache, GET, no Origin header
    for de in (True, False):
        for ca in (True, False):
            for pub in (PUBLIC_DIRS if not q else PUBLIC_DIRS[:1] if not de else PUBLIC_DIRS[::2]):
                for ch in chunks(directed + OTHER_FORMS, 30):
                    cases.append(pipe_case((de, ca, ca, pub, D0, ca, False), [(b"GET", t, 0) for t in ch], "pipe-directed"))
    # 2. the hand-written list with methods and Origin kinds, each target twice in a row (second answer may come from the cache)
    for rep in range(2 if q else 8):
        rows = []
        for t in directed:
            m1, m2 = rng.choice(METHODS), rng.choice(METHODS)
            rows += [(m1, t, rng.choice([0, 0, 1, 2, 3, 4])), (m2, t, rng.choice([0, 0, 1, 2, 3, 4]))]
        for ch in chunks(rows, 30):
            cases.append(pipe_case(rand_cfgkey(rng), ch, "pipe-directed-methods"))
    # 3. bounded-exhaustive token strings through the pipeline
    full = 3 if q else 5
    for L in range(0, full + 1):
        allt = [b"/" + b"".join(c) for c in itertools.product(TOKENS, repeat=L)]
        for de in ((True, False) if L <= 4 else (True,)):
            for ch in chunks(allt, 28):
                cases.append(pipe_case((de, True, True, b"public", D0, True, False), [(b"GET", t, 0) for t in ch], "pipe-exhaustive"))
    n = 100 if q else 1500
    # 4. traversal spellings (single / double encodings, backslashes, overlong forms) x prefixes x leaves
    for _ in range(n):
        cases.append(pipe_case(rand_cfgkey(rng), [(b"GET" if rng.random() < 0.8 else rng.choice(METHODS), climb_target(rng), 0)
                                                 for _ in range(25)], "pipe-climb"))
    # 5. token strings with an ending that triggers (or nearly triggers) the redirect Prime, under every (benign) choice of
    #    extension_default / folder_default
    for _ in range(n):
        cases.append(pipe_case((True, rng.random() < 0.5, rng.random() < 0.5, rng.choice(PUBLIC_DIRS), rng.choice(BENIGN_OPTS), rng.random() < 0.5, False),
                               [(b"GET", token_target(rng, True), 0) for _ in range(25)], "pipe-endings"))
    # 6. mixed histories: repeated targets, methods, Origin kinds, queries, every target form, all configurations
    for _ in range(n):
        cases.append(pipe_case(rand_cfgkey(rng), history(rng, rng.randrange(10, 31)), "pipe-history"))
    # 7. arbitrary cache content: entries copied to the keys of unsafe requests / of the CORS overrides
    for _ in range(n):
        de = rng.random() < 0.6
        cases.append(pipe_case((de, True, rng.random() < 0.5, rng.choice(PUBLIC_DIRS), D0, rng.random() < 0.5, False), poisoned_history(rng, de), "pipe-poisoned-cache"))
    # 8. the file cache and the operator's error pages; QueryMatters handlers and query targets; other request-target forms
    for _ in range(n // 2):
        k = rand_cfgkey(rng)
        cases.append(pipe_case((k[0], k[1], rng.random() < 0.8, k[3], k[4], rng.random() < 0.8, False), fcache_history(rng), "pipe-file-cache"))
        k = rand_cfgkey(rng)
        cases.append(pipe_case((k[0], True, k[2], k[3], k[4], k[5], False), query_history(rng), "pipe-query"))
        cases.append(pipe_case(rand_cfgkey(rng), [(rng.choice(METHODS) if rng.random() < 0.3 else b"GET", other_form_target(rng), rng.choice([0, 0, 0, 2, 3]))
                                                 for _ in range(25)], "pipe-target-forms"))
    # 9. a host whose OWN options lead outside the public directory (hypothesis benign_host violated): the model must still predict
    #    the answers; the confinement oracles are not applied (the Coq spec component says "not benign")
    for _ in range(12 if q else 150):
        cases.append(pipe_case(rand_cfgkey(rng, benign=False), [(b"GET", rng.choice(COMMON_TARGETS + [b"/", b"/a/", b"/secret.", b"/sub/"]), 0) for _ in range(15)],
                               "pipe-non-benign-options"))
    # 10. the same through the front door: HTTP/1.1 text over a loopback connection to kvarn::handle_connection
    for de in (True, False):
        for ca in (True, False):
            for ch in chunks(directed + OTHER_FORMS, 30):
                cases.append(pipe_case((de, ca, ca, b"public", D0, ca, False), [(b"GET", t, 0) for t in ch], "wire-directed", "pathsanpipe.wire"))
    for _ in range(n // 4):
        cases.append(pipe_case(rand_cfgkey(rng), history(rng, rng.randrange(10, 31)), "wire-history", "pathsanpipe.wire"))
        cases.append(pipe_case(rand_cfgkey(rng), [(b"GET" if rng.random() < 0.8 else rng.choice(METHODS), climb_target(rng), 0) for _ in range(25)],
                               "wire-climb", "pathsanpipe.wire"))
        de = rng.random() < 0.6
        cases.append(pipe_case((de, True, rng.random() < 0.5, rng.choice(PUBLIC_DIRS), D0, True, False), poisoned_history(rng, de), "wire-poisoned-cache", "pathsanpipe.wire"))
        cases.append(pipe_case(rand_cfgkey(rng), [(rng.choice(METHODS) if rng.random() < 0.3 else b"GET", other_form_target(rng), rng.choice([0, 0, 0, 2, 3]))
                                                 for _ in range(25)], "wire-target-forms", "pathsanpipe.wire"))
    # 10b. a part of the path in the Host header
    hh_targets = [b"/secret.txt", b"/", b"/index.html", b"/../secret.txt", b"/..", b"/a/b.txt", b"/%2e%2e/secret.txt", b"secret.txt", b"/q?x=1", b"/errors/404.html",
                  b"/404.html", b"/nonexistent", b"*", b"?x"]
    for hh in HOST_HEADERS:
        for comp in ("pathsanpipe.run", "pathsanpipe.wire"):
            de = rng.random() < 0.6
            cases.append(pipe_case((de, True, True, rng.choice(PUBLIC_DIRS), D0, True, False, hh),
                                   [(rng.choice([b"GET", b"GET", b"HEAD", b"OPTIONS"]), t, rng.choice([0, 0, 1, 2, 4])) for t in hh_targets], "host-header", comp))
    # 11. and over TLS + HTTP/2 (':path' as the h2 client sends it: origin form incl. double encodings, queries)
    for de in (True, False):
        for ch in chunks([t for t in directed if t.startswith(b"/")], 40):
            cases.append(pipe_case((de, True, True, b"public", D0, True, False), [(b"GET", t, 0) for t in ch], "h2-directed", "pathsanpipe.h2"))
    for _ in range(n // 8):
        cases.append(pipe_case(rand_cfgkey(rng), history(rng, rng.randrange(10, 31)), "h2-history", "pathsanpipe.h2"))
        cases.append(pipe_case(rand_cfgkey(rng), [(b"GET" if rng.random() < 0.8 else rng.choice(METHODS), climb_target(rng), 0) for _ in range(25)],
                               "h2-climb", "pathsanpipe.h2"))
    # 11b. TLS + HTTP/2 with hand-written HEADERS frames: ANY text as ':path' (no leading '/', absolute form, '*', '?x', ...): what
    #      http::uri::PathAndQuery refuses never becomes a request, the rest is sanitised like any other path
    for de in (True, False):
        for ch in chunks(directed + OTHER_FORMS, 40):
            cases.append(pipe_case((de, True, True, b"public", D0, True, False), [(b"GET", t, 0) for t in ch], "h2raw-directed", "pathsanpipe.h2raw"))
    for _ in range(n // 8):
        cases.append(pipe_case(rand_cfgkey(rng), history(rng, rng.randrange(10, 31)), "h2raw-history", "pathsanpipe.h2raw"))
        cases.append(pipe_case(rand_cfgkey(rng), [(rng.choice(METHODS) if rng.random() < 0.3 else b"GET", other_form_target(rng), rng.choice([0, 0, 0, 2, 3]))
                                                 for _ in range(25)], "h2raw-target-forms", "pathsanpipe.h2raw"))
    # 12. under a system-call trace (strace -f -e trace=%file on a child harness process): every path string handed to open / stat /
    #     access ..., successful or not (inotify sees successful opens only)
    for de in (True, False):
        for fc in (True, False):
            cases.append(pipe_case((de, True, fc, b"public", D0, True, False), [(b"GET", t, 0) for t in UNSAFE_TARGETS + COMMON_TARGETS[:20]], "sys-directed", SYS_COMP))
    for _ in range(8 if q else 150):
        cases.append(pipe_case(rand_cfgkey(rng), history(rng, 25), "sys-history", SYS_COMP))
        cases.append(pipe_case(rand_cfgkey(rng), [(b"GET" if rng.random() < 0.8 else rng.choice(METHODS), climb_target(rng), 0) for _ in range(25)], "sys-climb", SYS_COMP))
        k = rand_cfgkey(rng)
        cases.append(pipe_case((k[0], k[1], True, k[3], k[4], True, False), fcache_history(rng), "sys-file-cache", SYS_COMP))
    return cases


def sys_ok(c, i, s):
    """the system-call trace: an unsafe request is answered 400 and no file-related system call gets a path below the run directory other
    than the operator's page for status 400; with benign options every such path string is below the public directory or is the
    operator's error page for the status of the answer"""
    rows = _pipe_rows(c, i)
    sv = kv.xparse(s)
    if rows is None or sv[0] != "L" or len(sv[1]) != len(rows) + 1:
        c.meta["why"] = "malformed pipeline output"
        return False
    g = _cfg(c)
    benign = sv[1][0] == ("N", 1)
    pub = b"host/" + g["pub"] + b"/"
    for idx, ((r, o), f) in enumerate(zip(rows, sv[1][1:])):
        if f in (("N", 97), ("N", 96)):
            continue
        if o[0] != "L" or len(o[1]) != 2:
            c.meta["why"] = "no answer: " + _req_text(c, idx, r) + " -> " + kv.pretty(o)
            return False
        status, touched = o[1][0][1], [x[1] for x in o[1][1][1]]
        if (status == 400) != (f[1] == 1):
            c.meta["why"] = ("unsafe path not rejected: " if f[1] == 1 else "safe path rejected with 400: ") + _req_text(c, idx, r) + " -> status %d" % status
            return False
        page = b"host/" + g["errors"] + b"/%d.html" % status
        for x in touched:
            if x == page or (f[1] == 0 and benign and x.startswith(pub)):
                continue
            if f[1] == 1 or benign:
                c.meta["why"] = "a file-related system call was made with the path %r while the request was handled (allowed: %s%r): " % (
                    x, "" if f[1] == 1 else "below %r and " % pub, page) + _req_text(c, idx, r) + " -> status %d" % status
                return False
    return True


def _pipe_rows(c, i):
    iv = kv.xparse(i)
    reqs = c.x[1][1][1]
    if iv[0] != "L" or len(iv[1]) != len(reqs):
        return None
    return list(zip(reqs, iv[1]))


def _cfg(c):
    cfg = c.x[1][0][1]
    o = cfg[6][1]
    return {"de": cfg[0][1], "ca": cfg[1][1], "fc": cfg[2][1], "pub": cfg[3][1], "errors": o[0][1], "ext": o[1][1], "folder": o[2][1], "nofs": o[3][1],
            "hh": o[4][1]}


def _req_text(c, idx, r):
    g = _cfg(c)
    return "%s request #%d %s %r origin_kind=%d (default_ext=%d cache=%d fcache=%d public_dir=%r errors_dir=%r extension_default=%r folder_default=%r disable_fs=%d host_header=%r)" % (
        c.comp, idx, r[1][0][1].decode(), r[1][1][1], r[1][2][1], g["de"], g["ca"], g["fc"], g["pub"], g["errors"], g["ext"], g["folder"], g["nofs"], g["hh"])


_FILES = {}


def _files(c):
    """the fixture's files, read off the case's own input: (contents below the public directory | handlers' bodies, error pages by status)"""
    cfg = c.x[1][0][1]
    k = id(cfg)
    if k not in _FILES:
        g = _cfg(c)
        pre = b"host/" + g["pub"] + b"/"
        epre = b"host/" + g["errors"] + b"/"
        allowed = {f[1][1][1] for f in cfg[4][1] if f[1][0][1].startswith(pre)} | {h[1][1][1] for h in cfg[5][1]}
        errs = {}
        for f in cfg[4][1]:
            p = f[1][0][1]
            if p.startswith(epre) and p.endswith(b".html") and p[len(epre):-5].isdigit():
                errs[int(p[len(epre):-5])] = f[1][1][1]
        _FILES[k] = (cfg, allowed, errs)
    return _FILES[k][1], _FILES[k][2]


def _headless(c, r, body):
    return c.comp in ("pathsanpipe.wire", "pathsanpipe.h2", "pathsanpipe.h2raw") and r[1][0][1] == b"HEAD" and body == b""


def pipe_spec_ok(c, i, s):
    """(b): status 400 exactly when the percent-decoded path is unsafe (Coq spec component, independent of serve_st / sanitize_path); then
    nothing but the (generated or operator's) 400 page comes back, no Prepare extension was consulted or run, and nothing but the
    operator's 400 page was opened"""
    rows = _pipe_rows(c, i)
    sv = kv.xparse(s)
    if rows is None or sv[0] != "L" or len(sv[1]) != len(rows) + 1:
        c.meta["why"] = "malformed pipeline output"
        return False
    g = _cfg(c)
    _, errs = _files(c)
    # is the hypothesis benign_host of the confinement theorems met?  — decided by the Coq predicate (benign_host_b, spec component), which must
    # agree with the generator's two lists
    c.meta["benign"] = sv[1][0] == ("N", 1)
    if c.meta["benign"] != (c.meta.get("cfg", (0, 0, 0, 0, D0))[4] in BENIGN_OPTS):
        c.meta["why"] = "the Coq predicate benign_host_b and the generator disagree about the options %r" % (c.meta.get("cfg", (0, 0, 0, 0, D0))[4],)
        return False
    page400 = b"host/" + g["errors"] + b"/400.html"
    for idx, ((r, o), f) in enumerate(zip(rows, sv[1][1:])):
        if f == ("N", 97):
            continue
        if f == ("N", 96):
            if o != ("L", [("N", 96)]):
                c.meta["why"] = "a target refused by the specification's URI grammar was served: " + _req_text(c, idx, r)
                return False
            continue
        if o[0] != "L" or len(o[1]) != 4:
            c.meta["why"] = "no answer (panic / undecodable body / refused although the URI grammar accepts it): " + _req_text(c, idx, r) + " -> " + kv.pretty(o)
            return False
        status, body, log, opened = o[1][0][1], o[1][1][1], o[1][2][1], [x[1] for x in o[1][3][1]]
        if (status == 400) != (f[1] == 1):
            c.meta["why"] = ("unsafe path not rejected: " if f[1] == 1 else "safe path rejected with 400: ") + _req_text(c, idx, r) + \
                " -> status %d body %r" % (status, body[:80])
            return False
        if f[1] == 1:
            ok_body = body == b"ERRPAGE" or (400 in errs and body == errs[400] and not g["nofs"]) or _headless(c, r, body)
            if not ok_body or log:
                c.meta["why"] = "400 but a Prepare extension was consulted or content returned: " + _req_text(c, idx, r) + " -> " + kv.pretty(o)
                return False
            if any(x != page400 for x in opened):
                c.meta["why"] = "an unsafe request made the server open %r (only the operator's page for status 400, %r, may be read): " % (
                    [x for x in opened if x != page400][:3], page400) + _req_text(c, idx, r)
                return False
    return True


def extra_oracle(c, i):
    """model-independent: (a) no sentinel content from outside the public directory in any body; (c) the internal CORS handlers answer
    only when a CORS Prime extension produced the override (never for a request without a foreign Origin / preflight headers); (d) a 200
    body is a public file's content or a handler's; (e) no object outside the public directory is ever OPENED, except the operator's error
    page for the status of the answer (and, for a path ending in '..', the directory containing the public directory — a directory has no
    content). (a), (d), (e) are the theorems' conclusions: they are checked when the host's options are benign (their hypothesis)."""
    if c.comp not in PIPE_COMPS:
        return None
    if "pinned" in c.meta and i != c.meta["pinned"]:
        return "the real pipeline's answers differ from the value of Example ex_history computed by the Coq kernel: " + i
    rows = _pipe_rows(c, i)
    if rows is None:
        return "malformed pipeline output " + i[:100]
    g = _cfg(c)
    default_ext = g["de"] == 1
    benign = c.meta.get("benign", c.meta.get("cfg", (0, 0, 0, 0, D0))[4] in BENIGN_OPTS)
    allowed, errs = _files(c)
    pub = b"host/" + g["pub"]
    parent = pub.rsplit(b"/", 1)[0] + b"/"
    for idx, (r, o) in enumerate(rows):
        if o[0] != "L" or len(o[1]) != 4 or r[1][0][0] == "N":
            continue
        status, body, log, opened = o[1][0][1], o[1][1][1], o[1][2][1], [x[1] for x in o[1][3][1]]
        m, k = r[1][0][1], r[1][2][1]
        # Cors::is_part_of_origin compares the AUTHORITY of the URI ("localhost" + what the target has before its first '/', '?', '#')
        # with the Origin header's: with such a target the site's own Origin is a foreign one
        if c.comp in ("pathsanpipe.run", "pathsanpipe.wire"):
            import re
            auth = re.split(rb"[/?#]", g["hh"] + r[1][1][1], maxsplit=1)[0]
            if k in (1, 4) and auth != b"localhost":
                k = {1: 2, 4: 3}[k]
            elif k in (2, 3) and auth == b"other.example":      # the harness's "foreign" Origin is then the request's own
                k = {2: 1, 3: 4}[k]
        may_override = default_ext and (k in (2, 3) or (k == 4 and m == b"OPTIONS"))
        if not may_override and (status in INTERNAL_STATUS or body == CORS_DENIED):
            return "an internal /./cors_* handler answered a request no CORS Prime extension rerouted: " + _req_text(c, idx, r) + \
                " -> status %d body %r" % (status, body[:80])
        if not benign:
            continue
        if SENTINEL in body:
            return "content of a file outside the public directory returned: " + _req_text(c, idx, r) + " -> status %d body %r" % (status, body[:80])
        if status == 200 and body not in allowed and not _headless(c, r, body):
            return "200 with a body that is neither a public file's content nor a handler's: " + _req_text(c, idx, r) + " -> %r" % body[:80]
        if status != 200 and body not in (b"ERRPAGE", b"", CORS_DENIED) and body != errs.get(status):
            return "an error answer whose body is neither generated nor the operator's page for its status: " + _req_text(c, idx, r) + \
                " -> status %d body %r" % (status, body[:80])
        page = b"host/" + g["errors"] + b"/%d.html" % status
        for x in opened:
            if x.startswith(pub + b"/") or x == page or x == parent or (x == pub + b"/"):
                continue
            return "the server opened %r, which is neither below the public directory nor the operator's error page %r: " % (x, page) + _req_text(c, idx, r) + \
                " -> status %d" % status
    return None


def generate(rng, tier):
    cases = pipe_cases(rng, tier)
    for t in DIRECTED:
        cases.append(direct(t, "directed"))
    # bounded-exhaustive over the token alphabet, origin form ("/" + tokens)
    full = 4 if tier == "quick" else 6
    for L in range(0, min(full, 3) + 1):
        cases.append(batch(b"/", L, "exhaustive"))
    import itertools
    for L in range(4, full + 1):
        for pre in itertools.product(TOKENS, repeat=L - 3):
            cases.append(batch(b"/" + b"".join(pre), 3, "exhaustive"))
    # other request-target forms (not origin form): all token strings to length 3 without the leading "/"
    for L in range(1, 4):
        for pre in itertools.product(TOKENS, repeat=L):
            cases.append(direct(b"".join(pre), "other-form"))
    # ... and over an alphabet of scheme / authority / separator tokens (absolute form, authority form, userinfo, ports, IPv6 brackets)
    for t in OTHER_FORMS:
        cases.append(direct(t, "other-form"))
    for L in range(1, 3):
        for pre in itertools.product(OTHER_TOKENS, repeat=L):
            cases.append(direct(b"".join(pre), "other-form"))
    for _ in range(1500 if tier == "quick" else 20000):
        cases.append(direct(other_form_target(rng), "other-form"))
    # a full-detail sample of the exhaustive space and random longer targets
    nd = 3000 if tier == "quick" else 40000
    for _ in range(nd):
        L = rng.randrange(1, 7)
        cases.append(direct(b"/" + b"".join(rng.choice(TOKENS) for _ in range(L)), "sampled"))
    for _ in range(nd):
        cases.append(direct(rand_target(rng), "random"))
    # make_path, percent_decode on arbitrary text, UTF-8 validity / lossy conversion
    nm = 1500 if tier == "quick" else 20000
    for _ in range(nm):
        ext = None if rng.random() < 0.4 else xb(rand_text(rng))
        cases.append(Case("pathsan.make_path", xl(xb(rand_text(rng)), xb(rand_text(rng)), xb(rand_text(rng)), xopt(ext)), None, {"kind": "make_path"}))
        cases.append(Case("pathsan.decode", xb(rand_text(rng) + rng.choice([b"", b"%", b"%2", b"%f"])), None, {"kind": "decode"}))
        cases.append(Case("pathsan.utf8", xb(rand_bytes(rng)), None, {"kind": "utf8"}))
    if tier == "thorough":
        # UTF-8 validity: all strings over the edge bytes up to length 3 (every lead/continuation boundary)
        for L in range(1, 4):
            for bs in itertools.product(UTF8_EDGE, repeat=L):
                cases.append(Case("pathsan.utf8", xb(bytes(bs)), None, {"kind": "utf8-exhaustive"}))
    return cases


def spec_ok(c, i, s):
    if c.comp in PIPE_COMPS:
        return pipe_spec_ok(c, i, s)
    if c.comp == SYS_COMP:
        return sys_ok(c, i, s)
    if c.comp == "pathsan.batch":
        return i == s
    # direct: implementation (path, decoded, sanitize, utf8 decoding, fs path) against (must be accepted?, must decode?)
    iv, sv = kv.xparse(i), kv.xparse(s)
    if sv[1] and sv[1][0] == ("N", 96):
        return True
    if len(iv[1]) != 5:
        return False
    accepted = iv[1][2] == ("N", 0)
    decodes = len(iv[1][3][1]) == 1
    return accepted == (sv[1][0][1] == 1) and decodes == (sv[1][1][1] == 1)


def signature(c, m):
    if c.comp in PIPE_COMPS or c.comp == SYS_COMP:
        return "pipe"
    if c.comp == "pathsan.direct":
        v = kv.xparse(m)
        if len(v[1]) != 5:
            return None
        return "san=%s utf8=%d" % (v[1][2][1], len(v[1][3][1]))
    if c.comp == "pathsan.batch":
        return "batch"
    return m[:40]


LEVEL_TEXT = ("Machine-checked Coq theorems, for ALL byte strings, over a byte-level model of percent_decode / sanitize_request / make_path / "
              "http::Uri / the pipeline from handle_cache to read_file and error::default with the file cache: an accepted path walks only "
              "downwards from the public directory until its last segment and a returned file content always comes from inside the public "
              "directory of an arbitrary file tree (POSIX resolution without symlinks); exactly the paths whose percent-decoded bytes contain "
              "'./', are not rooted or start with '//' are rejected, answered 400 without response cache, Prepare or read of the requested path "
              "— in every file-cache state the only path that can reach the operating system is the operator's 400 page, and the file "
              "cache is untouched elsewhere; the file cache is transparent (answers equal those without it, coherence is an invariant); every "
              "error-page read goes to <host.path>/<errors_dir>/<status>.html, a function of host and status only; every object the "
              "operating system is asked to open is that page, a directory, or strictly below the public directory; no accepted path (raw "
              "or decoded) contains './', so the internal /./ routes are reachable only through a Prime result; check and use decode once and "
              "identically. Lifted to ALL histories of requests (any target form) with the response cache and the file cache threaded "
              "through (induction with a state invariant): every body ever answered — computed, from the response cache, from disk or from "
              "the file cache — is generated, a handler's, a public file's content or an operator's error page; an unsafe request is "
              "answered 400 in every state and leaves the response cache alone; without a CORS override a request is answered as if the "
              "internal routes did not exist. The predicates used by the statements are pinned with their bodies. The model is tied to "
              "/repo on every run by a differential run of the real functions AND of the real kvarn::handle_cache / "
              "kvarn::handle_connection (in process, HTTP/1.1 over loopback, HTTP/2 over TLS; default and empty extensions, caches on/off, "
              "operator options varied, fixture tree with sentinel files on disk) against the extracted model — including the list of "
              "objects the server opens (inotify) and of path strings it passes to file system calls (strace) — plus oracles on the real "
              "answers and on the observed file-system accesses that do not go through the model.")
LEVEL_NOTE = ("Trusted: Coq kernel, extraction (ExtrOcamlBasic) reduced by an in-kernel recheck sample, the hand transcription of the Rust "
              "code into Model/PathSan.v + Model/PathSanServe.v + Model/PathSanPipe.v as validated by the differential runs, the POSIX "
              "path-resolution model (no symlinks), the pipeline harness incl. its inotify / strace probes. No axioms. Two defects repaired on "
              "the way: sanitize tested the undecoded text when the decoding was not UTF-8 (3565dd3); Options::get_errors_dir returned "
              "public_data_dir, so a custom public directory moved the error pages into it and errors_dir was ignored (fbca956). Observed, "
              "not a violation of this property: a request target that is not in origin form is glued to the Host header ('GET "
              "http://localhost/x' has the path '//localhost/x' and is refused with 400, 'GET *' and 'OPTIONS *' are answered as '/', "
              "'GET ../secret.txt' as '/secret.txt' of the host 'localhost..'): the path always starts at the target's first '/' and is "
              "sanitised as sent.")
TECHNIQUE = ("Coq proof (model satisfies spec for all inputs and all histories) + differential correspondence model vs. implementation "
             "(direct calls, the in-process pipeline kvarn::handle_cache on a fixture tree, kvarn::handle_connection over loopback HTTP/1.1 "
             "and TLS+HTTP/2, file-system access observed with inotify and strace) + model-independent oracles on the pipeline answers and "
             "on the observed accesses")


def harness_trouble(cases, impl, model):
    """a pipeline component most of whose scenarios could not be executed (no inotify instance, strace missing, connection trouble
    under load ...) is no longer tied to the code: that is a harness error, not a quiet pass"""
    import re
    tot, ne = {}, {}
    for c in cases:
        if c.comp in PIPE_COMPS or c.comp == SYS_COMP:
            tot[c.comp] = tot.get(c.comp, 0) + 1
            i = impl.get(c.id)
            if i is None or c.id not in model or re.match(r"\(L \(N 96\) \(N ", i):
                ne.setdefault(c.comp, []).append(c.id)
    bad = {k: v for k, v in ne.items() if len(v) > max(2, tot[k] // 10)}
    if bad:
        return "pipeline scenarios that could not be executed: " + "; ".join("%s %d of %d (%s ...)" % (k, len(v), tot[k], ", ".join(v[:5])) for k, v in sorted(bad.items()))
    return None


def extra_coverage(cases, impl, model, spec):
    pc = [c for c in cases if c.comp in PIPE_COMPS or c.comp == SYS_COMP]
    return {"targets_in_batches": sum(c.meta.get("targets", 0) for c in cases if c.comp == "pathsan.batch"),
            "pipeline_histories": len(pc), "pipeline_requests": sum(c.meta.get("requests", 0) for c in pc),
            "of_which_over_loopback_http1": sum(c.meta.get("requests", 0) for c in pc if c.comp == "pathsanpipe.wire"),
            "of_which_over_tls_http2": sum(c.meta.get("requests", 0) for c in pc if c.comp in ("pathsanpipe.h2", "pathsanpipe.h2raw")),
            "of_which_under_a_system_call_trace": sum(c.meta.get("requests", 0) for c in pc if c.comp == SYS_COMP)}
