"""C07 — HTTP/1 requests are parsed exactly, independent of TCP segmentation."""
import kv
from kv import Case, xn, xb, xl, xlist, xopt, xbool

ID = "C07"
MODULE = "C07"
IMPORTS = "Bytes RustInt Http1Read Http1ReadProofs Http1ReadParseProofs Http1ReadLocalProofs Http1ReadLfProofs"
PROFILES = ("dev", "nochk")
KERNEL_SAMPLE = 30
THEOREMS = []   # filled in below (kept at the end of the file for readability)

MAXLEN = 16384
BIG_LIMIT = 65536
THRESHOLDS = [511, 512, 513, 1023, 1024, 1025, 2047, 2048, 2049, 4095, 4096, 4097, 8191, 8192, 8193,
              15872, 15873, 16127, 16128, 16129, 16130, 16255, 16383, 16384, 16385]

METHODS = [b"GET", b"HEAD", b"POST", b"PUT", b"DELETE", b"TRACE", b"OPTIONS", b"CONNECT", b"PATCH", b"COPY", b"LOCK",
           b"MKCOL", b"MOVE", b"UNLOCK", b"GETX", b"PUT-IT", b"POST.1", b"COPY_2"]
BODY_METHODS = [b"POST", b"PUT", b"DELETE", b"PATCH", b"COPY", b"MKCOL", b"POSTS"]
TARGETS = [b"/", b"/a", b"/index.html", b"/a/b/c.txt", b"/x?y=1", b"/?q", b"/a?", b"/search?q=a+b&lang=sv", b"/a%20b",
           b"/~u/_-.!$&'()*+,;=:@", b"/a//b/../c", b"/\xc3\xa9", b"/a?k=\xc3\xa5", b"/{\"j\":1}", b"/a#frag", b"/a?b#c", b"?x", b"#f",
           b"/a|b", b"/a?b|c"]
NAMES = [b"Host", b"host", b"HOST", b"Accept", b"accept-encoding", b"User-Agent", b"X-A", b"x-b", b"Cookie", b"Range",
         b"If-None-Match", b"X_under", b"x.dot", b"a", b"Z9", b"content-type", b"Connection", b"Cache-Control", b"x!#$%&'*+-.^_`|~"]
VALUES = [b"", b"a", b"b c", b"text/html; q=0.9, */*", b"Mozilla/5.0 (X11; Linux x86_64)", b"\"quoted\"", b"a:b", b":x", b"x  y",
          b"keep-alive", b"bytes=0-1", b"trailing ", b"~!@#$%^&*()_+", b"1", b"W/\"abc\""]
HOSTS = [b"example.org", b"localhost", b"localhost:8080", b"a", b"EXAMPLE.com", b"[::1]", b"[::1]:80", b"127.0.0.1", b"sub.dom-ain.example",
         b"user@h", b"h:80:90", b"a b", b"h/evil", b"", b"h%41", b"[::1", b"x@", b"h?x"]


def hline(name, sp, value):
    return (name, sp, value)


def print_head(method, target, v11, hlines):
    out = method + b" " + target + b" " + (b"HTTP/1.1" if v11 else b"HTTP/1.0") + b"\r\n"
    for n, sp, v in hlines:
        out += n + b":" + b" " * sp + v + b"\r\n"
    return out + b"\r\n"


def x_greq(g):
    if g is None:
        return xopt(None)
    method, target, v11, hlines = g
    return xopt(xl(xb(method), xb(target), xbool(v11), xlist([xl(xb(n), xn(sp), xb(v)) for n, sp, v in hlines])))


def mkreq(stream, sched, kind, https=False, dh=None, max_len=MAXLEN, mode=0, limit=BIG_LIMIT, g=None, profile="dev"):
    x = xl(xbool(https), xopt(None if dh is None else xb(dh)), xn(max_len), xn(mode), xb(stream),
           xlist([xn(b) for b in sched]), xn(limit), x_greq(g))
    return Case("h1.request", x, "h1.request.spec", {"kind": kind}, profile)


def mkbody(early, cl, limit, stream, sched, kind, mode=0, profile="dev"):
    x = xl(xb(early), xn(cl), xn(limit), xn(mode), xb(stream), xlist([xn(b) for b in sched]))
    return Case("h1.body", x, "h1.body.spec", {"kind": kind}, profile)


def mkhdr(block, hlines, kind, profile="dev"):
    x = xl(xb(block), xopt(None if hlines is None else xlist([xl(xb(n), xn(sp), xb(v)) for n, sp, v in hlines])))
    return Case("h1.headers", x, "h1.headers.spec", {"kind": kind}, profile)


def body_bytes(n, salt=0):
    return bytes((33 + (i * 7 + salt) % 90) for i in range(n))


NEXT = b"GET /next HTTP/1.1\r\nHost: n\r\n\r\n"


def rand_headers(rng, with_host=True, cl=None, extra=None):
    names = rng.sample(NAMES[3:], rng.randrange(0, 5))
    hl = []
    seen = set()
    for n in names:
        if n.lower() in seen:
            continue
        seen.add(n.lower())
        v = rng.choice(VALUES)
        sp = rng.choice([0, 1, 1, 1, 2, 3])
        hl.append(hline(n, sp, v))
    if with_host:
        hl.insert(rng.randrange(len(hl) + 1), hline(rng.choice([b"Host", b"host", b"HOST", b"hOsT"]), rng.choice([0, 1, 1, 2]),
                                                    rng.choice(HOSTS[:9])))
    if cl is not None:
        hl.insert(rng.randrange(len(hl) + 1), hline(rng.choice([b"Content-Length", b"content-length"]), rng.choice([0, 1, 1, 4]), b"%d" % cl))
    if extra:
        hl += extra
    return hl


def rand_sched(rng, total, maxcuts=6):
    k = rng.randrange(0, maxcuts + 1)
    cuts = sorted(set(rng.randrange(1, max(2, total)) for _ in range(k))) if total > 1 else []
    pts = [0] + [c for c in cuts if c < total] + [total]
    return [b - a for a, b in zip(pts, pts[1:]) if b > a]


def padded_head(method, target, hl, size):
    """a head of exactly `size` bytes (pads with an x-pad header), or None if it cannot be that small"""
    base = print_head(method, target, True, hl)
    if len(base) == size:
        return hl
    need = size - len(base) - len(b"x-pad: \r\n")
    if need < 0:
        return None
    return hl + [hline(b"x-pad", 1, b"p" * need)]


def generate(rng, tier):
    quick = tier == "quick"
    cases = []

    # ---- corpus: the inputs that exposed the repaired defects --------------------------------------------------
    cases.append(mkhdr(b"a:b\r\n\r\n", [hline(b"a", 0, b"b")], "corpus"))
    cases.append(mkhdr(b"A: \n\n", None, "corpus"))
    cases.append(mkhdr(b"A: b\n\n", None, "corpus"))
    cases.append(mkhdr(b"A:\n\n", None, "corpus"))
    cases.append(mkhdr(b"A:\r\n\r\n", [hline(b"A", 0, b"")], "corpus"))
    g = (b"GET", b"/", True, [hline(b"Host", 1, b"a")])
    s = print_head(*g)
    for sc in ([1, 100], [2, 100], [3, 100], [1, 1, 1, 100]):
        cases.append(mkreq(s, sc, "corpus", g=g))
    cases.append(mkreq(s[:-2] + b"x-tok: secr", [100], "corpus"))
    cases.append(mkreq(b"GET / HTTP/1.1", [100], "corpus", dh=b"d"))
    g = (b"POST", b"/", False, [])
    cases.append(mkreq(print_head(*g) + b"BODY", [100], "corpus", dh=b"d", g=g))
    big = [hline(b"Host", 1, b"a"), hline(b"x", 1, b"a" * 30000)]
    g = (b"GET", b"/", True, big)
    cases.append(mkreq(print_head(*g), [512, 512, 1024, 2048, 4096, 8192 - 200, 100000], "corpus", g=g))
    cases.append(mkreq(print_head(*g), [100000] * 20, "corpus", g=g))
    cases.append(mkbody(b"x" * 50, 100, BIG_LIMIT, b"y" * 50 + NEXT, [30, 1000], "corpus"))
    cases.append(mkbody(b"", 10, BIG_LIMIT, b"0123456789NEXT", [5, 1000], "corpus"))
    g = (b"POST", b"/p", True, [hline(b"Host", 1, b"a"), hline(b"content-length", 1, b"100")])
    s = print_head(*g) + body_bytes(100) + NEXT
    cases.append(mkreq(s, [len(print_head(*g)) + 50, 30, 1000], "corpus", g=g))

    # ---- every cut position of short messages ---------------------------------------------------------------------
    shorts = []
    shorts.append(((b"GET", b"/", True, [hline(b"Host", 1, b"a")]), b""))
    shorts.append(((b"GET", b"/a?b=c", False, []), b""))
    shorts.append(((b"POST", b"/p", True, [hline(b"host", 0, b"ex.org"), hline(b"Content-Length", 1, b"5"), hline(b"x-a", 0, b"b")]), b"helloNEXT"))
    shorts.append(((b"OPTIONS", b"/", True, [hline(b"HOST", 2, b"a:80"), hline(b"X-E", 1, b"")]), b""))
    shorts.append(((b"PUT", b"/f", True, [hline(b"Content-Length", 0, b"3"), hline(b"Host", 3, b"h")]), b"abc" + NEXT))
    nshort = 3 if quick else 30
    for _ in range(nshort):
        m = rng.choice(METHODS)
        cl = rng.choice([None, 0, 1, 7])
        hl = rand_headers(rng, with_host=rng.random() < 0.85, cl=cl)[:3]
        g = (m, rng.choice(TARGETS[:12]), rng.random() < 0.7, hl)
        shorts.append((g, body_bytes(cl or 0) + (NEXT[:rng.randrange(0, 20)] if rng.random() < 0.5 else b"")))
    for g, tail in shorts:
        s = print_head(*g) + tail
        if len(s) > 120 and quick:
            continue
        dh = None if any(n.lower() == b"host" for n, _, _ in g[3]) else b"default.host"
        cases.append(mkreq(s, [len(s)], "cut", dh=dh, g=g))
        for c in range(1, len(s)):
            cases.append(mkreq(s, [c, len(s) - c], "cut", dh=dh, g=g, profile="nochk" if c % 5 == 0 else "dev"))
        for c in range(1, len(s) - 1, 4 if quick else 1):       # three pieces
            d = rng.randrange(c + 1, len(s))
            cases.append(mkreq(s, [c, d - c, len(s) - d], "cut3", dh=dh, g=g))
        cases.append(mkreq(s, [1] * len(s), "cut1", dh=dh, g=g))

    # ---- the same bytes with bare-LF line ends (the code accepts them): every cut position, segmentation-blind oracle
    for g, tail in shorts[:5]:
        s = print_head(*g) + tail
        dh = None if any(n.lower() == b"host" for n, _, _ in g[3]) else b"default.host"
        for v in (s.replace(b"\r\n", b"\n"), s.replace(b"\r\n", b"\n", 1), s.replace(b"\r\n\r\n", b"\n\r\n"), s.replace(b"\r\n\r\n", b"\r\n\n")):
            if v == s:
                continue
            for c in range(1, len(v), 1 if not quick else 2):
                cases.append(mkreq(v, [c, len(v) - c], "cut-lf", dh=dh))
            cases.append(mkreq(v, [1] * len(v), "cut-lf", dh=dh))

    # ---- grammar requests with random multi-cut schedules ------------------------------------------------------------
    nrand = 500 if quick else 30000
    for _ in range(nrand):
        m = rng.choice(METHODS)
        cl = rng.choice([None, None, 0, 1, 31, 32, 33, 100]) if m in BODY_METHODS or rng.random() < 0.2 else None
        has_host = rng.random() < 0.85
        hl = rand_headers(rng, with_host=has_host, cl=cl)
        if rng.random() < 0.1:
            hl.append(hline(b"x-long", 1, b"v" * rng.choice([200, 500, 1000, 3000])))
        g = (m, rng.choice(TARGETS), rng.random() < 0.7, hl)
        head = print_head(*g)
        have = rng.choice([cl or 0, cl or 0, (cl or 0) + 10, max(0, (cl or 0) - 3)])
        tail = body_bytes(have, rng.randrange(50)) + (NEXT if rng.random() < 0.4 else b"")
        s = head + tail
        dh = None if has_host and rng.random() < 0.9 else rng.choice([None, b"default.host", b"d:81"])
        limit = rng.choice([BIG_LIMIT, BIG_LIMIT, 0, 1, 20, 32, 50])
        sched = rand_sched(rng, len(s))
        if rng.random() < 0.15 and sched:
            sched = sched[:rng.randrange(0, len(sched))]        # the peer stops early
        cases.append(mkreq(s, sched, "grammar", https=rng.random() < 0.3, dh=dh, mode=rng.choice([0, 0, 0, 2]), limit=limit, g=g,
                           profile=rng.choice(PROFILES)))

    # ---- bad Host values / targets the http crate refuses (the URI assembly is modelled byte for byte) ----------
    for h in HOSTS:
        for t in (TARGETS if not quick else TARGETS[::3]):
            g = (b"GET", t, True, [hline(b"Host", 1, h)])
            s = print_head(*g)
            cases.append(mkreq(s, [len(s)], "uri", g=g))

    # ---- heads around the capacity thresholds -----------------------------------------------------------------------
    th = THRESHOLDS if not quick else [511, 512, 513, 1024, 4096, 16128, 16129, 16383, 16384, 16385]
    for size in th:
        hl = padded_head(b"GET", b"/t", [hline(b"Host", 1, b"a")], size)
        g = (b"GET", b"/t", True, hl)
        s = print_head(*g)
        assert len(s) == size
        cases.append(mkreq(s, [size], "threshold", g=g))
        cases.append(mkreq(s + NEXT, [size + 5, 100], "threshold", g=g))
        cases.append(mkreq(s, [512] * 40, "threshold", g=g))
        cases.append(mkreq(s, [size - 1, 1], "threshold", g=g))
        cases.append(mkreq(s, [size - 2, 100], "threshold", g=g))
        # land the buffer length on t, then deliver the rest
        for t in ([16128, 16129, 16200, 16383] if size > 16129 else [size // 2]):
            if t < size:
                cases.append(mkreq(s, [t, 100000], "threshold", g=g))
                cases.append(mkreq(s + b"z" * 40000, [t, 100000, 100000, 100000], "threshold", g=g))
    # unterminated heads: must end in an error for every read pattern
    junk = b"GET / HTTP/1.1\r\nHost: a\r\nx: " + b"a" * 40000
    for t in ([16129, 16383] if quick else [15872, 15873, 16000, 16128, 16129, 16130, 16255, 16382, 16383]):
        cases.append(mkreq(junk, [t] + [100000] * 4, "unterminated"))
        cases.append(mkreq(junk, [512, 512, 1024, 2048, 4096, t - 8192] + [100000] * 4, "unterminated"))
        cases.append(mkreq(junk, [t, 1, 1, 1, 100000, 100000], "unterminated"))
    cases.append(mkreq(junk, [100000] * 10, "unterminated"))
    cases.append(mkreq(junk, [511] * 100, "unterminated"))
    # the same with other limits (the head limit is a parameter of read::request)
    for ml in ([600, 2000] if quick else [100, 511, 512, 513, 600, 1000, 1024, 2000, 5000]):
        for size in (ml - 1, ml, ml + 1):
            hl = padded_head(b"GET", b"/t", [hline(b"Host", 1, b"a")], size)
            if hl is None:
                continue
            g = (b"GET", b"/t", True, hl)
            s = print_head(*g)
            for sc in ([size], [ml - 100, 1000], [ml - 300, 1000], [max(1, ml - 256), 1000], [ml - 1, 1000], [300] * 30):
                if all(b > 0 for b in sc):
                    cases.append(mkreq(s + NEXT, sc, "limit", max_len=ml, g=g))
        for t in (ml - 255, ml - 100, ml - 1):
            if t > 0:
                cases.append(mkreq(junk, [t, 100000, 100000], "limit", max_len=ml))

    # ---- bodies -------------------------------------------------------------------------------------------------------
    for cl in (0, 1, 31, 32, 33, 100, 5000):
        for trailing in (b"", NEXT):
            for limit in (BIG_LIMIT, 40, 0) if not quick else (BIG_LIMIT, 40):
                g = (b"POST", b"/upload", True, [hline(b"Host", 1, b"a"), hline(b"Content-Length", 1, b"%d" % cl)])
                head = print_head(*g)
                s = head + body_bytes(cl) + trailing
                scheds = [[len(s)], [len(head), len(s)], [len(head) + cl // 2, 30, len(s)], [len(head) + 1, 1, 1, len(s)],
                          [len(head), 1] + [1000] * 8, [len(head) + max(0, cl - 20), 5, len(s)], [len(head)] + [31] * (cl // 31 + 2)]
                for sc in scheds:
                    sc = [b for b in sc if b > 0]
                    cases.append(mkreq(s, sc, "body", limit=limit, g=g))
                # the client sends less than it announced
                if cl > 1:
                    short = head + body_bytes(cl)[:cl - 1]
                    for mode in (0, 2) + ((1,) if cl in (32, 5000) else ()):
                        cases.append(mkreq(short, [len(head) + cl // 2, len(short)], "body-short", mode=mode, limit=limit, g=g))
        for el in (0, 1, cl // 2, max(0, cl - 1), cl, cl + 7):
            for limit in (BIG_LIMIT, 33):
                early = body_bytes(cl + 7)[:el]
                rest = body_bytes(cl + 7)[el:] + NEXT
                for sc in ([len(rest)], [1, len(rest)], [30, 1000], [max(1, cl - el - 1), 1000], [5] * 12 + [10000]):
                    cases.append(mkbody(early, cl, limit, rest, sc, "body-direct", profile=rng.choice(PROFILES)))
    cases.append(mkbody(b"", 2 ** 64 - 1, 100, b"q" * 300, [50, 1000], "body-direct"))
    cases.append(mkbody(b"abc", 10, BIG_LIMIT, b"", [], "body-direct", mode=2))
    cases.append(mkbody(b"abc", 10, BIG_LIMIT, b"defg", [10], "body-direct", mode=0))
    cases.append(mkbody(b"abc", 10, BIG_LIMIT, b"defg", [10], "body-direct", mode=1))
    nb = 150 if quick else 5000
    for _ in range(nb):
        cl = rng.choice([0, 1, 5, 31, 32, 33, 40, 63, 64, 100, 1000, 1023, 1024, 1056, 1500, 5000])
        el = rng.randrange(0, cl + 10)
        total = body_bytes(cl + 40, rng.randrange(90))
        rest = total[el:el + rng.choice([0, max(0, cl - el), max(0, cl - el) + 33, max(0, cl - el - 2)])]
        cases.append(mkbody(total[:el], cl, rng.choice([BIG_LIMIT, BIG_LIMIT, cl // 2 + 1, 32, 31]), rest, rand_sched(rng, max(1, len(rest)), 8),
                            "body-random", mode=rng.choice([0, 0, 2]), profile=rng.choice(PROFILES)))

    # ---- stalled heads: every prefix of a valid head, the peer then closes / errors / hangs -------------------
    g = (b"POST", b"/s?x=1", True, [hline(b"Host", 1, b"ex.org"), hline(b"X-A", 0, b"b c")])
    s = print_head(*g)
    for n in range(0, len(s)):
        for mode in (0, 2):
            cases.append(mkreq(s[:n], [max(1, n)], "stalled", mode=mode, dh=b"d"))
            cases.append(mkreq(s, [n] if n else [], "stalled", mode=mode, dh=b"d", g=g))
    for n in (0, 1, 5, 17, len(s) - 1) if quick else range(0, len(s), 3):
        cases.append(mkreq(s[:n], [max(1, n)], "stalled", mode=1, dh=b"d"))

    # ---- malformed streams -------------------------------------------------------------------------------------------------
    bad = [
        b"", b"\r\n\r\n", b"\n\n", b" / HTTP/1.1\r\n\r\n", b"GET\r\n\r\n", b"GET /\r\n\r\n", b"GET / \r\n\r\n", b"GET  / HTTP/1.1\r\n\r\n",
        b"GET / HTTP/1.1\n\n", b"GET / HTTP/1.1\nHost: a\n\n", b"GET / HTTP/1.1\r\nHost: a\n\r\n", b"GET / HTTP/1.1\r\nHost a\r\n\r\n",
        b"GET / HTTP/1.1\r\nHost\r\n\r\n", b"GET / HTTP/1.1\r\n: v\r\n\r\n", b"GET / HTTP/1.1\r\n:v\r\n\r\n", b"GET / HTTP/1.1\r\n a: b\r\n\r\n",
        b"GET / HTTP/1.1\r\na : b\r\n\r\n", b"GET / HTTP/1.1\r\na: b\r\n c\r\n\r\n", b"GET / HTTP/1.1\r\na: \n\r\n", b"GET / HTTP/1.1\r\na:\n\n",
        b"GET / HTTP/1.1\r\na: b\rc\r\n\r\n", b"GET / HTTP/1.1\r\na: b\x00c\r\n\r\n", b"GET / HTTP/1.1\r\na\x00: b\r\n\r\n",
        b"GET / HTTP/1.1\r\nHost: \xff\xfe\r\n\r\n", b"GET /\xff HTTP/1.1\r\nHost: a\r\n\r\n", b"GET /\xc3 HTTP/1.1\r\nHost: a\r\n\r\n",
        b"GET /\x00 HTTP/1.1\r\nHost: a\r\n\r\n", b"G\rET / HTTP/1.1\r\nHost: a\r\n\r\n", b"GET /a\rb HTTP/1.1\r\nHost: a\r\n\r\n",
        b"GET /a\nb HTTP/1.1\r\nHost: a\r\n\r\n", b"GET / HTTP/1.1\rX\r\nHost: a\r\n\r\n", b"GET / HTTP/1.1X\r\nHost: a\r\n\r\n",
        b"GET / HTTP/1.12\r\nHost: a\r\n\r\n", b"GET / HTTP/1.2\r\nHost: a\r\n\r\n", b"GET / HTTP/2\r\nHost: a\r\n\r\n", b"GET / HTTP/3\r\nHost: a\r\n\r\n",
        b"GET / HTTP/0.9\r\nHost: a\r\n\r\n", b"GET / http/1.1\r\nHost: a\r\n\r\n", b"GET / HTTP/1.1 \r\nHost: a\r\n\r\n",
        b"PROPFIND / HTTP/1.1\r\nHost: a\r\n\r\n", b"PROPPATCH / HTTP/1.1\r\nHost: a\r\n\r\n", b"OPTIONSX / HTTP/1.1\r\nHost: a\r\n\r\n",
        b"get / HTTP/1.1\r\nHost: a\r\n\r\n", b"FOO / HTTP/1.1\r\nHost: a\r\n\r\n", b"GE", b"GET", b"GETGETGET", b"XXXXXXXXX", b"XXXXXXXX",
        b"HTTP/1.1 200 OK\r\n\r\n", b"HTTP/1.1 / HTTP/1.1\r\nHost: a\r\n\r\n", b"GET(/ HTTP/1.1\r\nHost: a\r\n\r\n", b"GET\t/ HTTP/1.1\r\nHost: a\r\n\r\n",
        b"GET / HTTP/1.1\r\nHost: a\r\nHost: b\r\n\r\n", b"GET / HTTP/1.1\r\nHost: a\r\nhost: b\r\n\r\n", b"GET / HTTP/1.1\r\nhost:a\r\nHOST:  b  \r\n\r\n",
        b"GET / HTTP/1.1\r\nHost: a\r\n\r\r\n", b"GET / HTTP/1.1\r\n\rHost: a\r\n\r\n", b"GET / HTTP/1.1\r\nHost: a\r\n\n", b"GET / HTTP/1.1\r\r\n\r\r\n",
        b"POST / HTTP/1.1\r\nHost: a\r\nContent-Length: +3\r\n\r\nabcd", b"POST / HTTP/1.1\r\nHost: a\r\nContent-Length: 3 \r\n\r\nabcd",
        b"POST / HTTP/1.1\r\nHost: a\r\nContent-Length: -3\r\n\r\nabcd", b"POST / HTTP/1.1\r\nHost: a\r\nContent-Length: 18446744073709551616\r\n\r\nabcd",
        b"POST / HTTP/1.1\r\nHost: a\r\nContent-Length: 18446744073709551615\r\n\r\nabcd", b"POST / HTTP/1.1\r\nHost: a\r\nContent-Length: 3\xff\r\n\r\nabcd",
        b"POST / HTTP/1.1\r\nHost: a\r\nContent-Length: 0x3\r\n\r\nabcd", b"POST / HTTP/1.1\r\nHost: a\r\nContent-Length:\t3\r\n\r\nabcd",
        b"GET / HTTP/1.1\r\nHost: a\r\nContent-Length: 3\r\n\r\nabcd", b"GET / HTTP/1.1\r\n" + b"a" * 70 + b": b\r\nHost: a\r\n\r\n",
        b"GET /" + b"a" * 9000 + b" HTTP/1.1\r\nHost: " + b"h" * 7000 + b"\r\n\r\n",
        b"GET / HTTP/1.1\r\nHost: a:1:2\r\n\r\n", b"GET / HTTP/1.1\r\nHost: [::1]:1:2\r\n\r\n", b"GET / HTTP/1.1\r\nHost: a:::::::::\r\n\r\n",
        b"\x16\x03\x01\x02\x00\x01\x00\x01\xfc\x03\x03" + b"\x00" * 30,
    ]
    for s in bad:
        for sc in ([max(1, len(s))], [1] * len(s), rand_sched(rng, max(1, len(s))), [3, 100000]):
            cases.append(mkreq(s, sc, "malformed", dh=rng.choice([None, b"d"]), mode=rng.choice([0, 2]), profile=rng.choice(PROFILES)))
    alphabet = b"GET / HTTP/1.1\r\n\r\n: \x00\xff\tPOSThost0123456789-_?#%[]@"
    nm = 600 if quick else 40000
    for _ in range(nm):
        m = rng.choice(METHODS)
        cl = rng.choice([None, 3])
        g = (m, rng.choice(TARGETS), rng.random() < 0.7, rand_headers(rng, cl=cl))
        s = bytearray(print_head(*g) + body_bytes(cl or 0))
        for _ in range(rng.choice([1, 1, 2, 3])):
            op = rng.randrange(3)
            pos = rng.randrange(len(s) + 1)
            if op == 0:
                s.insert(pos, rng.choice(alphabet))
            elif op == 1 and s:
                del s[min(pos, len(s) - 1)]
            elif s:
                s[min(pos, len(s) - 1)] = rng.choice(alphabet)
        s = bytes(s)
        cases.append(mkreq(s, rand_sched(rng, max(1, len(s)), 3), "mutated", dh=rng.choice([None, b"d"]), mode=rng.choice([0, 2]),
                           https=rng.random() < 0.2, g=g, profile=rng.choice(PROFILES)))

    # ---- parse::headers directly -----------------------------------------------------------------------------------------
    nh = 300 if quick else 20000
    for _ in range(nh):
        hl = rand_headers(rng, with_host=rng.random() < 0.5)
        block = b"".join(n + b":" + b" " * sp + v + b"\r\n" for n, sp, v in hl) + b"\r\n"
        r = rng.random()
        if r < 0.4:
            cases.append(mkhdr(block + body_bytes(rng.randrange(0, 9)), hl, "headers", profile=rng.choice(PROFILES)))
        else:
            b = bytearray(block)
            for _ in range(rng.choice([1, 1, 2, 4])):
                op = rng.randrange(3)
                pos = rng.randrange(len(b) + 1)
                if op == 0:
                    b.insert(pos, rng.choice(b"\r\n: \x00\xffab\t"))
                elif op == 1 and b:
                    del b[min(pos, len(b) - 1)]
                elif b:
                    b[min(pos, len(b) - 1)] = rng.choice(b"\r\n: \x00\xffab\t")
            cases.append(mkhdr(bytes(b), None, "headers-mutated", profile=rng.choice(PROFILES)))
    if not quick:
        # bounded-exhaustive header blocks over the structural alphabet
        import itertools
        for n in range(0, 7):
            for t in itertools.product(b"a: \r\n", repeat=n):
                cases.append(mkhdr(bytes(t), None, "headers-exhaustive"))
    else:
        import itertools
        for n in range(0, 5):
            for t in itertools.product(b"a: \r\n", repeat=n):
                cases.append(mkhdr(bytes(t), None, "headers-exhaustive"))
    return cases


def _fields(x):
    return x[1] if x[0] == "L" else None


def spec_ok(c, i, s):
    if i == "(L (N 2))":
        return False            # a panic is never acceptable (C02)
    if s == "(L (N 7))":
        return True
    if s == "(L (N 1))":
        return i.startswith("(L (N 1) ")
    if s.startswith("(L (N 1) "):
        return i == s           # the segmentation-blind specification names the error class
    if c.comp == "h1.request":
        xs = kv.xparse(s)
        xi = kv.xparse(i)
        want = xs[1][1][1]                   # fields + body outcome + head end
        if xi[1][0] != ("N", 0):
            return False
        got = xi[1][1][1]
        k = want[7][1]
        stream = c.x[1][4][1]
        early = got[6][1]
        return got[0:6] + [got[7]] == want[0:7] and early == stream[k:k + len(early)]
    return i == s


def signature(c, m):
    kind = c.meta.get("kind", "")
    return m[:40] if len(m) > 40 else m


def classify(c, i):
    return None


def directed(rng, mismatches):
    """after a broken proof / correspondence: short requests x every cut, every burst size around the limit, bare-LF variants"""
    cases = []
    g = (b"POST", b"/d?q", True, [hline(b"Host", 0, b"h"), hline(b"Content-Length", 2, b"4"), hline(b"X", 1, b"")])
    s = print_head(*g) + b"bodyNEXT"
    for a in range(1, len(s)):
        for b in range(a + 1, len(s), 3):
            cases.append(mkreq(s, [a, b - a, len(s)], "directed-cut", g=g))
    for variant in (s.replace(b"\r\n", b"\n"), s.replace(b"\r\n", b"\n", 1), s.replace(b": ", b":"), s.replace(b"\r\n\r\n", b"\n\r\n")):
        for a in range(1, len(variant)):
            cases.append(mkreq(variant, [a, len(variant)], "directed-variant"))
    junk = b"GET / HTTP/1.1\r\nHost: a\r\nx: " + b"a" * 40000
    for t in range(16000, 16390, 7):
        cases.append(mkreq(junk, [t, 100000, 100000, 100000], "directed-limit"))
        hl = padded_head(b"GET", b"/t", [hline(b"Host", 1, b"a")], t)
        gg = (b"GET", b"/t", True, hl)
        cases.append(mkreq(print_head(*gg) + b"zz", [t - 3, 100000], "directed-limit", g=gg))
    for cl in range(0, 70):
        for el in (0, cl // 2, cl):
            cases.append(mkbody(body_bytes(el), cl, BIG_LIMIT, body_bytes(cl + 40)[el:], [max(1, cl - el - 30), 30, 1000], "directed-body"))
    return cases + generate(rng, "quick")


def describe(c):
    x = c.x[1]
    if c.comp == "h1.request":
        return {"component": c.comp, "kind": c.meta.get("kind"), "profile": c.profile, "stream": kv.pretty(x[4], 100),
                "schedule": kv.pretty(x[5], 80), "max_len": x[2][1], "end_mode": x[3][1], "limit": x[6][1]}
    return {"component": c.comp, "kind": c.meta.get("kind"), "profile": c.profile, "input": kv.pretty(c.x, 160)}


RULE = ("scripted AsyncRead (delivers the stream in the burst sizes of a schedule, then closes / errors / pends) into the real "
        "kvarn_async::read::request and kvarn::application::Http1Body::read_to_bytes, plus kvarn_utils::parse::headers directly, in the debug and the "
        "overflow-unchecked build; compared with the extracted Coq model (correspondence: method, path, query, version, sorted header list, authority, "
        "early body bytes, body outcome, bytes taken from the connection, or the error class) and with the executable specification (oracle: for a "
        "request printed from the grammar the fields and the body must be exactly the printed ones (expect); for every other stream the fields, the "
        "body outcome or the error class must be serve_spec of the delivered bytes, a function without schedule (theorem segmentation_blind); the "
        "early body bytes must be the bytes of the stream right after the head; no blank line within min(16 KiB, delivered bytes) => error; never a "
        "panic). Generators: the short messages also with bare-LF line ends in four mixes x every cut position; grammar requests x every cut position (2 and 3 pieces, byte-by-byte) for short messages, random "
        "multi-cut schedules, heads of size 511..16385 with bursts that land the buffer on the capacity thresholds, other head limits, "
        "content-length {0,1,31,32,33,100,5000} x trailing pipelined request x caller limits x early/late splits, truncated heads and bodies "
        "(EOF / error / stall), 100 hand-written malformed heads, random mutations, Host values and targets the http crate refuses, "
        "bounded-exhaustive header blocks over {a : SP CR LF}. distinct_nontrivial counts distinct (component, input, model outcome prefix) triples")
ASSUMPTIONS = [
    "read schedule = list of burst sizes; each read returns min(burst, window, bytes left) bytes; the exact theorems (parse_print*, "
    "schedule_independent*, segmentation_blind, body_*) take schedules of non-empty bursts (sched_pos: a 0-byte read is how a peer says EOF, "
    "modelled by the end mode), head_limit / stalled_head hold for every schedule",
    "BytesMut::reserve, when it reallocates, yields a capacity >= len + additional (theorems hold for every such growth function; the "
    "correspondence instantiates it with Vec's amortised doubling max(2*cap, len+additional, 8))",
    "http 1.5.0: Method::from_bytes, HeaderName::from_bytes, HeaderValue::from_maybe_shared/to_str, Uri::from_maybe_shared (scheme http/https, "
    "authority scan, path/query classes, UTF-8 check) are transcribed into the model and validated by the differential run, not proved against "
    "the crate; parse_print takes the crate's verdict on the target as the hypothesis parse_uri .. = Some ..",
    "HeaderMap::insert's MAX_SIZE (32768 entries) panic is not modelled: unreachable below 96 KiB of head",
    "a reader that pends for ever during the body is cut off by the harness after 60 ms and reported as TimedOut, which is what kvarn's own 30 s "
    "tokio timeout produces; the head timeout is the function's parameter (15 ms in the harness, 5 s in kvarn)",
    "Http1Body is observed through read_to_bytes (what Body::read_to_bytes gives to handlers); its raw AsyncRead::poll_read is not part of the theorems",
]
TRUSTED = ["modelled: async/src/lib.rs read_more/read_headers/contains_two_newlines/read::request, utils/src/parse.rs headers/version, "
           "utils/src/lib.rs valid_method/valid_version/get_body_length_request, src/application.rs Http1Body::read_to_bytes over "
           "async/src/lib.rs read_to_end_or_max and tokio's Take"]
LEVEL_TEXT = ("Machine-checked Coq theorems (11, no axioms) over a byte-level executable model of the HTTP/1 request reader (read loop with "
              "buffer growth through an arbitrary growth function, request-line state machine, header parser with its absolute indices, URI "
              "assembly, body length, body reader) driven by an arbitrary read schedule (list of burst sizes). parse_print: for every request "
              "of the grammar (token method of <= 7 letters, target without SP/CR/LF, HTTP/1.0|1.1, header lines name ':' SP^k value CRLF for "
              "every k >= 0, names unique up to case, visible-ASCII values) followed by any bytes, every schedule delivering head + body, every "
              "growth function and every end mode, the reader returns exactly method, path, query, version, header list, authority and the "
              "first min(content-length, limit) bytes after the blank line. parse_print_head: the same for the parser alone, with the bytes "
              "after the head returned unchanged. parse_print_lf / parse_print_head_lf: the same when the request line, any of the header "
              "lines and the blank line end in a bare LF instead of CRLF (what the code accepts). schedule_independent: two schedules / "
              "growth functions / end modes give the same request and body. segmentation_blind: for EVERY byte stream the observable result "
              "(fields + body outcome, or the error class) equals serve_spec of the delivered bytes, a function without schedule or "
              "capacities, so malformed heads too are read independently of the segmentation (schedule_independent_any_stream). head_limit / "
              "stalled_head: no blank line within max_len (16384) bytes resp. within the delivered bytes => an error, for every schedule "
              "incl. 0-byte reads and every growth function whatsoever. body_exact / body_any_schedule: read_to_bytes returns exactly "
              "min(content-length, limit) bytes and leaves the rest of the stream (the next request) on the connection; short bodies end as "
              "EOF-prefix / TimedOut / I/O error. All by induction over the stream / the schedule with invariants on the reader state, none "
              "by enumeration. The model is tied to the code on every run by a differential run of the real functions over a scripted AsyncRead.")
LEVEL_NOTE = ("Trusted: Coq kernel, extraction (reduced by the in-kernel recheck sample), the hand transcription of the anchored Rust functions as "
              "validated by the differential run (exact equality incl. early bytes and bytes consumed), the http/bytes/tokio crates below the "
              "modelled functions (http's Uri/HeaderName/HeaderValue/Method checks are transcribed, parse_print takes the Uri verdict as the "
              "hypothesis expect .. = Some ..). Not covered: optional whitespace other than SP after the colon (a TAB stays in the value) and "
              "trailing SP (kept in the value); requests whose names repeat; Http1Body as raw AsyncRead (only read_to_bytes). Seven defects were "
              "found and repaired (fixed: lines in known-findings.txt); the theorems are about the repaired code.")
TECHNIQUE = "Coq proof (model satisfies the specification for all requests, schedules and growth functions) + differential correspondence model vs. implementation"
EXHAUSTIVE = False

ERRS = r"(e = E_TOO_LONG \/ e = E_UNEXPECTED_END \/ e = E_SYNTAX)"
NEED = r"N.to_nat (N.min (body_length (g_method g) (g_hmap g)) limit)"
THEOREMS = [
    ("parse_print",
     r"forall grow mode https dh (max_len : nat) limit (g : greq) rest (sched : list nat) e, grow_ok grow -> sched_pos sched -> greq_ok g = true -> (length (print_head g) <= max_len)%nat -> expect https dh limit g rest = Some e -> (NEED <= length rest)%nat -> (length (print_head g) + NEED <= sum_sched sched)%nat -> exists sv, serve grow mode https dh max_len limit (print_head g ++ rest) sched = Ok sv /\ observed sv = Some e".replace("NEED", NEED)),
    ("parse_print_head",
     r"forall https dh (g : greq) extra host auth path query, greq_ok g = true -> g_host dh g = Some host -> parse_uri https host (g_target g) = Some (auth, path, query) -> parse_request https dh (print_head g ++ extra) = Ok (mk_request (g_method g) path query (if g_v11 g then 11 else 10) (g_hmap g) auth extra)"),
    ("parse_print_lf",
     r"forall grow mode https dh (max_len : nat) limit (l0 : bool) (fl : list bool) (lb : bool) (g : greq) rest (sched : list nat) e, grow_ok grow -> sched_pos sched -> greq_ok g = true -> (length (print_head_e l0 fl lb g) <= max_len)%nat -> expect https dh limit g rest = Some e -> (NEED <= length rest)%nat -> (length (print_head_e l0 fl lb g) + NEED <= sum_sched sched)%nat -> exists sv, serve grow mode https dh max_len limit (print_head_e l0 fl lb g ++ rest) sched = Ok sv /\ observed sv = Some e".replace("NEED", NEED)),
    ("parse_print_head_lf",
     r"forall https dh (l0 : bool) (fl : list bool) (lb : bool) (g : greq) extra host auth path query, greq_ok g = true -> g_host dh g = Some host -> parse_uri https host (g_target g) = Some (auth, path, query) -> parse_request https dh (print_head_e l0 fl lb g ++ extra) = Ok (mk_request (g_method g) path query (if g_v11 g then 11 else 10) (g_hmap g) auth extra)"),
    ("schedule_independent",
     r"forall grow1 grow2 mode1 mode2 https dh (max_len : nat) limit (g : greq) rest (sched1 sched2 : list nat), grow_ok grow1 -> grow_ok grow2 -> sched_pos sched1 -> sched_pos sched2 -> greq_ok g = true -> (length (print_head g) <= max_len)%nat -> expect https dh limit g rest <> None -> (NEED <= length rest)%nat -> (length (print_head g) + NEED <= sum_sched sched1)%nat -> (length (print_head g) + NEED <= sum_sched sched2)%nat -> exists sv1 sv2, serve grow1 mode1 https dh max_len limit (print_head g ++ rest) sched1 = Ok sv1 /\ serve grow2 mode2 https dh max_len limit (print_head g ++ rest) sched2 = Ok sv2 /\ observed sv1 = observed sv2 /\ observed sv1 <> None".replace("NEED", NEED)),
    ("segmentation_blind",
     r"forall grow mode https dh (max_len : nat) limit stream (sched : list nat), grow_ok grow -> sched_pos sched -> result_view (serve grow mode https dh max_len limit stream sched) = serve_spec mode https dh max_len limit (firstn (sum_sched sched) stream)"),
    ("schedule_independent_any_stream",
     r"forall grow1 grow2 mode https dh (max_len : nat) limit stream (sched1 sched2 : list nat), grow_ok grow1 -> grow_ok grow2 -> sched_pos sched1 -> sched_pos sched2 -> firstn (sum_sched sched1) stream = firstn (sum_sched sched2) stream -> result_view (serve grow1 mode https dh max_len limit stream sched1) = result_view (serve grow2 mode https dh max_len limit stream sched2)"),
    ("head_limit",
     r"forall grow mode https dh (max_len : nat) limit stream (sched : list nat), contains_two_newlines (firstn max_len stream) = false -> exists e, serve grow mode https dh max_len limit stream sched = Err e /\ " + ERRS),
    ("stalled_head",
     r"forall grow mode https dh (max_len : nat) limit stream (sched : list nat), contains_two_newlines (firstn (sum_sched sched) stream) = false -> exists e, serve grow mode https dh max_len limit stream sched = Err e /\ " + ERRS),
    ("body_exact",
     r"forall grow mode early (cl limit : N) stream (sched : list nat), grow_ok grow -> sched_pos sched -> (N.to_nat (N.min cl limit) <= length early + Nat.min (sum_sched sched) (length stream))%nat -> exists r', read_to_bytes grow mode early cl limit (mk_reader stream sched) = Ok (firstn (N.to_nat (N.min cl limit)) (early ++ stream), r') /\ rd_data r' = skipn (N.to_nat (N.min cl limit) - length early) stream"),
    ("body_any_schedule",
     r"forall grow mode early (cl limit : N) stream (sched : list nat), grow_ok grow -> sched_pos sched -> match body_spec mode early cl limit (firstn (sum_sched sched) stream) with | Ok b => exists r', read_to_bytes grow mode early cl limit (mk_reader stream sched) = Ok (b, r') | Err e => read_to_bytes grow mode early cl limit (mk_reader stream sched) = Err e | Panic => False end"),
]
