"""C07 — HTTP/1 requests are parsed exactly, independent of TCP segmentation."""
import kv
from kv import Case, xn, xb, xl, xlist, xopt, xbool

ID = "C07"
MODULE = "C07"
IMPORTS = "Bytes RustInt Http1Read Http1ReadOld Http1ReadProofs Http1ReadParseProofs Http1ReadLocalProofs Http1ReadLfProofs Http1ReadBodyProofs Http1ReadTermProofs"
PROFILES = ("dev", "nochk")
KERNEL_SAMPLE = 30
THEOREMS = []   # filled in below (kept at the end of the file for readability)

MAXLEN = 16384
BIG_LIMIT = 65536
THRESHOLDS = [511, 512, 513, 1023, 1024, 1025, 2047, 2048, 2049, 4095, 4096, 4097, 8191, 8192, 8193,
              15872, 15873, 16127, 16128, 16129, 16130, 16255, 16383, 16384, 16385]

METHODS = [b"GET", b"HEAD", b"POST", b"PUT", b"DELETE", b"TRACE", b"OPTIONS", b"CONNECT", b"PATCH", b"COPY", b"LOCK",
           b"MKCOL", b"MOVE", b"UNLOCK", b"GETX", b"PUT-IT", b"POST.1", b"COPY_2",
           # any token of up to 7 bytes is a method (extension methods)
           b"PURGE", b"REPORT", b"SEARCH", b"QUERY", b"get", b"A", b"x-y.z!~", b"BREW", b"M-SRCH"]
BODY_METHODS = [b"POST", b"PUT", b"DELETE", b"PATCH", b"COPY", b"MKCOL", b"POSTS", b"PURGE", b"REPORT", b"QUERY"]
TARGETS = [b"/", b"/a", b"/index.html", b"/a/b/c.txt", b"/x?y=1", b"/?q", b"/a?", b"/search?q=a+b&lang=sv", b"/a%20b",
           b"/~u/_-.!$&'()*+,;=:@", b"/a//b/../c", b"/\xc3\xa9", b"/a?k=\xc3\xa5", b"/{\"j\":1}", b"/a#frag", b"/a?b#c", b"?x", b"#f",
           b"/a|b", b"/a?b|c"]
NAMES = [b"Host", b"host", b"HOST", b"Accept", b"accept-encoding", b"User-Agent", b"X-A", b"x-b", b"Cookie", b"Range",
         b"If-None-Match", b"X_under", b"x.dot", b"a", b"Z9", b"content-type", b"Connection", b"Cache-Control", b"x!#$%&'*+-.^_`|~"]
VALUES = [b"", b"a", b"b c", b"text/html; q=0.9, */*", b"Mozilla/5.0 (X11; Linux x86_64)", b"\"quoted\"", b"a:b", b":x", b"x  y",
          b"keep-alive", b"bytes=0-1", b"trailing", b"~!@#$%^&*()_+", b"1", b"W/\"abc\"", b"tab\tinside", b"a \t b", b"caf\xc3\xa9", b"\xff\x80"]
OWS_STRINGS = [b"", b"", b" ", b"\t", b"  ", b"\t\t", b" \t", b"\t ", b" \t \t  "]
HOSTS = [b"example.org", b"localhost", b"localhost:8080", b"a", b"EXAMPLE.com", b"[::1]", b"[::1]:80", b"127.0.0.1", b"sub.dom-ain.example",
         b"user@h", b"h:80:90", b"a b", b"h/evil", b"", b"h%41", b"[::1", b"x@", b"h?x"]


def hline(name, sp, value, pre=b"", post=b"", lf=False):
    """name ":" SP^sp pre value post (CRLF | LF): pre/post = further optional whitespace (spaces, tabs)"""
    if not pre and not post and not lf:
        return (name, sp, value)
    return (name, sp, value, pre, post, lf)


def hl6(h):
    return h if len(h) == 6 else (h[0], h[1], h[2], b"", b"", False)


def print_hline(h):
    n, sp, v, pre, post, lf = hl6(h)
    return n + b":" + b" " * sp + pre + v + post + (b"\n" if lf else b"\r\n")


def print_head(method, target, v11, hlines, l0=False, lb=False):
    out = method + b" " + target + b" " + (b"HTTP/1.1" if v11 else b"HTTP/1.0") + (b"\n" if l0 else b"\r\n")
    for h in hlines:
        out += print_hline(h)
    return out + (b"\n" if lb else b"\r\n")


def x_hline(h):
    if len(h) == 3:
        return xl(xb(h[0]), xn(h[1]), xb(h[2]))
    return xl(xb(h[0]), xn(h[1]), xb(h[2]), xb(h[3]), xb(h[4]), xbool(h[5]))


def x_greq(g):
    if g is None:
        return xopt(None)
    if len(g) == 4:
        method, target, v11, hlines = g
        return xopt(xl(xb(method), xb(target), xbool(v11), xlist([x_hline(h) for h in hlines])))
    method, target, v11, hlines, l0, lb = g
    return xopt(xl(xb(method), xb(target), xbool(v11), xlist([x_hline(h) for h in hlines]), xbool(l0), xbool(lb)))


def decorate(rng, g, lf_too=True):
    """the same request with random optional whitespace around the values and (lf_too) random bare-LF line ends"""
    method, target, v11, hlines = g[:4]
    out = []
    for h in hlines:
        n, sp, v = h[0], h[1], h[2]
        pre = rng.choice(OWS_STRINGS)
        post = rng.choice(OWS_STRINGS) if v else b""      # whitespace after an empty value is whitespace before it
        out.append(hline(n, sp, v, pre, post, lf_too and rng.random() < 0.3))
    return (method, target, v11, out, lf_too and rng.random() < 0.2, lf_too and rng.random() < 0.2)


def mkreq(stream, sched, kind, https=False, dh=None, max_len=MAXLEN, mode=0, limit=BIG_LIMIT, g=None, profile="dev"):
    x = xl(xbool(https), xopt(None if dh is None else xb(dh)), xn(max_len), xn(mode), xb(stream),
           xlist([xn(b) for b in sched]), xn(limit), x_greq(g))
    return Case("h1.request", x, "h1.request.spec", {"kind": kind}, profile)


def mkbody(early, cl, limit, stream, sched, kind, mode=0, profile="dev"):
    x = xl(xb(early), xn(cl), xn(limit), xn(mode), xb(stream), xlist([xn(b) for b in sched]))
    return Case("h1.body", x, "h1.body.spec", {"kind": kind}, profile)


def mkhdr(block, hlines, kind, profile="dev"):
    x = xl(xb(block), xopt(None if hlines is None else xlist([x_hline(h) for h in hlines])))
    return Case("h1.headers", x, "h1.headers.spec", {"kind": kind}, profile)


def mkpoll(early, cl, stream, sched, ops, kind, mode=0, profile="dev"):
    """ops: int = read with that window, ("rtb", limit) = read_to_bytes(limit), "drain" """
    xo = []
    for o in ops:
        if o == "drain":
            xo.append(xlist([]))
        elif isinstance(o, tuple):
            xo.append(xl(xn(o[1])))
        else:
            xo.append(xn(o))
    x = xl(xb(early), xn(cl), xn(mode), xb(stream), xlist([xn(b) for b in sched]), xlist(xo))
    return Case("h1.poll", x, "h1.poll.spec", {"kind": kind}, profile)


def x_steps(steps):
    return xlist([xb(st) if isinstance(st, (bytes, bytearray)) else xn(st) for st in steps])


def cut_steps(s, sched):
    out, p = [], 0
    for b in sched:
        if p >= len(s):
            break
        out.append(s[p:p + b])
        p += b
    return out


def mkaccept(steps, kind, dh=None, limit=BIG_LIMIT, end=1, g=None):
    x = xl(xopt(None if dh is None else xb(dh)), x_steps(steps), xn(limit), xn(end), x_greq(g))
    return Case("h1.accept", x, "h1.accept.spec", {"kind": kind}, "dev")


def mkecho(steps, kind, limit=BIG_LIMIT, end=1, g=None):
    x = xl(x_steps(steps), xn(limit), xn(end), x_greq(g))
    return Case("h1.echo", x, "h1.echo.spec", {"kind": kind}, "dev")


def body_bytes(n, salt=0):
    return bytes((33 + (i * 7 + salt) % 90) for i in range(n))


NEXT = b"GET /next HTTP/1.1\r\nHost: n\r\n\r\n"


def rand_headers(rng, with_host=True, cl=None, extra=None):
    names = rng.sample(NAMES[3:], rng.randrange(0, 5))
    hl = []
    seen = set()
    for n in names:
        if n.lower() in seen:
            continue
        seen.add(n.lower())
        v = rng.choice(VALUES)
        sp = rng.choice([0, 1, 1, 1, 2, 3])
        hl.append(hline(n, sp, v))
    if with_host:
        hl.insert(rng.randrange(len(hl) + 1), hline(rng.choice([b"Host", b"host", b"HOST", b"hOsT"]), rng.choice([0, 1, 1, 2]),
                                                    rng.choice(HOSTS[:9])))
    if cl is not None:
        hl.insert(rng.randrange(len(hl) + 1), hline(rng.choice([b"Content-Length", b"content-length"]), rng.choice([0, 1, 1, 4]), b"%d" % cl))
    if extra:
        hl += extra
    return hl


def rand_sched(rng, total, maxcuts=6):
    k = rng.randrange(0, maxcuts + 1)
    cuts = sorted(set(rng.randrange(1, max(2, total)) for _ in range(k))) if total > 1 else []
    pts = [0] + [c for c in cuts if c < total] + [total]
    return [b - a for a, b in zip(pts, pts[1:]) if b > a]


def padded_head(method, target, hl, size):
    """a head of exactly `size` bytes (pads with an x-pad header), or None if it cannot be that small"""
    base = print_head(method, target, True, hl)
    if len(base) == size:
        return hl
    need = size - len(base) - len(b"x-pad: \r\n")
    if need < 0:
        return None
    return hl + [hline(b"x-pad", 1, b"p" * need)]


def generate(rng, tier):
    quick = tier == "quick"
    cases = []

    # ---- corpus: the inputs that exposed the repaired defects --------------------------------------------------
    cases.append(mkhdr(b"a:b\r\n\r\n", [hline(b"a", 0, b"b")], "corpus"))
    cases.append(mkhdr(b"A: \n\n", None, "corpus"))
    cases.append(mkhdr(b"A: b\n\n", None, "corpus"))
    cases.append(mkhdr(b"A:\n\n", None, "corpus"))
    cases.append(mkhdr(b"A:\r\n\r\n", [hline(b"A", 0, b"")], "corpus"))
    g = (b"GET", b"/", True, [hline(b"Host", 1, b"a")])
    s = print_head(*g)
    for sc in ([1, 100], [2, 100], [3, 100], [1, 1, 1, 100]):
        cases.append(mkreq(s, sc, "corpus", g=g))
    cases.append(mkreq(s[:-2] + b"x-tok: secr", [100], "corpus"))
    cases.append(mkreq(b"GET / HTTP/1.1", [100], "corpus", dh=b"d"))
    g = (b"POST", b"/", False, [])
    cases.append(mkreq(print_head(*g) + b"BODY", [100], "corpus", dh=b"d", g=g))
    big = [hline(b"Host", 1, b"a"), hline(b"x", 1, b"a" * 30000)]
    g = (b"GET", b"/", True, big)
    cases.append(mkreq(print_head(*g), [512, 512, 1024, 2048, 4096, 8192 - 200, 100000], "corpus", g=g))
    cases.append(mkreq(print_head(*g), [100000] * 20, "corpus", g=g))
    cases.append(mkbody(b"x" * 50, 100, BIG_LIMIT, b"y" * 50 + NEXT, [30, 1000], "corpus"))
    cases.append(mkbody(b"", 10, BIG_LIMIT, b"0123456789NEXT", [5, 1000], "corpus"))
    g = (b"POST", b"/p", True, [hline(b"Host", 1, b"a"), hline(b"content-length", 1, b"100")])
    s = print_head(*g) + body_bytes(100) + NEXT
    cases.append(mkreq(s, [len(print_head(*g)) + 50, 30, 1000], "corpus", g=g))

    # ---- every cut position of short messages ---------------------------------------------------------------------
    shorts = []
    shorts.append(((b"GET", b"/", True, [hline(b"Host", 1, b"a")]), b""))
    shorts.append(((b"GET", b"/a?b=c", False, []), b""))
    shorts.append(((b"POST", b"/p", True, [hline(b"host", 0, b"ex.org"), hline(b"Content-Length", 1, b"5"), hline(b"x-a", 0, b"b")]), b"helloNEXT"))
    shorts.append(((b"OPTIONS", b"/", True, [hline(b"HOST", 2, b"a:80"), hline(b"X-E", 1, b"")]), b""))
    shorts.append(((b"PUT", b"/f", True, [hline(b"Content-Length", 0, b"3"), hline(b"Host", 3, b"h")]), b"abc" + NEXT))
    nshort = 3 if quick else 30
    for _ in range(nshort):
        m = rng.choice(METHODS)
        cl = rng.choice([None, 0, 1, 7])
        hl = rand_headers(rng, with_host=rng.random() < 0.85, cl=cl)[:3]
        g = (m, rng.choice(TARGETS[:12]), rng.random() < 0.7, hl)
        shorts.append((g, body_bytes(cl or 0) + (NEXT[:rng.randrange(0, 20)] if rng.random() < 0.5 else b"")))
    for g, tail in shorts:
        s = print_head(*g) + tail
        if len(s) > 120 and quick:
            continue
        dh = None if any(h[0].lower() == b"host" for h in g[3]) else b"default.host"
        cases.append(mkreq(s, [len(s)], "cut", dh=dh, g=g))
        for c in range(1, len(s)):
            cases.append(mkreq(s, [c, len(s) - c], "cut", dh=dh, g=g, profile="nochk" if c % 5 == 0 else "dev"))
        for c in range(1, len(s) - 1, 4 if quick else 1):       # three pieces
            d = rng.randrange(c + 1, len(s))
            cases.append(mkreq(s, [c, d - c, len(s) - d], "cut3", dh=dh, g=g))
        cases.append(mkreq(s, [1] * len(s), "cut1", dh=dh, g=g))

    # ---- the same bytes with bare-LF line ends (the code accepts them): every cut position, segmentation-blind oracle
    for g, tail in shorts[:5]:
        s = print_head(*g) + tail
        dh = None if any(h[0].lower() == b"host" for h in g[3]) else b"default.host"
        for v in (s.replace(b"\r\n", b"\n"), s.replace(b"\r\n", b"\n", 1), s.replace(b"\r\n\r\n", b"\n\r\n"), s.replace(b"\r\n\r\n", b"\r\n\n")):
            if v == s:
                continue
            for c in range(1, len(v), 1 if not quick else 2):
                cases.append(mkreq(v, [c, len(v) - c], "cut-lf", dh=dh))
            cases.append(mkreq(v, [1] * len(v), "cut-lf", dh=dh))

    # ---- grammar requests with random multi-cut schedules ------------------------------------------------------------
    nrand = 500 if quick else 30000
    for _ in range(nrand):
        m = rng.choice(METHODS)
        cl = rng.choice([None, None, 0, 1, 31, 32, 33, 100]) if m in BODY_METHODS or rng.random() < 0.2 else None
        has_host = rng.random() < 0.85
        hl = rand_headers(rng, with_host=has_host, cl=cl)
        if rng.random() < 0.1:
            hl.append(hline(b"x-long", 1, b"v" * rng.choice([200, 500, 1000, 3000])))
        g = (m, rng.choice(TARGETS), rng.random() < 0.7, hl)
        head = print_head(*g)
        have = rng.choice([cl or 0, cl or 0, (cl or 0) + 10, max(0, (cl or 0) - 3)])
        tail = body_bytes(have, rng.randrange(50)) + (NEXT if rng.random() < 0.4 else b"")
        s = head + tail
        dh = None if has_host and rng.random() < 0.9 else rng.choice([None, b"default.host", b"d:81"])
        limit = rng.choice([BIG_LIMIT, BIG_LIMIT, 0, 1, 20, 32, 50])
        sched = rand_sched(rng, len(s))
        if rng.random() < 0.15 and sched:
            sched = sched[:rng.randrange(0, len(sched))]        # the peer stops early
        cases.append(mkreq(s, sched, "grammar", https=rng.random() < 0.3, dh=dh, mode=rng.choice([0, 0, 0, 2]), limit=limit, g=g,
                           profile=rng.choice(PROFILES)))

    # ---- the general header line: optional whitespace (spaces, tabs) around the values, bare-LF line ends, any method token --
    corpus_ows = [
        ((b"POST", b"/", True, [hline(b"Host", 1, b"a"), hline(b"Content-Length", 1, b"3", b"", b" ")]), b"abc" + NEXT),
        ((b"POST", b"/", True, [hline(b"Host", 1, b"a"), hline(b"Content-Length", 0, b"3", b"\t", b"")]), b"abc" + NEXT),
        ((b"GET", b"/", True, [hline(b"Host", 1, b"a", b"", b" "), hline(b"X", 1, b"v", b"\t ", b" \t"), hline(b"Y", 0, b"", b"\t "), hline(b"Z", 0, b"")]), b""),
        ((b"PURGE", b"/x", True, [hline(b"Host", 1, b"a")]), b""),
        ((b"get", b"/x", True, [hline(b"Host", 1, b"a")]), b""),
        ((b"A", b"/", False, [hline(b"Host", 1, b"a")]), NEXT),
        ((b"REPORT", b"/r", True, [hline(b"Host", 1, b"a"), hline(b"content-length", 1, b"4", b"", b"\t\t", True)], True, True), b"bodyNEXT"),
    ]
    for g, tail in corpus_ows:
        s = print_head(*g) + tail
        for sc in ([len(s)], [1] * len(s), [len(print_head(*g)), len(s)], [7, 9, len(s)]):
            cases.append(mkreq(s, sc, "corpus-ows", g=g))
    g = (b"PURGE", b"/p", True, [hline(b"Host", 1, b"ex.org", b"\t", b" \t"), hline(b"Content-Length", 0, b"3", b"\t ", b" ", True),
                                  hline(b"X-E", 0, b"", b" \t")], False, True)
    s = print_head(*g) + b"abc" + NEXT[:9]
    for c in range(1, len(s)):
        cases.append(mkreq(s, [c, len(s) - c], "cut-ows", g=g, profile="nochk" if c % 5 == 0 else "dev"))
    nows = 400 if quick else 20000
    for _ in range(nows):
        m = rng.choice(METHODS)
        cl = rng.choice([None, 0, 1, 3, 31, 100]) if m in BODY_METHODS or rng.random() < 0.2 else None
        has_host = rng.random() < 0.9
        hl = rand_headers(rng, with_host=has_host, cl=cl)
        g = decorate(rng, (m, rng.choice(TARGETS), rng.random() < 0.7, hl), lf_too=rng.random() < 0.5)
        head = print_head(*g)
        have = rng.choice([cl or 0, cl or 0, (cl or 0) + 10, max(0, (cl or 0) - 2)])
        s = head + body_bytes(have, rng.randrange(50)) + (NEXT if rng.random() < 0.5 else b"")
        sched = rand_sched(rng, len(s))
        if rng.random() < 0.1 and sched:
            sched = sched[:rng.randrange(0, len(sched))]
        cases.append(mkreq(s, sched, "ows", https=rng.random() < 0.2, dh=None if has_host else rng.choice([None, b"d.host"]),
                           mode=rng.choice([0, 0, 2]), limit=rng.choice([BIG_LIMIT, BIG_LIMIT, 2, 50]), g=g, profile=rng.choice(PROFILES)))

    # ---- bad Host values / targets the http crate refuses (the URI assembly is modelled byte for byte) ----------
    for h in HOSTS:
        for t in (TARGETS if not quick else TARGETS[::3]):
            g = (b"GET", t, True, [hline(b"Host", 1, h)])
            s = print_head(*g)
            cases.append(mkreq(s, [len(s)], "uri", g=g))

    # ---- heads around the capacity thresholds -----------------------------------------------------------------------
    th = THRESHOLDS if not quick else [511, 512, 513, 1024, 4096, 16128, 16129, 16383, 16384, 16385]
    for size in th:
        hl = padded_head(b"GET", b"/t", [hline(b"Host", 1, b"a")], size)
        g = (b"GET", b"/t", True, hl)
        s = print_head(*g)
        assert len(s) == size
        cases.append(mkreq(s, [size], "threshold", g=g))
        cases.append(mkreq(s + NEXT, [size + 5, 100], "threshold", g=g))
        cases.append(mkreq(s, [512] * 40, "threshold", g=g))
        cases.append(mkreq(s, [size - 1, 1], "threshold", g=g))
        cases.append(mkreq(s, [size - 2, 100], "threshold", g=g))
        # land the buffer length on t, then deliver the rest
        for t in ([16128, 16129, 16200, 16383] if size > 16129 else [size // 2]):
            if t < size:
                cases.append(mkreq(s, [t, 100000], "threshold", g=g))
                cases.append(mkreq(s + b"z" * 40000, [t, 100000, 100000, 100000], "threshold", g=g))
    # unterminated heads: must end in an error for every read pattern
    junk = b"GET / HTTP/1.1\r\nHost: a\r\nx: " + b"a" * 40000
    for t in ([16129, 16383] if quick else [15872, 15873, 16000, 16128, 16129, 16130, 16255, 16382, 16383]):
        cases.append(mkreq(junk, [t] + [100000] * 4, "unterminated"))
        cases.append(mkreq(junk, [512, 512, 1024, 2048, 4096, t - 8192] + [100000] * 4, "unterminated"))
        cases.append(mkreq(junk, [t, 1, 1, 1, 100000, 100000], "unterminated"))
    cases.append(mkreq(junk, [100000] * 10, "unterminated"))
    cases.append(mkreq(junk, [511] * 100, "unterminated"))
    # the same with other limits (the head limit is a parameter of read::request)
    for ml in ([600, 2000] if quick else [100, 511, 512, 513, 600, 1000, 1024, 2000, 5000]):
        for size in (ml - 1, ml, ml + 1):
            hl = padded_head(b"GET", b"/t", [hline(b"Host", 1, b"a")], size)
            if hl is None:
                continue
            g = (b"GET", b"/t", True, hl)
            s = print_head(*g)
            for sc in ([size], [ml - 100, 1000], [ml - 300, 1000], [max(1, ml - 256), 1000], [ml - 1, 1000], [300] * 30):
                if all(b > 0 for b in sc):
                    cases.append(mkreq(s + NEXT, sc, "limit", max_len=ml, g=g))
        for t in (ml - 255, ml - 100, ml - 1):
            if t > 0:
                cases.append(mkreq(junk, [t, 100000, 100000], "limit", max_len=ml))

    # ---- bodies -------------------------------------------------------------------------------------------------------
    for cl in (0, 1, 31, 32, 33, 100, 5000):
        for trailing in (b"", NEXT):
            for limit in (BIG_LIMIT, 40, 0) if not quick else (BIG_LIMIT, 40):
                g = (b"POST", b"/upload", True, [hline(b"Host", 1, b"a"), hline(b"Content-Length", 1, b"%d" % cl)])
                head = print_head(*g)
                s = head + body_bytes(cl) + trailing
                scheds = [[len(s)], [len(head), len(s)], [len(head) + cl // 2, 30, len(s)], [len(head) + 1, 1, 1, len(s)],
                          [len(head), 1] + [1000] * 8, [len(head) + max(0, cl - 20), 5, len(s)], [len(head)] + [31] * (cl // 31 + 2)]
                for sc in scheds:
                    sc = [b for b in sc if b > 0]
                    cases.append(mkreq(s, sc, "body", limit=limit, g=g))
                # the client sends less than it announced
                if cl > 1:
                    short = head + body_bytes(cl)[:cl - 1]
                    for mode in (0, 2) + ((1,) if cl in (32, 5000) else ()):
                        cases.append(mkreq(short, [len(head) + cl // 2, len(short)], "body-short", mode=mode, limit=limit, g=g))
        for el in (0, 1, cl // 2, max(0, cl - 1), cl, cl + 7):
            for limit in (BIG_LIMIT, 33):
                early = body_bytes(cl + 7)[:el]
                rest = body_bytes(cl + 7)[el:] + NEXT
                for sc in ([len(rest)], [1, len(rest)], [30, 1000], [max(1, cl - el - 1), 1000], [5] * 12 + [10000]):
                    cases.append(mkbody(early, cl, limit, rest, sc, "body-direct", profile=rng.choice(PROFILES)))
    cases.append(mkbody(b"", 2 ** 64 - 1, 100, b"q" * 300, [50, 1000], "body-direct"))
    cases.append(mkbody(b"abc", 10, BIG_LIMIT, b"", [], "body-direct", mode=2))
    cases.append(mkbody(b"abc", 10, BIG_LIMIT, b"defg", [10], "body-direct", mode=0))
    cases.append(mkbody(b"abc", 10, BIG_LIMIT, b"defg", [10], "body-direct", mode=1))
    nb = 150 if quick else 5000
    for _ in range(nb):
        cl = rng.choice([0, 1, 5, 31, 32, 33, 40, 63, 64, 100, 1000, 1023, 1024, 1056, 1500, 5000])
        el = rng.randrange(0, cl + 10)
        total = body_bytes(cl + 40, rng.randrange(90))
        rest = total[el:el + rng.choice([0, max(0, cl - el), max(0, cl - el) + 33, max(0, cl - el - 2)])]
        cases.append(mkbody(total[:el], cl, rng.choice([BIG_LIMIT, BIG_LIMIT, cl // 2 + 1, 32, 31]), rest, rand_sched(rng, max(1, len(rest)), 8),
                            "body-random", mode=rng.choice([0, 0, 2]), profile=rng.choice(PROFILES)))

    # ---- Http1Body as AsyncRead: any sequence of read windows / read_to_bytes / drain ---------------------------------------
    cases.append(mkpoll(b"", 3, b"abcGET /next", [100], [100, 100, 100], "corpus-poll"))
    cases.append(mkpoll(b"abcGET /n", 3, b"ext", [100], [100, 100], "corpus-poll"))
    cases.append(mkpoll(b"ab", 5, b"cdeGET", [100], [1, 100, 100, 100], "corpus-poll"))
    cases.append(mkpoll(b"ab", 5, b"cdeGET", [100], [("rtb", 3), 100, "drain"], "corpus-poll"))
    cases.append(mkpoll(b"ab", 5, b"cdeGET", [100], [1, "drain"], "corpus-poll"))
    cases.append(mkpoll(b"", 5, b"abcdeXYZ!", [100], [3, ("rtb", 100), "drain"], "corpus-poll"))
    cases.append(mkpoll(b"ab", 5, b"cdeXYZ!", [100], [1, ("rtb", 100), "drain"], "corpus-poll"))
    cases.append(mkpoll(b"ab", 5, b"cdeXYZ!", [100], [("rtb", 0), 1, ("rtb", 3), 5, "drain"], "corpus-poll"))
    cases.append(mkpoll(b"ab", 5, b"c", [100], [100, 100, 100], "corpus-poll", mode=0))
    cases.append(mkpoll(b"ab", 5, b"c", [100], [100, 100, 100], "corpus-poll", mode=2))
    cases.append(mkpoll(b"ab", 5, b"c", [100], [100, 100, "drain"], "corpus-poll", mode=1))
    cases.append(mkpoll(b"ab", 5, b"c", [100], [100, "drain"], "corpus-poll", mode=0))
    npoll = 300 if quick else 8000
    for _ in range(npoll):
        cl = rng.choice([0, 1, 2, 5, 31, 32, 33, 64, 100, 1000, 4095, 4096, 4097, 5000, 9000])
        el = rng.randrange(0, cl + 10) if rng.random() < 0.8 else 0
        total = body_bytes(cl + 60, rng.randrange(90))
        rest = total[el:el + rng.choice([max(0, cl - el) + 33, max(0, cl - el) + 33, max(0, cl - el), max(0, cl - el - 2), 0])]
        ops = []
        for _ in range(rng.randrange(0, 9)):
            r = rng.random()
            if r < 0.75:
                ops.append(rng.choice([0, 1, 1, 2, 3, 7, 31, 32, 100, 1000, 4096, 8192, 100000]))
            elif r < 0.9:
                ops.append(("rtb", rng.choice([0, 1, 5, 32, 100, BIG_LIMIT, BIG_LIMIT])))
            else:
                ops.append("drain")
        if rng.random() < 0.5:
            ops.append("drain")
        cases.append(mkpoll(total[:el], cl, rest, rand_sched(rng, max(1, len(rest)), 8), ops, "poll",
                            mode=rng.choice([0, 0, 0, 2]), profile=rng.choice(PROFILES)))

    # ---- the real HttpConnection::accept / handle_connection on a loopback connection ------------------------------------
    # head limit: the code's own 16 KiB
    for size in ((16383, 16384, 16385) if quick else (8192, 16000, 16383, 16384, 16385, 16386, 16500, 20000)):
        hl = padded_head(b"GET", b"/t", [hline(b"Host", 1, b"a")], size)
        g = (b"GET", b"/t", True, hl)
        s = print_head(*g)
        cases.append(mkaccept([s], "accept-limit", g=g))
        cases.append(mkaccept(cut_steps(s, [5000, 5000, 5000, 1383, 1, 1, 1000]), "accept-limit", g=g))
    junk = b"GET / HTTP/1.1\r\nHost: a\r\nx: " + b"a" * 40000
    cases.append(mkaccept([junk], "accept-limit"))
    cases.append(mkaccept(cut_steps(junk, [16129, 100000]), "accept-limit", end=0))
    # a stalled head: the code's own 5 s give an error (not a hang); a client that pauses for 1.2 s is served
    g = (b"POST", b"/s?x=1", True, [hline(b"Host", 1, b"ex.org"), hline(b"Content-Length", 1, b"4"), hline(b"X-A", 0, b"b c")])
    s = print_head(*g) + b"body"
    cases.append(mkaccept([s[:17]], "accept-stall", dh=b"d"))
    if not quick:
        cases.append(mkaccept([s[:40]], "accept-stall", dh=b"d"))
        cases.append(mkaccept([], "accept-stall", dh=b"d"))
    cases.append(mkaccept([s[:30], 1200, s[30:]], "accept-slow", g=g))
    cases.append(mkecho([s[:30], 1200, s[30:]], "echo-slow", g=g))
    for n in (0, 1, 17, len(s) - 6):
        cases.append(mkaccept([s[:n]] if n else [], "accept-eof", dh=b"d", end=0))
    # grammar requests (any method token, optional whitespace, bare LF), bodies split early/late, pipelined next request
    nconn = 70 if quick else 1500
    for i in range(nconn):
        m = rng.choice([x for x in METHODS if x != b"HEAD"])
        cl = rng.choice([None, 0, 1, 3, 31, 100, 5000]) if m in BODY_METHODS or rng.random() < 0.2 else None
        has_host = rng.random() < 0.9
        hl = rand_headers(rng, with_host=has_host, cl=cl)
        g = (m, rng.choice([t for t in TARGETS if b".." not in t and b"//" not in t and t.startswith(b"/")]), rng.random() < 0.7, hl)
        if rng.random() < 0.6:
            g = decorate(rng, g, lf_too=rng.random() < 0.5)
        head = print_head(*g)
        have = rng.choice([cl or 0, cl or 0, (cl or 0) + 10])
        s = head + body_bytes(have, rng.randrange(50)) + (NEXT if rng.random() < 0.4 else b"")
        sched = rng.choice([[len(s)], [len(head), len(s)], [len(head) + (cl or 0) // 2, len(s)], [len(head) - 1, 1, 1, len(s)],
                            rand_sched(rng, len(s), 4)])
        limit = rng.choice([BIG_LIMIT, BIG_LIMIT, BIG_LIMIT, 2, 50])
        if i % 2 == 1 and any(h[0].lower() == b"range" for h in g[3]):
            i = 0       # a Range header makes the pipeline answer 206 with a slice of the echo (C09's business): only through accept
        if i % 2 == 0:
            cases.append(mkaccept(cut_steps(s, sched), "accept", dh=None if has_host else rng.choice([None, b"d.host"]), limit=limit, g=g))
        else:
            cases.append(mkecho(cut_steps(s, sched), "echo", limit=limit, g=g))
    # a body that is cut short by the client closing: what arrived is handed over
    g = (b"PUT", b"/f", True, [hline(b"Host", 1, b"h"), hline(b"Content-Length", 1, b"10")])
    s = print_head(*g) + b"01234"
    cases.append(mkaccept([s[:-3], s[-3:]], "accept-short", end=0, g=g))
    cases.append(mkecho([s[:-3], s[-3:]], "echo-short", end=0, g=g))
    for bad_stream in (b"FOO\x00 / HTTP/1.1\r\nHost: a\r\n\r\n", b"GET / HTTP/1.1\r\nHost: a b\r\n\r\n", b"\x16\x03\x01\x02\x00\x01\x00\x01\xfc\x03\x03" + b"\x00" * 30):
        cases.append(mkaccept([bad_stream], "accept-bad"))
        cases.append(mkecho([bad_stream], "echo-bad"))

    # ---- stalled heads: every prefix of a valid head, the peer then closes / errors / hangs -------------------
    g = (b"POST", b"/s?x=1", True, [hline(b"Host", 1, b"ex.org"), hline(b"X-A", 0, b"b c")])
    s = print_head(*g)
    for n in range(0, len(s)):
        for mode in (0, 2):
            cases.append(mkreq(s[:n], [max(1, n)], "stalled", mode=mode, dh=b"d"))
            cases.append(mkreq(s, [n] if n else [], "stalled", mode=mode, dh=b"d", g=g))
    for n in (0, 1, 5, 17, len(s) - 1) if quick else range(0, len(s), 3):
        cases.append(mkreq(s[:n], [max(1, n)], "stalled", mode=1, dh=b"d"))

    # ---- 0-byte reads in the middle of the stream (the reader takes the first one for the end: head => error, body => what
    # arrived; nothing may spin on them).  The model reads the same schedule; the specification components take schedules of
    # non-empty bursts only, so these cases are judged by the model (theorems head_read_ends / body_read_ends / body_calls_end
    # hold for every schedule) and by the rule that a hang is never acceptable.
    g = (b"POST", b"/z", True, [hline(b"Host", 1, b"a"), hline(b"Content-Length", 1, b"8")])
    s = print_head(*g) + b"01234567" + NEXT
    for k in (0, 1, 5, len(print_head(*g)) - 1, len(print_head(*g)), len(print_head(*g)) + 3, len(print_head(*g)) + 8):
        for zeros in (1, 3):
            for mode in (0, 1, 2):
                sc = ([k] if k else []) + [0] * zeros + [len(s)]
                cases.append(mkreq(s, sc, "zero-read", mode=mode))
    for _ in range(40 if quick else 2000):
        m = rng.choice(BODY_METHODS)
        cl = rng.choice([0, 1, 31, 100])
        gg = (m, rng.choice(TARGETS[:12]), True, rand_headers(rng, cl=cl))
        ss = print_head(*gg) + body_bytes(cl, rng.randrange(50)) + (NEXT if rng.random() < 0.5 else b"")
        sc = rand_sched(rng, len(ss))
        for _ in range(rng.choice([1, 1, 2, 1200])):
            sc.insert(rng.randrange(len(sc) + 1), 0)
        cases.append(mkreq(ss, sc, "zero-read", mode=rng.choice([0, 1, 2]), limit=rng.choice([BIG_LIMIT, 20]), profile=rng.choice(PROFILES)))
    for _ in range(40 if quick else 2000):
        cl = rng.choice([1, 5, 32, 100, 5000])
        el = rng.randrange(0, cl)
        total = body_bytes(cl + 40, rng.randrange(90))
        rest = total[el:]
        sc = rand_sched(rng, len(rest), 5)
        for _ in range(rng.choice([1, 1, 2, 1200])):
            sc.insert(rng.randrange(len(sc) + 1), 0)
        c = mkbody(total[:el], cl, rng.choice([BIG_LIMIT, 33]), rest, sc, "zero-read", mode=rng.choice([0, 1, 2]), profile=rng.choice(PROFILES))
        c.spec = None
        cases.append(c)
        ops = [rng.choice([1, 7, 100, 8192, ("rtb", BIG_LIMIT), "drain"]) for _ in range(rng.randrange(1, 6))]
        c = mkpoll(total[:el], cl, rest, sc, ops, "zero-read", mode=rng.choice([0, 1, 2]), profile=rng.choice(PROFILES))
        c.spec = None
        cases.append(c)

    # ---- malformed streams -------------------------------------------------------------------------------------------------
    bad = [
        b"", b"\r\n\r\n", b"\n\n", b" / HTTP/1.1\r\n\r\n", b"GET\r\n\r\n", b"GET /\r\n\r\n", b"GET / \r\n\r\n", b"GET  / HTTP/1.1\r\n\r\n",
        b"GET / HTTP/1.1\n\n", b"GET / HTTP/1.1\nHost: a\n\n", b"GET / HTTP/1.1\r\nHost: a\n\r\n", b"GET / HTTP/1.1\r\nHost a\r\n\r\n",
        b"GET / HTTP/1.1\r\nHost\r\n\r\n", b"GET / HTTP/1.1\r\n: v\r\n\r\n", b"GET / HTTP/1.1\r\n:v\r\n\r\n", b"GET / HTTP/1.1\r\n a: b\r\n\r\n",
        b"GET / HTTP/1.1\r\na : b\r\n\r\n", b"GET / HTTP/1.1\r\na: b\r\n c\r\n\r\n", b"GET / HTTP/1.1\r\na: \n\r\n", b"GET / HTTP/1.1\r\na:\n\n",
        b"GET / HTTP/1.1\r\na: b\rc\r\n\r\n", b"GET / HTTP/1.1\r\na: b\x00c\r\n\r\n", b"GET / HTTP/1.1\r\na\x00: b\r\n\r\n",
        b"GET / HTTP/1.1\r\nHost: \xff\xfe\r\n\r\n", b"GET /\xff HTTP/1.1\r\nHost: a\r\n\r\n", b"GET /\xc3 HTTP/1.1\r\nHost: a\r\n\r\n",
        b"GET /\x00 HTTP/1.1\r\nHost: a\r\n\r\n", b"G\rET / HTTP/1.1\r\nHost: a\r\n\r\n", b"GET /a\rb HTTP/1.1\r\nHost: a\r\n\r\n",
        b"GET /a\nb HTTP/1.1\r\nHost: a\r\n\r\n", b"GET / HTTP/1.1\rX\r\nHost: a\r\n\r\n", b"GET / HTTP/1.1X\r\nHost: a\r\n\r\n",
        b"GET / HTTP/1.12\r\nHost: a\r\n\r\n", b"GET / HTTP/1.2\r\nHost: a\r\n\r\n", b"GET / HTTP/2\r\nHost: a\r\n\r\n", b"GET / HTTP/3\r\nHost: a\r\n\r\n",
        b"GET / HTTP/0.9\r\nHost: a\r\n\r\n", b"GET / http/1.1\r\nHost: a\r\n\r\n", b"GET / HTTP/1.1 \r\nHost: a\r\n\r\n",
        b"PROPFIND / HTTP/1.1\r\nHost: a\r\n\r\n", b"PROPPATCH / HTTP/1.1\r\nHost: a\r\n\r\n", b"OPTIONSX / HTTP/1.1\r\nHost: a\r\n\r\n",
        b"get / HTTP/1.1\r\nHost: a\r\n\r\n", b"FOO / HTTP/1.1\r\nHost: a\r\n\r\n", b"GE", b"GET", b"GETGETGET", b"XXXXXXXXX", b"XXXXXXXX",
        b"HTTP/1.1 200 OK\r\n\r\n", b"HTTP/1.1 / HTTP/1.1\r\nHost: a\r\n\r\n", b"GET(/ HTTP/1.1\r\nHost: a\r\n\r\n", b"GET\t/ HTTP/1.1\r\nHost: a\r\n\r\n",
        b"GET / HTTP/1.1\r\nHost: a\r\nHost: b\r\n\r\n", b"GET / HTTP/1.1\r\nHost: a\r\nhost: b\r\n\r\n", b"GET / HTTP/1.1\r\nhost:a\r\nHOST:  b  \r\n\r\n",
        b"GET / HTTP/1.1\r\nHost: a\r\n\r\r\n", b"GET / HTTP/1.1\r\n\rHost: a\r\n\r\n", b"GET / HTTP/1.1\r\nHost: a\r\n\n", b"GET / HTTP/1.1\r\r\n\r\r\n",
        b"POST / HTTP/1.1\r\nHost: a\r\nContent-Length: +3\r\n\r\nabcd", b"POST / HTTP/1.1\r\nHost: a\r\nContent-Length: 3 \r\n\r\nabcd",
        b"POST / HTTP/1.1\r\nHost: a\r\nContent-Length: -3\r\n\r\nabcd", b"POST / HTTP/1.1\r\nHost: a\r\nContent-Length: 18446744073709551616\r\n\r\nabcd",
        b"POST / HTTP/1.1\r\nHost: a\r\nContent-Length: 18446744073709551615\r\n\r\nabcd", b"POST / HTTP/1.1\r\nHost: a\r\nContent-Length: 3\xff\r\n\r\nabcd",
        b"POST / HTTP/1.1\r\nHost: a\r\nContent-Length: 0x3\r\n\r\nabcd", b"POST / HTTP/1.1\r\nHost: a\r\nContent-Length:\t3\r\n\r\nabcd",
        b"GET / HTTP/1.1\r\nHost: a\r\nContent-Length: 3\r\n\r\nabcd", b"GET / HTTP/1.1\r\n" + b"a" * 70 + b": b\r\nHost: a\r\n\r\n",
        b"GET /" + b"a" * 9000 + b" HTTP/1.1\r\nHost: " + b"h" * 7000 + b"\r\n\r\n",
        b"GET / HTTP/1.1\r\nHost: a:1:2\r\n\r\n", b"GET / HTTP/1.1\r\nHost: [::1]:1:2\r\n\r\n", b"GET / HTTP/1.1\r\nHost: a:::::::::\r\n\r\n",
        b"\x16\x03\x01\x02\x00\x01\x00\x01\xfc\x03\x03" + b"\x00" * 30,
    ]
    for s in bad:
        for sc in ([max(1, len(s))], [1] * len(s), rand_sched(rng, max(1, len(s))), [3, 100000]):
            if quick and len(sc) > 4000:
                continue        # byte-by-byte over 16 KB costs the model 20 s (quadratic list appends); thorough runs it
            cases.append(mkreq(s, sc, "malformed", dh=rng.choice([None, b"d"]), mode=rng.choice([0, 2]), profile=rng.choice(PROFILES)))
    alphabet = b"GET / HTTP/1.1\r\n\r\n: \x00\xff\tPOSThost0123456789-_?#%[]@"
    nm = 600 if quick else 40000
    for _ in range(nm):
        m = rng.choice(METHODS)
        cl = rng.choice([None, 3])
        g = (m, rng.choice(TARGETS), rng.random() < 0.7, rand_headers(rng, cl=cl))
        s = bytearray(print_head(*g) + body_bytes(cl or 0))
        for _ in range(rng.choice([1, 1, 2, 3])):
            op = rng.randrange(3)
            pos = rng.randrange(len(s) + 1)
            if op == 0:
                s.insert(pos, rng.choice(alphabet))
            elif op == 1 and s:
                del s[min(pos, len(s) - 1)]
            elif s:
                s[min(pos, len(s) - 1)] = rng.choice(alphabet)
        s = bytes(s)
        cases.append(mkreq(s, rand_sched(rng, max(1, len(s)), 3), "mutated", dh=rng.choice([None, b"d"]), mode=rng.choice([0, 2]),
                           https=rng.random() < 0.2, g=g, profile=rng.choice(PROFILES)))

    # ---- parse::headers directly -----------------------------------------------------------------------------------------
    nh = 300 if quick else 20000
    for _ in range(nh):
        hl = rand_headers(rng, with_host=rng.random() < 0.5)
        if rng.random() < 0.5:
            hl = decorate(rng, (b"GET", b"/", True, hl), lf_too=rng.random() < 0.5)[3]
        block = b"".join(print_hline(h) for h in hl) + b"\r\n"
        r = rng.random()
        if r < 0.4:
            cases.append(mkhdr(block + body_bytes(rng.randrange(0, 9)), hl, "headers", profile=rng.choice(PROFILES)))
        else:
            b = bytearray(block)
            for _ in range(rng.choice([1, 1, 2, 4])):
                op = rng.randrange(3)
                pos = rng.randrange(len(b) + 1)
                if op == 0:
                    b.insert(pos, rng.choice(b"\r\n: \x00\xffab\t"))
                elif op == 1 and b:
                    del b[min(pos, len(b) - 1)]
                elif b:
                    b[min(pos, len(b) - 1)] = rng.choice(b"\r\n: \x00\xffab\t")
            cases.append(mkhdr(bytes(b), None, "headers-mutated", profile=rng.choice(PROFILES)))
    if not quick:
        # bounded-exhaustive header blocks over the structural alphabet
        import itertools
        for n in range(0, 7):
            for t in itertools.product(b"a: \r\n", repeat=n):
                cases.append(mkhdr(bytes(t), None, "headers-exhaustive"))
    else:
        import itertools
        for n in range(0, 5):
            for t in itertools.product(b"a: \r\n", repeat=n):
                cases.append(mkhdr(bytes(t), None, "headers-exhaustive"))
    return cases


def _is_hang(t):
    """(L (N 3) (N why)): the harness gave the case up as a hang (scripted components): why = 1 the code kept reading after
    1000 consecutive 0-byte reads (spins at end of file), 2 a call did not return within 10 s (twice), 3 the case did not come
    back from its worker thread within 45 s (twice).  The model has no such outcome; the specification never allows it."""
    return t.startswith("(L (N 3)")


def _is_err(t):
    """(L (N 1) ..): an error outcome, whatever its class"""
    return t.startswith("(L (N 1)")


def _view_ok(got, want):
    """request fields (method, path, query, version, headers, authority) and the body outcome; a failed body read is compared
    as a class (TimedOut / I/O error are not distinguished by the property)"""
    if got[0:6] != want[0:6]:
        return False
    gb, wb = got[6], want[6]
    if gb[1][0] == ("N", 1) and wb[1][0] == ("N", 1):
        return True
    return gb == wb


def _concat_ok(outs):
    return b"".join(o[1][1][1] for o in outs if o[1][0] == ("N", 0))


def compare(c, i, m):
    """implementation vs. model.  Compared: ok / error (every parse error is one class: the property says 'an error'), the
    request fields, the body outcome, and for h1.request that the early bytes of the two agree where both have them (how many
    bytes come with the head depends on the allocator's growth policy, which the theorems leave free: grow_ok) -- the exact
    position of the early bytes in the stream and the bytes taken from the connection are judged by the specification."""
    if i == "(L (N 2))" or m == "(L (N 2))":
        return i == m
    if _is_hang(i):
        return False
    if c.comp in ("h1.accept", "h1.echo"):
        xi, xm = kv.xparse(i), kv.xparse(m)
        if xi[0] != "L" or len(xi[1]) != 2:
            return False
        oi, om = xi[1][0], xm[1][0]
        if oi[1][0] != om[1][0]:
            return False
        if oi[1][0] == ("N", 0):
            return _view_ok(oi[1][1][1], om[1][1][1])
        return True
    if c.comp == "h1.request":
        if _is_err(i) or _is_err(m):
            return _is_err(i) and _is_err(m)
        xi, xm = kv.xparse(i), kv.xparse(m)
        if xi[1][0] != ("N", 0) or xm[1][0] != ("N", 0):
            return i == m
        gi, gm = xi[1][1][1], xm[1][1][1]
        ei, em = gi[6][1], gm[6][1]
        n = min(len(ei), len(em))
        return _view_ok(gi[0:6] + [gi[7]], gm[0:6] + [gm[7]]) and ei[:n] == em[:n]
    if c.comp == "h1.headers":
        return i == m or (_is_err(i) and _is_err(m))
    if c.comp == "h1.body":
        xi, xm = kv.xparse(i), kv.xparse(m)
        if xi[0] == "L" and len(xi[1]) == 2 and xi[1][0][1][0] == ("N", 1) and xm[1][0][1][0] == ("N", 1):
            return True
        return i == m
    if c.comp == "h1.poll":
        xi, xm = kv.xparse(i), kv.xparse(m)
        if xi[0] != "L" or len(xi[1]) != 2 or xi[1][1] != xm[1][1]:
            return False
        oi, om = xi[1][0][1], xm[1][0][1]
        return len(oi) == len(om) and all(a == b or (a[1][0] == ("N", 1) and b[1][0] == ("N", 1)) for a, b in zip(oi, om))
    return i == m


def spec_ok(c, i, s):
    if i == "(L (N 2))":
        return False            # a panic is never acceptable (C02)
    if _is_hang(i):
        return False            # 'ends in an error rather than a hang': no stream, schedule or end mode allows a hang
    if c.comp == "h1.poll":
        # the declared body as far as it is delivered, and how much of it is on the connection: everything handed out,
        # in whatever pieces, is a prefix of the first; never more than the second is taken; a read with a non-empty window
        # says 'end of file' only at the end of the body (or of what the peer delivered); a drain that succeeds leaves the
        # connection right behind the body
        xs, xi = kv.xparse(s), kv.xparse(i)
        body, on_conn = xs[1][0][1], xs[1][1][1]
        outs, consumed = xi[1][0][1], xi[1][1][1]
        ops = c.x[1][5][1]
        got = b""
        cut = False                      # a read_to_bytes with a limit has discarded the rest of the body
        for op, o in zip(ops, outs):
            if o[1][0] != ("N", 0):
                break
            piece = o[1][1][1]
            if cut and piece:
                return False             # after read_to_bytes / drain the rest of the body is gone
            if op[0] == "N":
                if len(piece) > op[1]:
                    return False
                if op[1] > 0 and not piece and not cut and len(got) < len(body):
                    return False
            elif not op[1]:
                cut = True               # drain: the body is given up, nothing is handed out after it
            elif op[1]:
                if len(piece) > op[1][0][1]:
                    return False
                if op[1][0][1] > 0:
                    if not cut and piece != body[len(got):len(got) + op[1][0][1]]:
                        return False
                    cut = True
            got += piece
            if not body.startswith(got):
                return False
        if consumed > on_conn:
            return False
        if len(outs) == len(ops) and outs and ops[-1] == ("L", []) and outs[-1][1][0] == ("N", 0) and consumed != on_conn:
            return False
        return True
    if s == "(L (N 7))":
        return True
    if c.comp in ("h1.accept", "h1.echo"):
        xi = kv.xparse(i)
        if xi[0] != "L" or len(xi[1]) != 2:
            return False
        o = xi[1][0]
        tag = o[1][0]
        if tag == ("N", 3):
            return False        # no result within 20 s: a hang
        if s.startswith("(L (N 1)"):
            return tag == ("N", 1)
        want = kv.xparse(s)[1][1][1]
        return tag == ("N", 0) and _view_ok(o[1][1][1], want[0:7])
    if s.startswith("(L (N 1)"):
        return _is_err(i)       # 'an error': the property does not name the class
    if c.comp == "h1.request":
        xs = kv.xparse(s)
        xi = kv.xparse(i)
        want = xs[1][1][1]                   # fields + body outcome + head end
        if xi[1][0] != ("N", 0):
            return False
        got = xi[1][1][1]
        k = want[7][1]
        stream = c.x[1][4][1]
        early = got[6][1]
        if not (_view_ok(got[0:6] + [got[7]], want[0:7]) and early == stream[k:k + len(early)]):
            return False
        if got[7][1][0] == ("N", 0):
            # nothing behind the body is taken from the connection (what came with the head apart)
            return got[8][1] == k + max(len(early), len(got[7][1][1][1]))
        return True
    if c.comp == "h1.body":
        xi, xs = kv.xparse(i), kv.xparse(s)
        if xs[1][0][1][0] == ("N", 1):
            return xi[1][0][1][0] == ("N", 1)
        return i == s
    return i == s


def signature(c, m):
    kind = c.meta.get("kind", "")
    return m[:40] if len(m) > 40 else m


def classify(c, i):
    return None


def out_of_domain(c, i):
    return i.startswith("(L (N 96)")


def directed(rng, mismatches):
    """after a broken proof / correspondence: short requests x every cut, every burst size around the limit, bare-LF variants"""
    cases = []
    g = (b"POST", b"/d?q", True, [hline(b"Host", 0, b"h"), hline(b"Content-Length", 2, b"4"), hline(b"X", 1, b"")])
    s = print_head(*g) + b"bodyNEXT"
    for a in range(1, len(s)):
        for b in range(a + 1, len(s), 3):
            cases.append(mkreq(s, [a, b - a, len(s)], "directed-cut", g=g))
    for variant in (s.replace(b"\r\n", b"\n"), s.replace(b"\r\n", b"\n", 1), s.replace(b": ", b":"), s.replace(b"\r\n\r\n", b"\n\r\n")):
        for a in range(1, len(variant)):
            cases.append(mkreq(variant, [a, len(variant)], "directed-variant"))
    junk = b"GET / HTTP/1.1\r\nHost: a\r\nx: " + b"a" * 40000
    for t in range(16000, 16390, 7):
        cases.append(mkreq(junk, [t, 100000, 100000, 100000], "directed-limit"))
        hl = padded_head(b"GET", b"/t", [hline(b"Host", 1, b"a")], t)
        gg = (b"GET", b"/t", True, hl)
        cases.append(mkreq(print_head(*gg) + b"zz", [t - 3, 100000], "directed-limit", g=gg))
    for cl in range(0, 70):
        for el in (0, cl // 2, cl):
            cases.append(mkbody(body_bytes(el), cl, BIG_LIMIT, body_bytes(cl + 40)[el:], [max(1, cl - el - 30), 30, 1000], "directed-body"))
    return cases + generate(rng, "quick")


def describe(c):
    x = c.x[1]
    if c.comp == "h1.request":
        return {"component": c.comp, "kind": c.meta.get("kind"), "profile": c.profile, "stream": kv.pretty(x[4], 100),
                "schedule": kv.pretty(x[5], 80), "max_len": x[2][1], "end_mode": x[3][1], "limit": x[6][1]}
    if c.comp in ("h1.accept", "h1.echo"):
        st = x[1] if c.comp == "h1.accept" else x[0]
        return {"component": c.comp, "kind": c.meta.get("kind"), "steps": kv.pretty(st, 160),
                "end": (x[3] if c.comp == "h1.accept" else x[2])[1]}
    return {"component": c.comp, "kind": c.meta.get("kind"), "profile": c.profile, "input": kv.pretty(c.x, 160)}


RULE = ("scripted AsyncRead (delivers the stream in the burst sizes of a schedule, then closes / errors / pends) into the real "
        "kvarn_async::read::request and kvarn::application::Http1Body (read_to_bytes; as AsyncRead with scripted window sizes; drain), "
        "kvarn_utils::parse::headers directly, in the debug and the overflow-unchecked build; the real HttpConnection::accept (the code's own "
        "16 KiB head limit, 5 s head time-out, scheme and parse_http_1 glue) on the server end of a loopback TCP pair, and "
        "kvarn::handle_connection with a host whose only extension answers with the request its handler saw and the body it got from "
        "read_to_bytes. Compared with the extracted Coq model (correspondence: ok / error, method, path, query, version, sorted header "
        "list, authority, body outcome, agreement of the early bytes, per-call outcomes and bytes taken for h1.poll) and with the executable "
        "specification (oracle: for a request printed from the grammar -- any method token of <= 7 bytes, optional whitespace SP/HTAB "
        "before and after every value, CRLF or bare LF per line -- the fields and the body must be exactly the printed ones (expect); for "
        "every other stream the fields and the body outcome must be serve_spec of the delivered bytes, a function without schedule "
        "(theorem segmentation_blind), or an error where it says error; the early bytes must be the bytes of the stream right after the "
        "head and nothing behind the body may be taken from the connection (consumed = head + max(early, body)); no blank line within "
        "min(16 KiB, delivered bytes) => error; over loopback: an error or the request within 20 s, never a hang; Http1Body as AsyncRead: "
        "whatever the calls hand out is a prefix of the declared body, pieces no longer than their windows, end of file only at the end "
        "of the body, never more than content-length - early bytes taken, a successful drain leaves the connection right behind the body "
        "and the body unreadable; never a panic; never a hang: the scripted reader answers at most 1000 consecutive reads with 0 bytes "
        "-- code that reads again spins at end of file --, every call into kvarn has 10 s (the case is run a second time before that "
        "is said), every case runs on a worker thread that is given up after 45 s / 120 s (loopback), and the outcome (L (N 3) (N why)) "
        "is rejected by the oracle for every input). Generators: short messages x every cut position (2 and 3 pieces, byte-by-byte), also "
        "with bare-LF line ends and with tabs/spaces around the values; grammar requests with random whitespace decorations and random "
        "multi-cut schedules, heads of size 511..16385 with bursts that land the buffer on the capacity thresholds, other head limits, "
        "content-length {0,1,31,32,33,100,5000} x trailing pipelined request x caller limits x early/late splits, truncated heads and "
        "bodies (EOF / error / stall), 100 hand-written malformed heads, random mutations, Host values and targets the http crate refuses, "
        "bounded-exhaustive header blocks over {a : SP CR LF}, random sequences of read windows / read_to_bytes / drain over random "
        "early/late splits, loopback: heads of 16383/16384/16385 bytes and an unterminated 40 KB head through the real accept, a client that "
        "stops in the middle of the head (the real 5 s), one that pauses 1.2 s, grammar requests with bodies and pipelined successors; "
        "schedules with 0-byte reads (1, 3, 1200 in a row) before, inside and behind the head and the body, for the three end modes. "
        "distinct_nontrivial counts distinct (component, input, model outcome prefix) triples")
ASSUMPTIONS = [
    "read schedule = list of burst sizes; each read returns min(burst, window, bytes left) bytes; the exact theorems (parse_print*, "
    "schedule_independent*, ows_independent, segmentation_blind, body_exact, body_any_schedule, body_read_complete, body_drain_aligns) take "
    "schedules of non-empty bursts (sched_pos: a 0-byte read is how a peer says EOF, modelled by the end mode); head_limit, stalled_head, "
    "body_read_capped, head_read_ends, body_read_ends, body_calls_end and served_body_ends hold for every schedule",
    "a hang of the model is a loop that uses up its fuel (Err E_FUEL); the fuel of each loop is the number of bytes it can still get plus "
    "one (head: length of the stream + 1, read_to_bytes: bytes still wanted + 1, drain: unread + 1) and one round of a model loop is one "
    "read of the code, so the termination theorems say that every round gets at least one byte or is the last one. On the implementation "
    "side a hang is what the harness can see of one: 1000 consecutive 0-byte answers of the scripted reader followed by another read, a "
    "call that does not return within 10 s (the case is repeated once), a case whose worker thread does not come back within 45 s "
    "(repeated once; after two such threads the rest of that harness process is reported as not executed and run again by the driver). "
    "None of the modelled readers reads again after a 0-byte answer, so the budget of 1000 is not a bound the code comes near",
    "BytesMut::reserve, when it reallocates, yields a capacity >= len + additional (theorems hold for every such growth function; the "
    "model run instantiates it with Vec's amortised doubling max(2*cap, len+additional, 8); the comparison with the code does not depend on "
    "it: how many body bytes arrive with the head is compared only where both sides have them)",
    "http 1.5.0: Method::from_bytes, HeaderName::from_bytes, HeaderValue::from_maybe_shared/to_str, Uri::from_maybe_shared (scheme http/https, "
    "authority scan, path/query classes, UTF-8 check) are transcribed into the model and validated by the differential run, not proved against "
    "the crate; parse_print* take the crate's verdict on the URI (scheme://host target when the Host value is an authority, the origin-form target alone otherwise) as the hypothesis request_uri .. = Some ..",
    "HeaderMap::insert's MAX_SIZE (32768 entries) panic is not modelled: unreachable below 96 KiB of head",
    "read_to_bytes' inner reads (through tokio's Take into Http1Body::poll_read) are modelled as reads of the connection itself: there "
    "poll_read's own cap content_length - offset is never below Take's limit; the differential run covers the combination",
    "a reader that pends for ever during the body is cut off by the harness after 60 ms (scripted reader) resp. 10 s (loopback) and reported as "
    "TimedOut, which is what kvarn's own 30 s tokio timeout produces; the head time-out of the scripted runs is the function's parameter "
    "(15 ms), the loopback runs use kvarn's own 5 s: an error must arrive within 20 s, a client pausing 1.2 s must be served",
    "over loopback the kernel decides the segmentation: the model reads the same bytes in one burst, which is the same view by theorem "
    "segmentation_blind; error classes are compared as 'an error' (the property does not name them)",
    "the cfg(not(feature = \"async-networking\")) copy of the reader in application.rs is not compiled in any supported feature set (https and "
    "base both enable async-networking) and is not checked",
]
TRUSTED = ["modelled: async/src/lib.rs read_more/read_headers/contains_two_newlines/read::request, utils/src/parse.rs headers/version, "
           "utils/src/lib.rs valid_method/valid_version/get_body_length_request, src/application.rs Http1Body::{new, poll_read, "
           "read_to_bytes, drain} over async/src/lib.rs read_to_end_or_max and tokio's Take; exercised unmodelled (loopback runs, result "
           "predicted by the model of read::request + Http1Body with max_len = 16384, scheme http): src/application.rs "
           "HttpConnection::accept / request::parse_http_1, src/lib.rs handle_connection up to the Prepare extension. The constants of "
           "accept / parse_http_1 and where they are in the model: `16 * 1024` (application.rs, HttpConnection::accept, the max_len handed to "
           "parse_http_1) = Model accept_max_len = 16384, the max_len of serve in run_accept / run_echo (theorem head_limit with max_len = "
           "16384; tied by the loopback heads of 16383 / 16384 / 16385 bytes: served, served, error); `Duration::from_secs(5)` "
           "(application.rs, parse_http_1, the per-read time-out handed to read::request) = end mode 1 of the model reader (a read that "
           "pends until the time-out: RdStall => Err E_UNEXPECTED_END in read_headers; theorem stalled_head; tied by the loopback cases "
           "accept-stall: an error after the code's own 5 s and within 20 s, and accept-slow / echo-slow: a pause of 1.2 s is served); the "
           "scheme `http` for an unencrypted connection = https := false in accept_input; Http1Body::new(stream, early bytes, "
           "get_body_length_request(&head)) = the second half of serve"]
LEVEL_TEXT = ("Machine-checked Coq theorems (27, no axioms) over a byte-level executable model of the HTTP/1 request reader (read loop with "
              "buffer growth through an arbitrary growth function, early method check, request-line state machine, header parser with its "
              "absolute indices and whitespace trimming, URI assembly, body length, body reader, Http1Body as a state machine with poll_read / "
              "read_to_bytes / drain) driven by an arbitrary read schedule (list of burst sizes). parse_print_ows: for every request of the "
              "grammar -- ANY method token of <= 7 bytes, target without SP/CR/LF, HTTP/1.0|1.1, header lines name ':' OWS value OWS with OWS "
              "any mix of spaces and tabs (also none), each line ending in CRLF or a bare LF, names unique up to case, values = RFC 9110 "
              "field values (visible bytes, obs-text, inner SP/HTAB) -- followed by any bytes, every schedule delivering head + body, every "
              "growth function and every end mode, the reader returns exactly method, path, query, version, header list WITHOUT the optional "
              "whitespace, authority and the first min(content-length, limit) bytes after the blank line; parse_print_head_ows: the parser "
              "alone, with the bytes after the head returned unchanged; parse_print / parse_print_lf / parse_print_head(_lf) are the instances "
              "without added whitespace; ows_independent / schedule_independent: two spellings, schedules, growth functions, end modes give the "
              "same request and body; method_token_starts: a token of <= 7 bytes followed by a space passes the early start check. "
              "segmentation_blind: for EVERY byte stream the observable result (fields + body outcome, or the error class) equals serve_spec "
              "of the delivered bytes, a function without schedule or capacities (schedule_independent_any_stream). head_limit / "
              "stalled_head: no blank line within max_len (16384) bytes resp. within the delivered bytes => an error, for every schedule "
              "incl. 0-byte reads and every growth function whatsoever. head_read_ends / body_read_ends / body_calls_end / "
              "served_body_ends ('rather than a hang'): for EVERY schedule -- any number of 0-byte reads anywhere --, end mode and growth "
              "function the head loop, read_to_bytes, and every call of every sequence of read / read_to_bytes / drain on a Http1Body end "
              "within their fuel (= bytes still obtainable + 1 reads) with a value or one of their errors, never 'out of fuel', never a "
              "panic. body_exact / body_any_schedule: read_to_bytes returns exactly "
              "min(content-length, limit) bytes and leaves the rest of the stream (the next request) on the connection; short bodies end as "
              "EOF-prefix / TimedOut / I/O error. body_read_capped: Http1Body as AsyncRead, for EVERY sequence of read windows, every stream, "
              "schedule and end mode, hands out a prefix of the declared body, takes from the connection exactly the part of it that did not "
              "come with the head, and its unread counter says what is left; body_read_complete: content-length reads of non-empty windows "
              "give exactly the body, then end of file for ever; body_rest_exact: read_to_bytes after any reads returns the rest of the "
              "body; body_drain_aligns: after any reads drain leaves the connection at the next request and the body unreadable. ows_value_refuted, method_token_refuted, body_read_capped_refuted, body_rest_refuted: the "
              "witnesses that these statements were false of the code before this round's five repairs (Model/Http1ReadOld.v). All general "
              "statements by induction over the stream / the schedule / the window list with invariants on the reader state, none by "
              "enumeration. The model is tied to the code on every run by a differential run of the real functions over a scripted AsyncRead "
              "and of the real HttpConnection::accept / handle_connection over loopback.")
LEVEL_NOTE = ("Trusted: Coq kernel, extraction (reduced by the in-kernel recheck sample), the hand transcription of the anchored Rust functions as "
              "validated by the differential run (ok/error, fields, body outcome, per-call outcomes of Http1Body; error classes and the split "
              "early/late are not compared exactly, the oracle bounds them), the http/bytes/tokio crates below the modelled functions (http's "
              "Uri/HeaderName/HeaderValue/Method checks are transcribed, parse_print* take the Uri verdict as the hypothesis expect .. = Some ..). "
              "The constants 16 KiB and 5 s and the glue of parse_http_1 are tied by loopback runs through the real accept, not modelled as "
              "code (TRUSTED says which model parameter each of them is). 'Rather than a hang' is proved of the model as termination of "
              "every reading loop within its fuel for every schedule, and observed on the code by watchdogs whose verdicts are outcomes of "
              "the case (spin on 0-byte reads / no return within 10 s / worker thread lost), so a reader that hangs yields a VIOLATION with "
              "the stream and the schedule as replay instead of a check that does not return. Not covered: requests whose header names repeat (judged by segmentation_blind only); methods of 8 bytes and more "
              "(PROPFIND and PROPPATCH are in utils::valid_method but longer than the parser's 7-byte method buffer: refused with "
              "InvalidVersion, outside the property's 'method up to 7 letters'); obs-fold (a continuation line is an error: RFC 9112 allows "
              "that); the body time-out of 30 s (not a clause); the cfg(not(async-networking)) duplicate of the reader. Twelve defects were "
              "found and repaired in all (fixed: lines in known-findings.txt), five of them in this round: optional whitespace kept in header "
              "values (Content-Length: 3<SP> => body length 0, body read as the next request), extension methods refused, Http1Body as "
              "AsyncRead reading past content-length, read_to_bytes starting over after a partial read, drain leaving the body readable; the "
              "theorems are about the repaired code.")
TECHNIQUE = "Coq proof (model satisfies the specification for all requests, schedules and growth functions) + differential correspondence model vs. implementation"
EXHAUSTIVE = False

ERRS = r"(e = E_TOO_LONG \/ e = E_UNEXPECTED_END \/ e = E_SYNTAX)"
NEED = r"N.to_nat (N.min (body_length (g_method g) (g_hmap g)) limit)"
THEOREMS = [
    ("parse_print",
     r"forall grow mode https dh (max_len : nat) limit (g : greq) rest (sched : list nat) e, grow_ok grow -> sched_pos sched -> greq_ok g = true -> (length (print_head g) <= max_len)%nat -> expect https dh limit g rest = Some e -> (NEED <= length rest)%nat -> (length (print_head g) + NEED <= sum_sched sched)%nat -> exists sv, serve grow mode https dh max_len limit (print_head g ++ rest) sched = Ok sv /\ observed sv = Some e".replace("NEED", NEED)),
    ("parse_print_head",
     r"forall https dh (g : greq) extra auth path query, greq_ok g = true -> request_uri https (g_host dh g) (g_target g) = Some (auth, path, query) -> parse_request https dh (print_head g ++ extra) = Ok (mk_request (g_method g) path query (if g_v11 g then 11 else 10) (g_hmap g) auth extra)"),
    ("parse_print_lf",
     r"forall grow mode https dh (max_len : nat) limit (l0 : bool) (fl : list bool) (lb : bool) (g : greq) rest (sched : list nat) e, grow_ok grow -> sched_pos sched -> greq_ok g = true -> (length (print_head_e l0 fl lb g) <= max_len)%nat -> expect https dh limit g rest = Some e -> (NEED <= length rest)%nat -> (length (print_head_e l0 fl lb g) + NEED <= sum_sched sched)%nat -> exists sv, serve grow mode https dh max_len limit (print_head_e l0 fl lb g ++ rest) sched = Ok sv /\ observed sv = Some e".replace("NEED", NEED)),
    ("parse_print_head_lf",
     r"forall https dh (l0 : bool) (fl : list bool) (lb : bool) (g : greq) extra auth path query, greq_ok g = true -> request_uri https (g_host dh g) (g_target g) = Some (auth, path, query) -> parse_request https dh (print_head_e l0 fl lb g ++ extra) = Ok (mk_request (g_method g) path query (if g_v11 g then 11 else 10) (g_hmap g) auth extra)"),
    ("schedule_independent",
     r"forall grow1 grow2 mode1 mode2 https dh (max_len : nat) limit (g : greq) rest (sched1 sched2 : list nat), grow_ok grow1 -> grow_ok grow2 -> sched_pos sched1 -> sched_pos sched2 -> greq_ok g = true -> (length (print_head g) <= max_len)%nat -> expect https dh limit g rest <> None -> (NEED <= length rest)%nat -> (length (print_head g) + NEED <= sum_sched sched1)%nat -> (length (print_head g) + NEED <= sum_sched sched2)%nat -> exists sv1 sv2, serve grow1 mode1 https dh max_len limit (print_head g ++ rest) sched1 = Ok sv1 /\ serve grow2 mode2 https dh max_len limit (print_head g ++ rest) sched2 = Ok sv2 /\ observed sv1 = observed sv2 /\ observed sv1 <> None".replace("NEED", NEED)),
    ("segmentation_blind",
     r"forall grow mode https dh (max_len : nat) limit stream (sched : list nat), grow_ok grow -> sched_pos sched -> result_view (serve grow mode https dh max_len limit stream sched) = serve_spec mode https dh max_len limit (firstn (sum_sched sched) stream)"),
    ("schedule_independent_any_stream",
     r"forall grow1 grow2 mode https dh (max_len : nat) limit stream (sched1 sched2 : list nat), grow_ok grow1 -> grow_ok grow2 -> sched_pos sched1 -> sched_pos sched2 -> firstn (sum_sched sched1) stream = firstn (sum_sched sched2) stream -> result_view (serve grow1 mode https dh max_len limit stream sched1) = result_view (serve grow2 mode https dh max_len limit stream sched2)"),
    ("head_limit",
     r"forall grow mode https dh (max_len : nat) limit stream (sched : list nat), contains_two_newlines (firstn max_len stream) = false -> exists e, serve grow mode https dh max_len limit stream sched = Err e /\ " + ERRS),
    ("stalled_head",
     r"forall grow mode https dh (max_len : nat) limit stream (sched : list nat), contains_two_newlines (firstn (sum_sched sched) stream) = false -> exists e, serve grow mode https dh max_len limit stream sched = Err e /\ " + ERRS),
    ("head_read_ends",
     r"forall grow mode (max_len : nat) stream (sched : list nat), match read_headers grow (S (length stream)) mode max_len [] 512 (mk_reader stream sched) with | Ok _ => True | Err e => " + ERRS[1:-1] + r" | Panic => False end"),
    ("body_read_ends",
     r"forall grow mode early (cl limit : N) stream (sched : list nat), match read_to_bytes grow mode early cl limit (mk_reader stream sched) with | Ok _ => True | Err e => e = E_TIMEDOUT \/ e = E_IO | Panic => False end"),
    ("body_calls_end",
     r"forall grow mode early (cl : nat) stream (sched : list nat) (ops : list hop), Forall (fun o : outcome bytes => match o with | Ok _ => True | Err e => e = E_TIMEDOUT \/ e = E_IO | Panic => False end) (fst (hb_run grow mode (hb_new early cl) (mk_reader stream sched) ops))"),
    ("served_body_ends",
     r"forall grow mode https dh (max_len : nat) limit stream (sched : list nat) sv, serve grow mode https dh max_len limit stream sched = Ok sv -> match sv_body sv with | Ok _ => True | Err e => e = E_TIMEDOUT \/ e = E_IO | Panic => False end"),
    ("body_exact",
     r"forall grow mode early (cl limit : N) stream (sched : list nat), grow_ok grow -> sched_pos sched -> (N.to_nat (N.min cl limit) <= length early + Nat.min (sum_sched sched) (length stream))%nat -> exists r', read_to_bytes grow mode early cl limit (mk_reader stream sched) = Ok (firstn (N.to_nat (N.min cl limit)) (early ++ stream), r') /\ rd_data r' = skipn (N.to_nat (N.min cl limit) - length early) stream"),
    ("body_any_schedule",
     r"forall grow mode early (cl limit : N) stream (sched : list nat), grow_ok grow -> sched_pos sched -> match body_spec mode early cl limit (firstn (sum_sched sched) stream) with | Ok b => exists r', read_to_bytes grow mode early cl limit (mk_reader stream sched) = Ok (b, r') | Err e => read_to_bytes grow mode early cl limit (mk_reader stream sched) = Err e | Panic => False end"),
    ("parse_print_ows",
     r"forall grow mode https dh (max_len : nat) limit (l0 : bool) (ds : list deco) (lb : bool) (g : greq) rest (sched : list nat) e, grow_ok grow -> sched_pos sched -> greq_ok g = true -> decos_ok ds (g_headers g) = true -> (length (print_head_d l0 ds lb g) <= max_len)%nat -> expect https dh limit g rest = Some e -> (NEED <= length rest)%nat -> (length (print_head_d l0 ds lb g) + NEED <= sum_sched sched)%nat -> exists sv, serve grow mode https dh max_len limit (print_head_d l0 ds lb g ++ rest) sched = Ok sv /\ observed sv = Some e".replace("NEED", NEED)),
    ("parse_print_head_ows",
     r"forall https dh (l0 : bool) (ds : list deco) (lb : bool) (g : greq) extra auth path query, greq_ok g = true -> decos_ok ds (g_headers g) = true -> request_uri https (g_host dh g) (g_target g) = Some (auth, path, query) -> parse_request https dh (print_head_d l0 ds lb g ++ extra) = Ok (mk_request (g_method g) path query (if g_v11 g then 11 else 10) (g_hmap g) auth extra)"),
    ("ows_independent",
     r"forall grow1 grow2 mode1 mode2 https dh (max_len : nat) limit (l0 l0' : bool) (ds ds' : list deco) (lb lb' : bool) (g : greq) rest (sched1 sched2 : list nat), grow_ok grow1 -> grow_ok grow2 -> sched_pos sched1 -> sched_pos sched2 -> greq_ok g = true -> decos_ok ds (g_headers g) = true -> decos_ok ds' (g_headers g) = true -> (length (print_head_d l0 ds lb g) <= max_len)%nat -> (length (print_head_d l0' ds' lb' g) <= max_len)%nat -> expect https dh limit g rest <> None -> (NEED <= length rest)%nat -> (length (print_head_d l0 ds lb g) + NEED <= sum_sched sched1)%nat -> (length (print_head_d l0' ds' lb' g) + NEED <= sum_sched sched2)%nat -> exists sv1 sv2, serve grow1 mode1 https dh max_len limit (print_head_d l0 ds lb g ++ rest) sched1 = Ok sv1 /\ serve grow2 mode2 https dh max_len limit (print_head_d l0' ds' lb' g ++ rest) sched2 = Ok sv2 /\ observed sv1 = observed sv2 /\ observed sv1 <> None".replace("NEED", NEED)),
    ("method_token_starts",
     r"forall (m rest : bytes), forallb tchar m = true -> (length m <= 7)%nat -> m <> [] -> valid_start (m ++ SP :: rest) = true"),
    ("body_read_capped",
     r"forall mode early (cl : nat) stream (sched ws : list nat) data b' r' e, hb_reads mode (hb_new early cl) (mk_reader stream sched) ws = (data, b', r', e) -> data = firstn (length data) (firstn cl (early ++ stream)) /\ (length data <= cl)%nat /\ rd_data r' = skipn (length data - length early) stream /\ hb_unread b' = (cl - length early - (length data - length early))%nat"),
    ("body_read_complete",
     r"forall mode early (cl : nat) stream (sched ws : list nat), sched_pos sched -> Forall (fun w => (0 < w)%nat) ws -> (cl <= length ws)%nat -> (cl <= length early + Nat.min (sum_sched sched) (length stream))%nat -> exists b' r', hb_reads mode (hb_new early cl) (mk_reader stream sched) ws = (firstn cl (early ++ stream), b', r', None) /\ rd_data r' = skipn (cl - length early) stream /\ hb_unread b' = 0%nat /\ (forall w, hb_read mode b' r' w = Ok ([], b', r'))"),
    ("body_drain_aligns",
     r"forall mode early (cl : nat) stream (sched ws : list nat) data b' r', sched_pos sched -> Forall (fun w => (0 < w)%nat) ws -> (cl <= length early + Nat.min (sum_sched sched) (length stream))%nat -> hb_reads mode (hb_new early cl) (mk_reader stream sched) ws = (data, b', r', None) -> exists b'' r'', hb_drain mode b' r' = Ok (b'', r'') /\ rd_data r'' = skipn (cl - length early) stream /\ hb_unread b'' = 0%nat /\ (forall w, hb_read mode b'' r'' w = Ok ([], b'', r''))"),
    ("body_rest_exact",
     r"forall grow mode early (cl : nat) limit stream (sched ws : list nat) data b' r', grow_ok grow -> sched_pos sched -> Forall (fun w => (0 < w)%nat) ws -> (cl <= length early + Nat.min (sum_sched sched) (length stream))%nat -> hb_reads mode (hb_new early cl) (mk_reader stream sched) ws = (data, b', r', None) -> exists b'' r'', hb_read_to_bytes grow mode b' r' limit = Ok (firstn (N.to_nat limit) (skipn (length data) (firstn cl (early ++ stream))), b'', r'')"),
    ("ows_value_refuted",
     r'exists (h : hline) (d : deco) m e, name_ok (hl_name h) = true /\ value_ok (hl_value h) = true /\ deco_ok d h = true /\ parse_headers_old (print_hlines_d [d] [h] ++ crlf) = Ok (m, e) /\ hm_get (lower (hl_name h)) m <> Some (hl_value h) /\ body_length (B "POST") m = 0 /\ body_length (B "POST") [(lower (hl_name h), hl_value h)] = 3'),
    ("method_token_refuted",
     r"exists m rest, forallb tchar m = true /\ (length m <= 7)%nat /\ m <> [] /\ valid_start_old (m ++ SP :: rest) = false"),
    ("body_read_capped_refuted",
     r"exists mode early cl stream sched w got b' r', hb_read_old mode (hb_new early cl) (mk_reader stream sched) w = Ok (got, b', r') /\ (cl < length got)%nat"),
    ("body_rest_refuted",
     r"exists mode early cl stream sched w got b' r' body r'', hb_read_old mode (hb_new early cl) (mk_reader stream sched) w = Ok (got, b', r') /\ hb_read_to_bytes_old vec_grow mode b' r' 100 = Ok (body, r'') /\ got ++ body <> firstn cl (early ++ stream) /\ (cl < length (got ++ body))%nat"),
]
