"""C02 — No client input can panic a connection task."""
import atexit
import itertools
import os
import re
import shutil
import tempfile
import time

import kv
from kv import Case, xn, xb, xl, xlist, xopt, xbool

ID = "C02"
MODULE = "C02"
IMPORTS = "Bytes RustInt RustStd Panics PanicsProofs Ims ImsProofs UrlCrawl UrlCrawlProofs Templates TemplatesProofs"
PROFILES = ("dev", "nochk")
KERNEL_SAMPLE = 30
THEOREMS = []     # pinned statements: at the end of the file

MAXLEN = 16384
LIMIT = 65536
U64 = 2 ** 64 - 1
ALPHA = b"GET /:\r\na0-=,;%"                    # the structural alphabet of a request head
ALPHA_H = b"a: \r\n0-;%\x00\xff\t"               # header block
ALPHA_Q = b"a=&%2b\xc3\xa9"                      # query strings (valid UTF-8 only: "\xc3\xa9" is one symbol)
ALPHA_R = b"bytes=0123456789-+, "               # Range values
ALPHA_AE = b"gzipbr,;q=0.1 \tidentity*"         # Accept-Encoding values
ALPHA_P = b"!> &\r\nanoce=\"'"                   # first line of a served file

EXTREME = [0, 1, 9, 10, 2 ** 31, 2 ** 32 - 1, 2 ** 32, 2 ** 63 - 1, 2 ** 63, U64 - 1, U64, U64 + 1, 10 ** 20, 10 ** 25,
           int("9" * 40)]


# ------------------------------------------------------------------------------------------------
# inventory of the partial operations reachable from client bytes (evidence: coverage.inventory)
# ------------------------------------------------------------------------------------------------
INVENTORY = [
    # (where, operation, covered by)
    ("async/src/lib.rs read_more", "assert!(buffer.len() == *read); buffer[*read..end]; reserve arithmetic (len + 512) - max_len",
     "Model/Http1Read.v read_headers/read_more_cap (window = min(cap, max_len) - len; the assert is an invariant of the two set_len calls); "
     "head_never_panics"),
    ("async/src/lib.rs read::request", "buffer[..method_len]; method[method_len] = byte; version[version_index] = byte; "
     "buffer.slice(header_end - 1..) (twice); buffer[path_start..path_end]; path_end - path_start; "
     "headers_mut().expect(..)", "Model/Http1Read.v req_loop/req_finish (slice_chk, header_end = 0 => Panic); head_never_panics"),
    ("utils/src/parse.rs headers", "&bytes[pos..]; bytes[pos - 1]; bytes.slice(value_start..value_end); unreachable!()",
     "Model/Http1Read.v hdr_loop (slice_chk vs value_end); headers_never_panics (invariant: value_start <= value_end)"),
    ("utils/src/lib.rs get_body_length_request", "usize::from_str on content-length", "Model/Http1Read.v body_length (total)"),
    ("src/application.rs Http1Body::read_to_bytes / poll_read", "&self.bytes[..len]; len - buffer.len(); bytes[offset..offset + remaining]; "
     "buf.filled().len() - size; BytesMut::with_capacity(min(content_length, max_len))",
     "Model/Http1Read.v read_to_bytes/rtem_loop (C07, C18); head_never_panics covers serve = head + body; the allocation is bounded by "
     "the handler's max_len argument (a handler passing usize::MAX lets content-length: 2^63 abort on allocation: handler contract, not modelled)"),
    ("utils/src/parse.rs sanitize_request", "v.get(6..separator), v.get(separator + 1..), end.saturating_add(1); parse::uri: path.as_bytes()[1..]",
     "Model/Range.v sanitize_range, Model/PathSan.v sanitize_path (total: get form); range_never_panics, sanitize_never_panics"),
    ("utils/src/parse.rs apply_to_response", "range_end - 1; body.slice(range_start as usize..range_end as usize); "
     "HeaderValue::from_maybe_shared(..).unwrap()", "Model/Range.v apply_range (sub_u64, slice_chk); range_never_panics (C09)"),
    ("src/lib.rs handle_cache / get_response", "utils::parse::uri(&decoded).unwrap(); creation - 1.seconds(); format(..).expect(..)",
     "Model/PathSan.v request_fs_path; fs_path_never_panics (C01). If-Modified-Since (to_str, the time crate's parser for HTTP_DATE, "
     "timestamp >= creation - 1 s): Model/Ims.v; if_modified_since_never_panics / _rule / _plus_variant_refuted; components ims.decide "
     "(compared) and explore.date, both through the REAL hit arm of handle_cache on a warmed cache"),
    ("src/lib.rs SendKind::send", "apply_to_response on the encoded body; ensure_length; set_content_length(..).unwrap()",
     "Model/RangeConn.v conn_step (C09); conn_never_panics"),
    ("src/comprash.rs PathQuery / UriKey", "&self.string[..query_start]; &self.string[query_start..]", "Model/Panics.v pq_path/pq_query; "
     "pathquery_never_panics"),
    ("src/comprash.rs clone_preferred", "values[0] (guarded by len == 1); list_header; the weights (f32::from_str: nan, inf, 1e400, -0, .5, 1., +1 are "
     "accepted) are tested with == 0.0, != 0.0 and == 1.0 only — total on every f32, NaN included; nothing orders them (partial_cmp is None on a NaN)",
     "Model/Negotiate.v list_header (every slice is the get form), parse_q_dec (the grammar of f32::from_str), qclass; list_header_never_panics (C06); "
     "Model/Panics.v ae_answer: accept_encoding_always_answered (any weight parser); sort_weights / weight_order_variant_refuted: a rewrite that sorts the "
     "accepted codings with partial_cmp(..).unwrap() panics exactly on two or more members with a NaN weight; component c02.ae (compared, live: every pair of "
     "13 core weight texts on two codings, ~60 further texts, random lists; pages cached / not cached / file / built-in 404 / under the 50-byte floor), "
     "conn-weights, server-weights"),
    ("client-controlled numbers: parsers, casts, comparisons (the complete list for the request path)",
     "f32::from_str (weights, above); u64::from_str x2 (range; `as usize` only after the clamp to body.len() in apply_to_response); usize::from_str "
     "(content-length; (len - buffer.len()) as u64 widens); the time crate's fixed-width integer fields (if-modified-since; compared as OffsetDateTime, a "
     "total order); pos += read as u64 and read - (pos - end) as usize in stream_body (below the 64 KiB buffer); u32 integer * unit in "
     "from_kvarn_cache_control (RESPONSE header); no from_str_radix, no sort / max / min over client-controlled values anywhere in src, utils, async, "
     "extensions (vary.rs' documented callback sorts accept-language weights with unwrap_or(Equal): operator code, exercised on /v with lists of up to 64 members)",
     "Model/Negotiate.v parse_q_dec, Model/Range.v sanitize_range / apply_range, Model/Http1Read.v body_length, Model/Ims.v, Model/Panics.v stream_chunk, "
     "Model/CacheControl.v; the list is in Model/Panics.v ('Numbers a client controls')"),
    ("utils/src/parse.rs list_header", "header.get(a..b) x4; position + 1 / + 2", "Model/Negotiate.v; list_header_never_panics (C06)"),
    ("utils/src/parse.rs query + Query::insert/index_of/iterate_to_*", "query.get(..) x4; value_start.saturating_sub(1); "
     "self.pairs[index..]; self.pairs[..index]; index -= 1; Vec::insert(pos, ..); binary_search_by", "Model/Panics.v query; query_never_panics"),
    ("utils/src/parse.rs QueryPairIter", "self.pos.unwrap(); self.back_pos.unwrap(); *back_pos -= 1; pairs[..usize::MAX]",
     "Model/Panics.v qi_next/qi_next_back (repaired code), qi_next_back_v0; query_iter_never_panics, query_get_last_v0_refuted; FIXED 55bc7f7"),
    ("utils/src/parse.rs CacheControl::from_kvarn_cache_control", "&header[..len - 1]; integer * multiplier (u32)",
     "Model/CacheControl.v (C04). NOT client input: read from the RESPONSE headers of a handler / upstream; in a build with overflow "
     "checks '4294967295d' panics (kept in the model as the checked branch, outside request_path)"),
    ("src/host.rs Collection::get_from_request / get_host", "expect(\"Ref pointed to Ref\") (repaired: chains are followed); "
     "moved_host_collection.get_host(&hostname).unwrap()", "Model/Hosts.v choose_host_uri V1; host_choice_never_panics (C15)"),
    ("src/cors.rs check_cors_request / is_part_of_origin", "allowed.host().unwrap() (asserted when the rule is added); split_once",
     "Model/Cors.v is_part_of_origin / check_cors_request are total (C13); borrowed component cors.check"),
    ("src/vary.rs VariedResponse", "responses.insert(position, ..); &self.responses[position]; first().unwrap(); get_by_request(..).unwrap_err()",
     "Model/Vary.v (C05 stale_position_safe); exploration on /v"),
    ("src/limiting.rs register", "max_requests * 3; iteration + 1; expect(\"we're before 1970!?\")", "Model/Limiter.v; limiter_never_panics (C12); a stage "
     "of request_path (every configuration, every history of earlier registrations); the 429 answer and the drop are reached live on the host "
     "lim.example"),
    ("src/extensions.rs uri_redirect (Prime)", "PathAndQuery::from_maybe_shared(..).unwrap(); Uri::from_parts(..).unwrap()",
     "http crate invariants (path + configured suffix + query is a valid path-and-query below 64 KiB because the head is below 16 KiB): "
     "not modelled, exploration (paths ending in '/' and '.')"),
    ("src/extensions.rs http_to_https (Prepare)", "HeaderValue::from_maybe_shared(..).unwrap() on authority + path + query",
     "needs a certificate; URI bytes are visible ASCII or >= 0x80, never DEL: not modelled, not explored"),
    ("src/extensions.rs stream_body", "end - start; pos += read; read - (pos - end) as usize; &buf[..buf_end]",
     "Model/Panics.v stream_window/stream_chunk/stream_loop; stream_window_never_panics, stream_body_never_panics (the hypotheses of "
     "stream_chunk_never_panics are invariants of the loop); component stream.window (loopback): announced length, bytes really sent, "
     "framing of the next response"),
    ("src/extensions.rs resolve_present + utils/src/extensions.rs PresentExtensions", "body.split_off(data_start); &data[start..pos]; "
     "extensions[start + 1..]", "Model/PresentLine.v (C16) — file content, not request bytes; borrowed component present.parse"),
    ("src/extensions.rs nonce (Present)", "&body[value_start + 1..]; BytesCow::replace expect(..)", "Model/Nonce.v nonce_never_panics (C14) — file content"),
    ("src/csp.rs Package", "value.as_str().len() + 1; nonce.as_ref().unwrap()", "Model/Nonce.v package chain (C14); exploration"),
    ("src/application.rs ByteBody::read_n/read_rest", "content.len() - self.read; content.slice(read..read + n)",
     "read <= len is kept by both methods (n is clamped first); bodies of pushed / synthetic requests only, not read from the client; not modelled"),
    ("utils/src/lib.rs make_path / hardcoded_error_body", "path.split_off(pos) (only with an extension argument: error pages, configuration); "
     "220 - 58 + message.len() (constants)", "Model/PathSan.v make_path (C01) for the request path (extension = None); the rest takes no client bytes"),
    ("src/extensions.rs add_sorted_list!", "panic!(\"reached minimum priority ..\") at i32::MIN", "configuration time (C16), no client input"),
    ("src/vary.rs get_header", "capacity arithmetic over configured header names; from_maybe_shared_unchecked", "configured names only (asserted in add_rule)"),
    ("utils/src/lib.rs quoted_str_split", "-", "Model/Quoted.v (C19): control socket only, not reachable over HTTP"),
    ("url-crawl/src/lib.rs LinkIter (file / upstream content: HTTP/2 push, reverse proxy)", "&self.data[pos + 1..]; &quote[..ending]; &self.data[..=pos]; "
     "&self.data[advance..]; QuoteType::from_byte(..).unwrap(); &data[..pos], &data[tag_start..tag_len + tag_start] in filters::resource",
     "Model/UrlCrawl.v (both filters of the crate); link_iter_never_panics, link_iter_v0_refuted; FIXED 4e78a7d; components urls.iter (compared), explore.urls"),
    ("extensions/src/templates.rs extract_templates / handle_template (file content: the operator's templates and the pages that name them)",
     "file.slice(start..end) x2; start_byte.take().unwrap() x5; &file[start..position - 1]; file[..=first_line_end]; file[placeholder_start + 2..position]",
     "Model/Templates.v (extract_templates, handle_template, the lazy lookup between them); template_engine_never_panics, template_engine_v0_refuted; "
     "FIXED 176c67e (an empty last template); components tmpl.render (compared: what the real engine renders through handle_cache) and explore.file: "
     "template files and page bodies bounded-exhaustively over {$[ a b ] LF CRLF \\ SP}"),
    ("extensions/src/lib.rs download / cache / hide / ip_allow (Present), push (Post)", "argument parsers (split(':'), parse::<IpAddr>(), str::parse for cache "
     "preferences); c.replace(0..data_start, ..) in hide; &path[..=last_slash] in push (HTTP/2 only)",
     "not modelled; linked into the exploration host (kvarn_extensions::mount_all): fixture pages and generated first lines (explore.file); push runs "
     "on HTTP/2 only and is not reached (url_crawl is covered directly)"),
    ("src/shutdown.rs connection count", "ConnectionGuard (drop guard, C10)", "component explore.server: a real RunConfig::execute server; "
     "Manager::get_connecions() is read after every case and must be back at its idle value"),
    ("http, h2, h3, rustls, moka, time (formatting), tokio, percent-encoding, mime, mime_guess, tree_magic_mini", "-",
     "not modelled; exploration runs only (explore.conn, explore.server, explore.file)"),
]


# ------------------------------------------------------------------------------------------------
# case constructors
# ------------------------------------------------------------------------------------------------
def head_case(stream, kind, sched=None, mode=0, dh=b"localhost", https=False, max_len=MAXLEN, limit=LIMIT, profile="dev"):
    x = xl(xbool(https), xopt(None if dh is None else xb(dh)), xn(max_len), xn(mode), xb(stream),
           xlist([xn(b) for b in (sched if sched is not None else [max(len(stream), 1)])]), xn(limit))
    return Case("h1.request", x, None, {"kind": kind}, profile)


def hdr_case(block, kind, profile="dev"):
    return Case("h1.headers", xb(block), None, {"kind": kind}, profile)


def range_cases(h, n, kind, profiles=PROFILES):
    body = bytes((97 + i % 26) for i in range(n))
    return [Case("range.serve", xl(xbool(p == "dev"), xopt(None if h is None else xb(h)), xn(200), xb(body)), "range.spec",
                 {"kind": kind}, p) for p in profiles]


def stream_cases(h, n, kind, profiles=("dev",)):
    return [Case("stream.window", xl(xbool(p == "dev"), xopt(None if h is None else xb(h)), xn(n)), None, {"kind": kind}, p)
            for p in profiles]


def q_parse(q, kind, profile="dev"):
    return Case("query.parse", xb(q), None, {"kind": kind}, profile)


def q_iter(q, name, script, kind, profile="dev"):
    return Case("query.iter", xl(xb(q), xb(name), xlist([xbool(s) for s in script])), "query.iter.spec", {"kind": kind}, profile)


def pq_case(path, query, kind):
    return Case("pathquery", xl(xb(path), xopt(None if query is None else xb(query))), None, {"kind": kind})


def conn_case(data, kind, sched=(), read=True, profile="dev", comp="explore.conn"):
    return Case(comp, xl(xb(data), xlist([xn(s) for s in sched]), xbool(read)), None, {"kind": kind}, profile)


def file_case(content, tmpl, kind, ext=0, one_request=False):
    return Case("explore.file", xl(xb(content), xb(tmpl), xn(ext + (10 if one_request else 0))), None, {"kind": kind})


def ims_case(t0, value, kind):
    # the model takes t0 for the entry's creation time: dates within two days of it are left to C04 (to the second)
    near = any(time.strftime("%Y", time.gmtime(t0 + d)).encode() in value and time.strftime("%b", time.gmtime(t0 + d)).encode() in value
               for d in (-172800, 0, 172800))
    return Case("ims.decide", xl(xn(t0), xb(value)), None, {"kind": kind, "ood": near})


REFUSES_IDENTITY = re.compile(rb"(?i)accept-encoding[^\n]*(identity|\*)")


def path_case(data, kind, sched=(), profile="dev", no_default=False):
    # request_path gives the page as its representations per Accept-Encoding class (C09's abstraction): a value that can refuse the
    # identity encoding (406 from clone_preferred, C06's subject) is outside it — not compared
    return Case("c02.path", xl(xbool(profile == "dev"), xb(data), xlist([xn(s) for s in sched]), xbool(no_default)), None,
                {"kind": kind, "ood": bool(REFUSES_IDENTITY.search(data))}, profile)


def path_head(rng):
    """One request for the compared request path (component c02.path): every stage's deciding input is in the menu."""
    m = rng.choice([b"GET", b"GET", b"GET", b"HEAD", b"HEAD", b"POST", b"PUT", b"OPTIONS", b"OPTIONS", b"OPTIONS", b"DELETE", b"TRACE", b"get", b"G@T"])
    t = rng.choice([b"/", b"/a", b"/a/", b"/a.", b"/a?x=1&y", b"/./a", b"/../x", b"//a", b"/a/../b", b"/%2e%2e/x", b"/%2E/", b"/a%", b"/%ff", b"/a%2fb", b"*",
                    b"/a?", b"/?", b"/a b", b"/./cors_fail", b"/./cors_options", b"a", b"http://x/a", b"/" + b"a" * 200, b"/x.\xc3\xa9", b"/\xc3\xa9/"])
    v = rng.choice([b"HTTP/1.1"] * 6 + [b"HTTP/1.0", b"HTTP/1.0", b"HTTP/0.9", b"HTTP/2", b"HTTP/1.2"])
    hs = []
    if m == b"OPTIONS" and rng.random() < 0.6:
        hs += [(b"Origin", rng.choice([b"http://localhost", b"http://localhost", b"http://b.example", b"http://evil"])),
               (b"Access-Control-Request-Method", rng.choice([b"PUT", b"GET", b""]))]
    if rng.random() < 0.7:
        hs.append((b"Host", rng.choice([b"localhost", b"localhost", b"b.example", b"alias.example", b"unknown", b"LOCALHOST", b"localhost:8080", b"", b"a b"])))
    if rng.random() < 0.4:
        hs.append((b"Range", rng.choice([b"bytes=0-0", b"bytes=5-2", b"bytes=2-5", b"bytes=0-%d" % U64, b"bytes=20-30", b"bytes=-5", b"bytes=2-5,7-9", b"bytes=9-9",
                                         b"bytes=10-10", b"bytes=3-100", b"bytes=2-", b"bytes= 2-5", b"bytes=%d-%d" % (U64, U64), b"bytes=1-0", b"chars=1-2", b"\xff"])))
    if rng.random() < 0.4:
        hs.append((b"Origin", rng.choice([b"http://localhost", b"http://localhost", b"http://b.example", b"https://localhost", b"null", b"http://evil", b"\xff",
                                          b"http://localhost:8080", b"http://unknown", b"http://LOCALHOST", b"", b"http://"])))
    if rng.random() < 0.3:
        hs.append((b"Access-Control-Request-Method", rng.choice([b"PUT", b"", b"\xff"])))
    if rng.random() < 0.2:
        hs.append((b"Accept-Encoding", rng.choice([b"gzip", b"br", b"identity", b"gzip, br", b"gzip;q=nan, br", b"br;q=inf, gzip;q=-0", b"gzip;q=1e400",
                                                   b"gzip;q=.5, br;q=1.", b"gzip;q=0x1p-1", b"zstd;q=-inf, gzip;q=NaN", weighted_list(rng, Q_CODINGS)])))
    if rng.random() < 0.2:
        hs.append((b"If-Modified-Since", rng.choice([b"Fri, 31 Dec 9999 23:59:59 GMT", b"x"])))
    body = b""
    if rng.random() < 0.3:
        n = rng.choice([b"0", b"3", b"5", b"x", b"-1", b"70000", b"%d" % U64])
        hs.append((b"Content-Length", n))
        body = rng.choice([b"", b"abc", b"abcde", b"abcdefgh"])
    rng.shuffle(hs)
    out = m + b" " + t + b" " + v + b"\r\n"
    for n, val in hs:
        out += n + rng.choice([b": ", b": ", b":"]) + val + b"\r\n"
    return out + b"\r\n" + body


def words(alpha, n, symbols=None):
    syms = symbols if symbols is not None else [bytes([c]) for c in alpha]
    for k in range(n + 1):
        for t in itertools.product(syms, repeat=k):
            yield b"".join(t)


Q_SYMS = [b"a", b"b", b"=", b"&", b"%", b"2", b"%26", b"%3d", b"\xc3\xa9", b"+"]


def rand_bytes(rng, n, alpha):
    return bytes(rng.choice(alpha) for _ in range(n))


def valid_head(rng, extra=()):
    m = rng.choice([b"GET", b"GET", b"HEAD", b"POST", b"PUT", b"OPTIONS", b"DELETE", b"PATCH", b"TRACE", b"CONNECT", b"PROPFIND"])
    t = rng.choice([b"/", b"/index.html", b"/h", b"/v", b"/f.txt", b"/n.html", b"/e.html", b"/t.html", b"/x.html", b"/sub/", b"/sub",
                    b"/secret.private", b"/api/x?a=1&b=2&a=3", b"/api/?=&&=", b"/h?x=%zz", b"/stream/s1000.bin", b"/stream/s0.bin",
                    b"/stream/s70000.bin", b"/post", b"/./h", b"/../x", b"//h", b"/%2e%2e/%2e%2e/etc/passwd", b"/a%", b"/%ff", b"/a.",
                    b"*", b"/" + b"a" * 300, b"/t2.html", b"/t3.html", b"/c1.html", b"/c2.html", b"/c3.html", b"/a1.html", b"/a2.html",
                    b"/a3.html", b"/h1.html", b"/h2.html", b"/d1.html", b"/u1.html", b"/odd.name.tar.gz", b"/noext", b"/x.%C3%A9", b"/f.txt%00",
                    b"/f.txt.", b"/f.%ff", b"/nothing-here.html", b"/stream/s200000.bin", b"/whoami",
                    # raw (not percent-encoded) UTF-8 in the path and in the "extension" get_mime / the file-type Present lookup see
                    b"/x.\xc3\xa9", b"/\xc3\xa9.html", b"/f.\xe2\x82\xac", b"/a.b", b"/.x", b"/stream/s10.\xc3\xa9", b"/x.\xc3\xa9?q=\xc3\xa9"])
    v = rng.choice([b"HTTP/1.1", b"HTTP/1.1", b"HTTP/1.0", b"HTTP/0.9", b"HTTP/2", b"HTTP/3"])
    hs = [(b"Host", rng.choice([b"localhost", b"localhost:8080", b"b.example", b"alias.example", b"alias.example.", b"unknown",
                                b"[::1]", b"127.0.0.1:80", b"LOCALHOST", b"a b", b"", b"x@y:1:2", b"lim.example", b"lim.example"]))]
    menu = [
        (b"Range", lambda: rng.choice([b"bytes=0-0", b"bytes=5-2", b"bytes=0-%d" % U64, b"bytes=%d-%d" % (U64, U64), b"bytes=0-%d" % (U64 + 1),
                                       b"bytes=999999-", b"bytes=-5", b"bytes=2-5,7-9", b"bytes=3000-4000", b"bytes=2999-2999", b"bytes=",
                                       b"bytes=+1-+2", b"bytes=1-2\x00"])),
        (b"Accept-Encoding", lambda: rng.choice([b"gzip", b"br, gzip;q=0", b"identity;q=0", b"*;q=0", b"zstd;q=1.0, identity; q=0",
                                                 b",,,", b";q=", b"gzip;q=;q=", b"q=q=q=,", b"gzip ; q = 0.5", b"\tgzip\t", b""] +
                                                [weighted_list(rng, Q_CODINGS) for _ in range(12)])),
        (b"If-Modified-Since", lambda: rng.choice([b"Tue, 27 Jul 2021 14:08:15 GMT", b"Tue, 27 Jul 9999 14:08:15 GMT", b"Tue, 27 Jul 0000 14:08:15 GMT",
                                                   b"Xxx, 99 Jul 2021 25:61:61 GMT", b"Tue, 27 Jul -9999 14:08:15 GMT", b"Tue, 27 Jul +99999 14:08:15 GMT",
                                                   b"", b"0", b"Thu, 01 Jan 1970 00:00:00 GMT", b"Fri, 31 Dec 9999 23:59:59 GMT"])),
        (b"Origin", lambda: rng.choice([b"https://icelk.dev", b"http://localhost", b"null", b"localhost", b"http://", b"://", b"http://\xe9",
                                        b"https://icelk.dev:99999", b"a" * 70 + b"://x", b"http://[::1", b"http://a:b:c"])),
        (b"Access-Control-Request-Method", lambda: rng.choice([b"PUT", b"GET", b"", b"\xff", b"put"])),
        (b"Accept-Language", lambda: rng.choice([b"sv", b"en;q=0.5, sv;q=0.9", b";;;", b"sv;q=NaN", b"sv;q=1e400", b"en;q=-0"] + NASTY +
                                                [weighted_list(rng, [b"sv", b"en", b"en-GB", b"de", b"*", b""]) for _ in range(6)] +
                                                [weighted_list(rng, [b"sv", b"en", b"en-GB", b"de", b"fr", b"x"], k=rng.choice([21, 40]))])),
        (b"User-Agent", lambda: rng.choice([b"Mozilla/5.0 (Mobile) Firefox/1", b"curl"] + NASTY)),
        (b"Cookie", lambda: rng.choice([b"a=b; c=d", b";", b" ; "] + NASTY)),
        (b"Access-Control-Request-Headers", lambda: rng.choice([b"x-a, x-b", b","] + NASTY)),
        (b"Content-Length", lambda: rng.choice([b"0", b"5", b"%d" % U64, b"%d" % (U64 + 1), b"-1", b"+5", b"5, 5", b" 5", b"0x10", b"9" * 30])),
        (b"Connection", lambda: rng.choice([b"close", b"keep-alive", b"upgrade"])),
        (b"Upgrade", lambda: rng.choice([b"websocket", b"h2c"])),
        (b"Cache-Control", lambda: rng.choice([b"max-age=99999999999", b"no-store", b"max-age=", b"max-age=1,max-age=2"])),
        (b"Kvarn-Cache-Control", lambda: rng.choice([b"4294967295d", b"10m", b"none"])),
        (b"X" + b"y" * 40, lambda: rand_bytes(rng, rng.randrange(0, 40), b"ab \t:,;=\"")),
    ]
    for name, val in rng.sample(menu, rng.choice([0, 1, 1, 2, 3, 5])):
        hs.append((name, val()))
    hs += list(extra)
    if rng.random() < 0.2:
        hs = hs[1:]                                  # no Host header: the default host
    rng.shuffle(hs)
    out = m + b" " + t + b" " + v + b"\r\n"
    for n, val in hs:
        out += n + rng.choice([b": ", b": ", b":", b":  ", b" : "]) + val + b"\r\n"
    return out + b"\r\n"


# values of one or two bytes, not text, not UTF-8: for every header a vary rule, an extension or the core reads
NASTY = [b"", b"a", b"\xff", b"\x80", b"\xc3", b"\xc3\xa9", b"\xe2\x82", b";", b",", b"=", b"\t", b"a\xff", b"\xffa", b"-", b"0"]
READ_HEADERS = [b"Accept-Language", b"User-Agent", b"Cookie", b"Accept-Encoding", b"Range", b"If-Modified-Since", b"Origin",
                b"Access-Control-Request-Method", b"Access-Control-Request-Headers", b"Host", b"Content-Length", b"Connection", b"Upgrade",
                b"Content-Type", b"Cache-Control", b"Expect", b"Transfer-Encoding", b"Accept"]


# weight texts of a list member (accept-encoding, accept-language): what f32::from_str accepts beyond RFC 9110's qvalue — NaN and the
# infinities in any case and with a sign, signed zeros, exponents beyond the binary32 range, a bare leading or trailing dot, a plus
# sign, hundreds of digits — and what it refuses (hex floats, digit separators, suffixes, two dots, two signs, an empty text)
Q_CORE = [b"nan", b"inf", b"-inf", b"-0", b"0", b"1", b".5", b"1e400", b"1e-400", b"+1", b"1.", b"0x1p-1", b"9" * 300]
Q_TEXTS = Q_CORE + [b"NaN", b"-nan", b"+NAN", b"Infinity", b"+infinity", b"-INF", b"0.0", b"+0", b"-0.0", b"0e0", b"1.0", b"1.000", b"-1", b"5.",
                    b"0.5", b"0.001", b"-1e400", b"1e-46", b"7e-46", b"1e-45", b"3.4028236e38", b"1e", b"e1", b"1e+", b".", b"+", b"-",
                    b"0x10", b"1_0", b"1f32", b"0." + b"0" * 300 + b"1", b"1" + b"0" * 40 + b"e-40", b"1e" + b"9" * 30, b"1e-" + b"9" * 30,
                    b"", b"1,5", b"q", b"nan(0x1)", b"NaN.0", b"--1", b"+-1", b"1.5.5", b"1e1e1", b"1 1", b"\xd9\xa1", b"\xef\xbc\x91", b"\xff",
                    b"1\t", b"00000000000000000000000000000000000000001", b"0.99999997", b"1.00000006", b"16777217e-7"]
Q_CODINGS = [b"gzip", b"br", b"zstd", b"identity", b"*", b"deflate", b"GZIP", b"x-gzip", b"", b"gzip", b"br"]
N_AE_TARGETS = 5             # Model/Panics.v ae_targets


def weighted_list(rng, names, k=None):
    """a list header: k members out of `names`, most with a weight out of Q_TEXTS, odd spacing and parameter syntax"""
    out = []
    for _ in range(k if k is not None else rng.choice([1, 2, 2, 2, 3, 4])):
        m = rng.choice(names)
        if rng.random() < 0.85:
            m += rng.choice([b";q=", b";q=", b";q=", b"; q=", b";Q=", b" ;q=", b";q =", b";q=;q=", b";level=1;q=", b";"]) + rng.choice(Q_TEXTS)
        out.append(m)
    return rng.choice([b", ", b",", b" , ", b",,"]).join(out)


def ae_case(value, target, kind):
    # a value the request line cannot carry unchanged is the harness's out of domain (it answers (L (N 96)))
    return Case("c02.ae", xl(xb(value), xn(target)), None, {"kind": kind})


def mutate(rng, s, alpha=ALPHA + b"\x00\xff\t\x7f\x80"):
    s = bytearray(s)
    for _ in range(rng.choice([1, 1, 2, 3, 6])):
        op = rng.randrange(5)
        pos = rng.randrange(len(s) + 1)
        if op == 0:
            s.insert(pos, rng.choice(alpha))
        elif op == 1 and s:
            del s[min(pos, len(s) - 1)]
        elif op == 2 and s:
            s[min(pos, len(s) - 1)] = rng.choice(alpha)
        elif op == 3 and s:
            p = min(pos, len(s) - 1)
            if s[p] == 13:
                del s[p]                              # CRLF -> bare LF
            else:
                s[p:p] = rng.choice([b"\n", b"\r", b"\r\n", b" ", b":", b"\n\n"])
        elif s:
            del s[pos:pos + rng.randrange(1, 30)]     # cut a piece out
    return bytes(s)


def rand_sched(rng, total):
    k = rng.choice([0, 0, 1, 2, 5])
    cuts = sorted(set(rng.randrange(1, max(2, total)) for _ in range(k))) if total > 1 else []
    pts = [0] + cuts + [total]
    return [b - a for a, b in zip(pts, pts[1:]) if b > a]


SPECIAL_HEADS = [
    b"", b"\n", b"\n\n", b"\r\n\r\n", b"GET", b"GET ", b"GET /", b"GET / ", b"GET / HTTP/1.1", b"GET / HTTP/1.1\n", b"GET / HTTP/1.1\n\n",
    b"GET / HTTP/1.1\r\n\r\n", b"GET  HTTP/1.1\r\n\r\n", b"GET   HTTP/1.1\r\n\r\n", b"GET /\r\n\r\n", b"GET / \r\n\r\n", b"GET\r\n\r\n",
    b"GET / HTTP/1.1\r\nA: \n\r\n", b"GET / HTTP/1.1\r\nA: \n\n", b"GET / HTTP/1.1\nA:\n\n", b"GET / HTTP/1.1\r\nA\r\n\r\n",
    b"GET / HTTP/1.1\r\n:\r\n\r\n", b"GET / HTTP/1.1\r\n: \r\n\r\n", b"GET / HTTP/1.1\r\n \r\n\r\n", b"GET / HTTP/1.1\r\n\r\r\r\n\r\n",
    b"GET / HTTP/1.1\r\nA:  \r\r\n\r\n", b"GET / HTTP/1.1\r\nA: b\rc\r\n\r\n", b"GET / HTTP/1.1\r\nA: b\x00c\r\n\r\n",
    b"GET / HTTP/1.1\r\nA\x00: b\r\n\r\n", b"GET / HTTP/1.1\r\nHost: \xff\r\n\r\n", b"GET /\xff HTTP/1.1\r\n\r\n", b"GET /\x00 HTTP/1.1\r\n\r\n",
    b"GET / HTTP/1.1\r\nHost:\r\n\r\n", b"GET / HTTP/1.1\r\nHost: a\r\nHost: b\r\n\r\n", b"GETGETGET / HTTP/1.1\r\n\r\n", b"GETX / HTTP/1.1\r\n\r\n",
    b"PROPPATCH / HTTP/1.1\r\n\r\n", b"PROPFIND / HTTP/1.1\r\n\r\n", b"HTTP/1.1 200 OK\r\n\r\n", b"HTTP/2 / HTTP/1.1\r\n\r\n",
    b"GET / HTTP/1.12\r\n\r\n", b"GET / HTTP/1.1 \r\n\r\n", b"GET / HTTP/1.1x\r\n\r\n", b"GET / HTTP/\r\n\r\n", b"GET / \r\n\r\n",
    b"GET /a b HTTP/1.1\r\n\r\n", b"GET / HTTP/1.1\r\n" + b"a: b\r\n" * 60 + b"\r\n", b"GET / HTTP/1.1\r\n" + b"\r" * 2000 + b"\n\n",
    b"GET / HTTP/1.1\r\nA:" + b" " * 600 + b"\r\n\r\n", b"GET / HTTP/1.1\r\n" + b"A" * 70000 + b": b\r\n\r\n",
    b"GET " + b"/" * 17000 + b" HTTP/1.1\r\n\r\n", b"GET / HTTP/1.1\r\nA: " + b"b" * 17000 + b"\r\n\r\n",
    b"GET ? HTTP/1.1\r\n\r\n", b"GET # HTTP/1.1\r\n\r\n", b"GET http://x/ HTTP/1.1\r\n\r\n", b"GET //x HTTP/1.1\r\n\r\n",
    b"GET /%ZZ HTTP/1.1\r\n\r\n", b"GET /% HTTP/1.1\r\n\r\n", b"GET /a?b?c#d HTTP/1.1\r\n\r\n", b"\x16\x03\x01\x02\x00\x01\x00\x01\xfc\x03\x03",
    b"PRI * HTTP/2.0\r\n\r\nSM\r\n\r\n", b"GET / HTTP/1.1\r\nContent-Length: 18446744073709551616\r\n\r\n",
    b"POST /post HTTP/1.1\r\nContent-Length: 18446744073709551615\r\n\r\nabc", b"POST /post HTTP/1.1\r\nContent-Length: 3\r\n\r\nabcdef",
    # no handler reads the body: drain() discards what the head announced
    b"POST /f.txt HTTP/1.1\r\nContent-Length: 18446744073709551615\r\n\r\nabc", b"PUT /index.html HTTP/1.1\r\nContent-Length: 9223372036854775808\r\n\r\n",
    b"POST /nothing HTTP/1.1\r\nContent-Length: 18446744073709551614\r\n\r\n" + b"x" * 5000, b"POST /h HTTP/1.1\r\nContent-Length: 4097\r\n\r\n" + b"y" * 4096,
    b"DELETE /stream/s10.bin HTTP/1.1\r\nContent-Length: 18446744073709551615\r\n\r\nz", b"POST /f.txt HTTP/1.1\r\nHost: lim.example\r\nContent-Length: 18446744073709551615\r\n\r\nabc",
    b"GET / HTTP/1.1\r\nHost: lim.example\r\n\r\n", b"HEAD / HTTP/1.1\r\nHost: lim.example\r\n\r\n", b"GET /index.html\r\n\r\n", b"HEAD /a?b\r\nhost:localhost\r\n\r\n",
    b"GET / HTTP/1.1\r\nX-Empty: \r\n\r\n", b"GET / HTTP/1.1\r\nX-Empty:   \t \r\n\r\n", b"GET / HTTP/1.1\r\nAccept-Encoding: \n\n",
]


def exhaustive_heads(tier):
    quick = tier == "quick"
    out = []
    for w in words(ALPHA, 3 if quick else 5):
        out.append(head_case(w, "exh-raw"))
    # after a valid method: method end, path, version, line end
    for w in words(ALPHA, 3 if quick else 5):
        out.append(head_case(b"GET" + w + b"\r\n\r\n", "exh-start"))
    for w in words(ALPHA, 2 if quick else 4):
        out.append(head_case(b"GET /" + w + b" HTTP/1.1\r\nHost: h\r\n\r\n", "exh-target"))
    # the header block, through read::request and directly
    for w in words(ALPHA_H, 3 if quick else 5):
        out.append(hdr_case(w, "exh-hdr"))
        if len(w) <= (2 if quick else 4):
            out.append(head_case(b"GET / HTTP/1.1\r\n" + w + b"\r\n\r\n", "exh-hdr-req"))
            out.append(hdr_case(w + b"\r\n\r\n", "exh-hdr"))
    return out


def generate(rng, tier):
    quick = tier == "quick"
    tmp = os.path.join(tempfile.gettempdir(), "kvh-c02-%d" % os.getpid())
    atexit.register(lambda: shutil.rmtree(tmp, ignore_errors=True))
    cases = []

    # ---- corpus: inputs that exposed the defects repaired so far (this and the other properties) ------------------
    cases += [q_iter(b"a=1&b=2&a=3", b"a", [True], "corpus"), q_iter(b"a=1&b=2&a=3", b"zz", [True, False], "corpus"),
              q_iter(b"", b"a", [True], "corpus")]
    cases.append(conn_case(b"GET /api/x?a=1&a=2&b HTTP/1.1\r\n\r\n", "corpus"))
    cases.append(conn_case(b"GET / HTTP/1.1\r\nA: \n\r\n", "corpus"))
    cases.append(conn_case(b"GET /h HTTP/1.1\r\nRange: bytes=0-18446744073709551615\r\n\r\n", "corpus"))
    cases.append(conn_case(b"GET /e.html HTTP/1.1\r\n\r\nGET /n.html HTTP/1.1\r\n\r\nGET /x.html HTTP/1.1\r\n\r\n", "corpus"))
    # 095abe3 (the documented vary callback sorted NaN weights with a comparator that is no total order: 40 members)
    cases.append(conn_case(b"GET /v HTTP/1.1\r\nHost: localhost\r\nAccept-Language: " + b", ".join(
        [b"en;q=0.1", b"sv;q=0.5", b"sv;q=0.9", b"fr;q=0.9", b"fr;q=0", b"en;q=nan", b"fr;q=nan", b"fr;q=0.9", b"sv;q=inf", b"fr;q=0.5"] * 4) + b"\r\n\r\n", "corpus"))
    cases += range_cases(b"bytes=0-18446744073709551615", 10, "corpus")
    cases += [hdr_case(b"A: \n\n", "corpus"), hdr_case(b"A:\n\n", "corpus"), head_case(b"GET / HTTP/1.1\r\nA: \n\r\n", "corpus")]
    # 176c67e (an empty last template), 4e78a7d (a quote that is not closed)
    cases += [file_case(b"!> tmpl T\n$[a]", b"$[a]\n", "corpus"), file_case(b"!> tmpl T\n<p>$[b]</p>", b"$[a]\nA\n$[b]\n", "corpus"),
              Case("explore.urls", xb(b"<img src=\"/abc"), None, {"kind": "corpus"}), Case("explore.urls", xb(b"<link href='/x.css"), None, {"kind": "corpus"}),
              Case("urls.iter", xl(xn(2), xbool(False), xb(b"<img src=\"/abc")), None, {"kind": "corpus"}),
              Case("urls.iter", xl(xn(1), xbool(False), xb(b"<a href='/x")), None, {"kind": "corpus"})]

    # ---- heads ------------------------------------------------------------------------------------------------------
    cases += exhaustive_heads(tier)
    for s in SPECIAL_HEADS:
        cases.append(head_case(s, "special"))
        cases.append(head_case(s, "special", dh=None, profile="nochk"))
        if 0 < len(s) < 200:
            cases.append(head_case(s, "special-1", sched=[1] * len(s)))
        cases.append(head_case(s, "special-io", mode=2, sched=[max(len(s) // 2, 1)]))
    nrand = 1500 if quick else 40000
    for i in range(nrand):
        base = valid_head(rng)
        r = rng.random()
        if r < 0.25:
            s = base
        elif r < 0.75:
            s = mutate(rng, base)
        elif r < 0.85:
            s = rand_bytes(rng, rng.choice([1, 5, 20, 100, 600]), ALPHA + b"\x00\xff")
        else:
            s = b"GET /" + rand_bytes(rng, rng.randrange(0, 30), ALPHA) + b" HTTP/1.1\r\n" + rand_bytes(rng, rng.randrange(0, 80), ALPHA_H) + b"\r\n\r\n"
        s += rng.choice([b"", b"", b"body", base])
        cases.append(head_case(s, "random", sched=rand_sched(rng, len(s)), mode=rng.choice([0, 0, 0, 2]),
                               dh=rng.choice([b"localhost", None]), https=rng.random() < 0.2,
                               max_len=rng.choice([MAXLEN, MAXLEN, 64, 512, 513]), limit=rng.choice([LIMIT, 0, 3]),
                               profile=rng.choice(PROFILES)))
    # long heads: up to and across the 16 KiB limit
    for size in ([600, 16000, 16383, 16384, 16385, 20000] if quick else [511, 512, 513, 1024, 4096, 8192, 16000, 16128, 16129, 16383, 16384, 16385, 17000, 33000]):
        for shape in range(4):
            if shape == 0:
                s = b"GET / HTTP/1.1\r\nHost: a\r\nX: " + b"v" * (size - 34) + b"\r\n\r\n"
            elif shape == 1:
                s = b"GET /" + b"p" * (size - 30) + b" HTTP/1.1\r\nHost: a\r\n\r\n"
            elif shape == 2:
                s = b"GET / HTTP/1.1\r\n" + b"h: v\r\n" * ((size - 18) // 6) + b"\r\n"
            else:
                s = mutate(rng, b"GET / HTTP/1.1\r\nHost: a\r\n" + rand_bytes(rng, size - 30, b"ab: \r\n"), ALPHA_H) + b"\r\n\r\n"
            cases.append(head_case(s, "long", sched=rand_sched(rng, len(s)), profile=rng.choice(PROFILES)))
            cases.append(head_case(s, "long", sched=[100000]))

    # ---- header values ------------------------------------------------------------------------------------------------
    # Range: numbers at the edges of u64 and of the body, both arithmetic modes; the streamed variant of the same window
    for n in (0, 1, 10):
        for a in EXTREME[:3] + EXTREME[5:]:
            for b_ in EXTREME[:3] + EXTREME[5:]:
                cases += range_cases(b"bytes=%d-%d" % (a, b_), n, "range-extreme")
    for a in (0, 1, 9, 10, 11, U64):
        for b_ in (0, 5, 9, 10, 11, U64 - 1, U64, U64 + 1):
            cases += stream_cases(b"bytes=%d-%d" % (a, b_), 10, "stream")
    cases += stream_cases(None, 0, "stream") + stream_cases(None, 70000, "stream") + stream_cases(b"bytes=0-0", 0, "stream")
    # the chunk loop run to its end: windows around the 64 KiB buffer boundaries of files of 70000 and 200000 bytes, windows that
    # end beyond the file, both arithmetic profiles
    cases += stream_cases(None, 200000, "stream-loop", PROFILES) + stream_cases(None, 1000, "stream-loop") + stream_cases(None, 1, "stream-loop")
    for n in (70000, 200000):
        for a, b_ in [(0, 65534), (0, 65535), (0, 65536), (1, 65536), (65535, 65535), (65535, 65536), (65536, 65536), (65536, 65537), (65537, 69999),
                      (0, n - 1), (0, n), (1, n + 5), (n - 1, n - 1), (n - 1, n + 70000), (n, n), (n + 1, n + 2), (131071, 131072), (131072, 131073),
                      (5, U64), (69999, U64 - 1)]:
            cases += stream_cases(b"bytes=%d-%d" % (a, b_), n, "stream-loop", PROFILES if (a + b_) % 3 == 0 else ("dev",))
    for _ in range(40 if quick else 2000):
        n = rng.choice([1000, 70000, 200000])
        a = rng.choice([0, 1, rng.randrange(0, n), 65535, 65536, n - 1, n])
        b_ = rng.choice([a, a + 1, rng.randrange(a, a + 140000), n - 1, n, n + 1, 65535, 65536, 131071, U64])
        cases += stream_cases(b"bytes=%d-%d" % (a, max(a, b_)), n, "stream-loop", (rng.choice(PROFILES),))
    for w in words(b"", 3 if quick else 4, [b"bytes=", b"0", b"9", b"-", b"+", b",", b" ", b"18446744073709551615", b"18446744073709551616"]):
        cases += range_cases(w, 5, "range-words", profiles=("dev",) if quick else PROFILES)
    for _ in range(300 if quick else 20000):
        h = mutate(rng, b"bytes=%d-%d" % (rng.choice(EXTREME), rng.choice(EXTREME)), ALPHA_R)
        cases += range_cases(h, rng.choice([0, 1, 7]), "range-random", profiles=(rng.choice(PROFILES),))
        if rng.random() < (0.1 if quick else 0.02):
            cases += stream_cases(h, rng.choice([0, 1, 10, 1000]), "stream")
    # Accept-Encoding / Accept-Language: list_header
    for w in words(b"", 4 if quick else 6, [b"gzip", b",", b";", b"q", b"=", b"0", b" ", b".5", b"\t"]):
        cases.append(Case("neg.list_header", xb(w), None, {"kind": "ae-words"}, "dev"))
    for _ in range(500 if quick else 30000):
        cases.append(Case("neg.list_header", xb(rand_bytes(rng, rng.randrange(0, 40), ALPHA_AE)), None, {"kind": "ae-random"}, rng.choice(PROFILES)))
    # ... with the weight texts f32::from_str accepts or refuses beyond a qvalue (nan, inf, 1e400, -0, .5, 1., +1, hex, 300 digits)
    for w in Q_TEXTS:
        for tmpl in (b"gzip;q=%s", b"gzip;q=%s, br", b"br, gzip; q=%s", b"gzip;q=%s;q=1"):
            if w.isascii():
                cases.append(Case("neg.list_header", xb(tmpl % w), None, {"kind": "ae-weights"}, "dev"))
    for _ in range(300 if quick else 20000):
        v = weighted_list(rng, Q_CODINGS)
        if v.isascii():
            cases.append(Case("neg.list_header", xb(v), None, {"kind": "ae-weights"}, rng.choice(PROFILES)))
    # ... and through a live connection to pages that ARE compressed (handler page cached / never cached, file, built-in 404 page)
    # and one under the 50-byte floor, twice each (the second answer comes from the cache / the memo cells): the coding of the answer
    # is COMPARED with Negotiate.clone_preferred.  Every pair of the core weights on two codings, each core weight beside a member
    # without weight in both orders (bounded-exhaustive; the target rotates), then random lists
    n = 0
    for w1 in Q_CORE:
        for w2 in Q_CORE + [None]:
            for a, b_ in ((b"gzip", b"br"), (b"br", b"gzip")) if w2 is None else ((b"gzip", b"br"),):
                v = a + b";q=" + w1 + b", " + b_ + (b";q=" + w2 if w2 is not None else b"")
                for t in (range(4) if not quick else (n % 4,)):
                    cases.append(ae_case(v, t, "ae-live-pairs"))
                n += 1
    for w in Q_TEXTS:
        if not any(c < 32 or c == 127 for c in w):
            cases.append(ae_case(b"identity;q=" + w + b", gzip;q=0", n % N_AE_TARGETS, "ae-live-weights"))
            cases.append(ae_case(b"*;q=" + w + b", zstd;q=0, br;q=" + w, (n + 2) % N_AE_TARGETS, "ae-live-weights"))
            cases.append(ae_case(b"zstd;q=" + w + b", gzip;q=" + w + b", br;q=" + w, (n + 1) % 4, "ae-live-weights"))
            n += 1
    for v in [b"", b"gzip", b"br", b"zstd", b"identity", b"*", b"identity;q=0", b"*;q=0", b"gzip, identity;q=0", b"IDENTITY;q=0, gzip;q=0",
              b"zstd;q=0, br;q=0, gzip", b",", b";", b";q=nan", b"q=nan", b"\xff", b"gzip\xff, br", b"gzip;q=nan;q=0", b"gzip;q=0;q=nan, br;q=nan"]:
        for t in range(N_AE_TARGETS):
            cases.append(ae_case(v, t, "ae-live-fixed"))
    for _ in range(150 if quick else 6000):
        v = weighted_list(rng, Q_CODINGS).strip(b" \t")
        cases.append(ae_case(v if rng.random() < 0.9 else mutate(rng, v, ALPHA_AE + b"nNaAiIfFeE+-x\xff"), rng.randrange(N_AE_TARGETS), "ae-live-random"))
    # If-Modified-Since: the time crate's parser as handle_cache calls it (exploration)
    dates = [b"Tue, 27 Jul 2021 14:08:15 GMT", b"Thu, 01 Jan 1970 00:00:00 GMT", b"Fri, 31 Dec 9999 23:59:59 GMT", b"Sat, 01 Jan 0000 00:00:00 GMT",
             b"Tue, 27 Jul -9999 14:08:15 GMT", b"Tue, 27 Jul +9999 14:08:15 GMT", b"Tue, 27 Jul 99999 14:08:15 GMT", b"Tue, 29 Feb 2021 00:00:00 GMT",
             b"Tue, 31 Jun 2021 24:00:00 GMT", b"Tue, 27 Jul 2021 23:59:60 GMT", b"", b"GMT", b"Tue", b"Tue, ", b"tue, 27 jul 2021 14:08:15 gmt"]
    dates += [b"Sat, 29 Feb 2020 12:00:00 GMT", b"Fri, 31 Dec 9999 23:59:58 GMT", b"Mon, 01 Jan -9999 00:00:00 GMT", b"Wed, 01 Jan 9999 00:00:00 GMT",
              b"Fri, 31 Dec +9999 23:59:59 GMT", b"Xxx, 31 Dec 9999 23:59:59 GMT", b"Mon, 31 Dec 9999 23:59:59 GMT", b"Fri, 31 Dec 9999 23:59:59 GMT ",
              b"Fri, 31 Dec 9999 23:59:59", b"Thu, 01 Jan 1970 00:00:00 GMT\xff", b"\xff", b"Fri, 32 Dec 9999 23:59:59 GMT", b"Fri, 31 Dec 9999 24:00:00 GMT"]
    for d in dates:
        cases.append(Case("explore.date", xb(d), None, {"kind": "date"}))
    for _ in range(300 if quick else 20000):
        cases.append(Case("explore.date", xb(mutate(rng, rng.choice(dates[:8] + dates[15:19]), b"0123456789 :,-+GMTJanFebTue")), None, {"kind": "date-random"}))
    # the same hit arm, its decision (200 / 304) compared with Model/Ims.v: one field at a time away from a valid date, then random fields
    t0 = int(time.time())
    FIELDS = [[b"Tue", b"Mon", b"Xxx", b"tue", b"Tu", b"Tues"], [b", ", b",", b" ", b",  "], [b"27", b"00", b"01", b"31", b"32", b"7", b" 7", b"2x"], [b" ", b""],
              [b"Jul", b"Feb", b"Dec", b"jul", b"JUL", b"Abc", b"Ju"], [b" "], [b"2021", b"2221", b"9999", b"0000", b"-9999", b"+2221", b"-0000", b"99999", b"221", b"+221", b"--21"],
              [b" "], [b"14", b"00", b"23", b"24", b"99", b"4"], [b":", b" "], [b"08", b"59", b"60"], [b":"], [b"15", b"59", b"60", b"61"],
              [b" GMT", b"GMT", b" UTC", b" gmt", b" GMT ", b" GMT\t", b""]]
    base = [f[0] for f in FIELDS]
    for d in dates:
        cases.append(ims_case(t0, d, "ims"))
    for i, f in enumerate(FIELDS):
        for v in f[1:]:
            cases.append(ims_case(t0, b"".join(base[:i] + [v] + base[i + 1:]), "ims-field"))
    for _ in range(400 if quick else 20000):
        cases.append(ims_case(t0, b"".join(rng.choice(f) if rng.random() < 0.25 else f[0] for f in FIELDS), "ims-fields"))
    for day in (28, 29, 30, 31):
        for mon in (b"Feb", b"Apr", b"Jun", b"Sep", b"Nov", b"Jan"):
            for year in (b"1900", b"2000", b"2100", b"2024", b"-0004", b"-0100", b"-0400", b"0000"):
                cases.append(ims_case(t0, b"Tue, %d %s %s 00:00:00 GMT" % (day, mon, year), "ims-calendar"))
    for _ in range(150 if quick else 10000):
        cases.append(ims_case(t0, mutate(rng, rng.choice(dates[:8] + dates[15:19]), b"0123456789 :,-+GMTJanFebTue"), "ims-random"))
    # Origin, Host: the components of C13 / C15 on their own generators (their specifications are theirs; here: no panic)
    import c13
    import c15
    for _ in range(20 if quick else 400):
        c = c13.check_case(rng, c13.rand_rules(rng), 12)
        c.spec = None
        c.meta["kind"] = "origin"
        cases.append(c)
    pool = [b"localhost", b"a.test", b"b.test", b"a.test.", b"[::1]", b"127.0.0.1", b"x", b"default"]
    for _ in range(15 if quick else 300):
        ops = c15.random_ops(rng, pool)
        if sum(1 for d, _, _ in ops if d) > 1:
            continue                                   # two defaults: the builder's documented panic at configuration time
        c = c15.lookup_case(ops, rng, "host")
        c.spec = None
        # without the clear_file_caches queries: their answer is a list of indices, (L (N 2)) would be ambiguous
        c.x = xl(c.x[1][0], xlist([q for q in c.x[1][1][1] if q[1][0] != ("N", 5)]))
        cases.append(c)
    # request paths: C01's component (sanitize + percent decoding + the unwrap in get_response)
    for w in words(b"", 4 if quick else 5, [b"/", b".", b"%", b"2", b"e", b"f", b"a", b"%2e", b"%2f", b"%ff"]):
        cases.append(Case("pathsan.direct", xb(b"/" + w), None, {"kind": "path-words"}))
    # query strings: parse + Display, the iterators under every script, the cache key
    for w in words(b"", 4 if quick else 5, Q_SYMS):
        cases.append(q_parse(w, "query-words", "nochk" if len(w) % 2 else "dev"))
        if len(w) <= (3 if quick else 4) * 1:
            cases.append(pq_case(b"/p", w, "pathquery"))
    scripts = [s for k in range(5) for s in itertools.product([False, True], repeat=k)]
    for w in words(b"", 3 if quick else 4, [b"a", b"b", b"=", b"&", b"1", b"%62"]):
        for name in (b"a", b"b", b"", b"zz"):
            for sc in (rng.sample(scripts, 2) if quick else rng.sample(scripts, 6)):
                cases.append(q_iter(w, name, sc, "query-iter", rng.choice(PROFILES)))
    for _ in range(400 if quick else 20000):
        n = rng.randrange(0, 9)
        q = b"&".join(rng.choice([b"a", b"b", b"c", b"", b"a%", b"%61", b"\xc3\xa9"]) + rng.choice([b"=", b"=", b"", b"=="]) +
                      rng.choice([b"1", b"2", b"", b"x y", b"%zz", b"%c3%a9", b"%ff"]) for _ in range(n))
        cases.append(q_parse(q, "query-random", rng.choice(PROFILES)))
        cases.append(q_iter(q, rng.choice([b"a", b"b", b"c", b"", b"\xc3\xa9", b"a%"]),
                            [rng.random() < 0.4 for _ in range(rng.randrange(0, 8))], "query-iter", rng.choice(PROFILES)))
    for p, q in [(b"/", None), (b"/", b""), (b"/a", b"b"), (b"/a", b"?"), (b"/\xc3\xa9", b"\xc3\xa9"), (b"/" + b"a" * 300, b"b" * 300), (b"/a?", None)]:
        cases.append(pq_case(p, q, "pathquery"))
    # kvarn-cache-control (a RESPONSE header of a handler / upstream, not client input): u32 multiplication
    for v in [b"none", b"full", b"1s", b"10m", b"2h", b"1d", b"0d", b"49710d", b"49711d", b"71582788m", b"71582789m", b"1193046h", b"1193047h",
              b"4294967295s", b"4294967296s", b"4294967295d", b"4294967295m", b" 5m ", b"5x", b"m", b"5", b"", b"+5m", b"-5m", b"5mm", b"1\tm"]:
        for prof in PROFILES:
            cases.append(Case("cc.kvarn", xl(xbool(prof == "dev"), xb(v)), None, {"kind": "kvarn-cc"}, prof))
    for _ in range(100 if quick else 5000):
        v = mutate(rng, b"%d%s" % (rng.choice(EXTREME[:9]), rng.choice([b"s", b"m", b"h", b"d"])), b"0123456789smhd +x")
        prof = rng.choice(PROFILES)
        cases.append(Case("cc.kvarn", xl(xbool(prof == "dev"), xb(v)), None, {"kind": "kvarn-cc"}, prof))
    # served files whose first line is an extension line (C16's component)
    for w in words(ALPHA_P, 3 if quick else 5):
        cases.append(Case("present.parse", xb(b"!> " + w), None, {"kind": "present-words"}))
        if len(w) <= 2:
            cases.append(Case("present.parse", xb(w), None, {"kind": "present-words"}))

    # ---- end-to-end exploration over loopback (a test, labelled as such) --------------------------------------------------
    for s in SPECIAL_HEADS:
        if len(s) <= 20000:
            cases.append(conn_case(s, "conn-special"))
    for _ in range(250 if quick else 6000):
        k = rng.choice([1, 1, 1, 2, 3])
        data = b""
        for _ in range(k):
            base = valid_head(rng)
            data += base if rng.random() < 0.6 else mutate(rng, base)
            if b"POST" in base[:5] or b"PUT" in base[:4]:
                data += rng.choice([b"", b"abc", b"a" * 100])
        cases.append(conn_case(data, "conn-random", sched=rand_sched(rng, len(data)) if rng.random() < 0.3 else (), read=rng.random() < 0.9))
    if not quick:
        for c in [c for c in cases if c.comp == "h1.request" and c.meta["kind"].startswith("exh")][::40]:
            cases.append(conn_case(c.x[1][4][1], "conn-exh"))
    # every header the core, a vary rule or an extension reads, with values of 0..2 bytes that are not text / not UTF-8, on the
    # pages that read them (vary page, cached page with a CORS rule, query handler, file, stream, preflight), also behind the limiter
    targets = [(b"GET", b"/v"), (b"GET", b"/h"), (b"GET", b"/api/x?a=1"), (b"GET", b"/f.txt"), (b"GET", b"/stream/s10.bin"), (b"OPTIONS", b"/api/x"),
               (b"HEAD", b"/t2.html"), (b"POST", b"/post")]
    for hn in READ_HEADERS:
        for v in NASTY:
            m, t = targets[(len(cases)) % len(targets)] if quick else (None, None)
            for m, t in ([(m, t)] if quick else targets):
                host = b"lim.example" if (len(cases) % 5 == 0) else b"localhost"
                hs = [b"Host: " + host] if hn != b"Host" else []
                if m == b"OPTIONS" and not hn.startswith(b"Access-Control-Request-M"):
                    hs += [b"Origin: https://icelk.dev", b"Access-Control-Request-Method: PUT"] if hn != b"Origin" else [b"Access-Control-Request-Method: PUT"]
                data = m + b" " + t + b" HTTP/1.1\r\n" + b"".join(h + b"\r\n" for h in hs) + hn + b": " + v + b"\r\n\r\n"
                # twice on one connection: the second request meets the cache entry / the limiter's count of the first
                cases.append(conn_case(data + data, "conn-header-value"))
    # lists with weights (accept-encoding, accept-language) on every kind of page — compressed, streamed, templated, limited, HEAD,
    # with a Range —, three requests per connection; the long accept-language lists reach the vary callback of /v
    AE_PAGES = [b"/h", b"/nc", b"/index.html", b"/nothing-here.html", b"/f.txt", b"/sub/", b"/v", b"/t2.html", b"/n.html", b"/stream/s1000.bin",
                b"/api/x?a=1", b"/c1.html", b"/a2.html"]
    def ae_request(v):
        m = rng.choice([b"GET", b"GET", b"GET", b"HEAD", b"POST", b"OPTIONS"])
        hs = [b"Host: " + rng.choice([b"localhost", b"localhost", b"localhost", b"b.example", b"lim.example"]),
              rng.choice([b"Accept-Encoding: ", b"Accept-Encoding: ", b"accept-encoding:", b"Accept-Language: "]) + v]
        if rng.random() < 0.25:
            hs.append(b"Range: " + rng.choice([b"bytes=0-9", b"bytes=5-", b"bytes=0-%d" % U64, b"bytes=9-2"]))
        if rng.random() < 0.15:
            hs.append(b"If-Modified-Since: " + rng.choice([b"Fri, 31 Dec 9999 23:59:59 GMT", b"Thu, 01 Jan 1970 00:00:00 GMT"]))
        if rng.random() < 0.15:
            hs.append(b"Accept-Encoding: " + weighted_list(rng, Q_CODINGS))       # a second header of the same name
        rng.shuffle(hs)
        return m + b" " + rng.choice(AE_PAGES) + b" HTTP/1.1\r\n" + b"".join(h + b"\r\n" for h in hs) + b"\r\n"
    for i in range(120 if quick else 5000):
        v = weighted_list(rng, Q_CODINGS if i % 4 else [b"sv", b"en", b"en-GB", b"de", b"x"], k=None if i % 8 else rng.choice([21, 33, 64]))
        reqs = [ae_request(v) for _ in range(3)]
        # one segment per request, so that each is read on its own
        cases.append(conn_case(b"".join(reqs), "conn-weights", sched=[len(r) for r in reqs]))
    # the vary callback of /v ranks the accept-language members by weight (the example of kvarn's documentation): lists of more
    # than 20 members (slice::sort_by checks the comparator's consistency from there on) whose weights are numbers, infinities and NaNs
    for i in range(16 if quick else 600):
        k = [24, 33, 40, 48, 64, 21, 100, 200][i % 8]
        v = b", ".join(rng.choice([b"sv", b"en", b"en-GB", b"de", b"fr"]) + b";q=" +
                       rng.choice([b"nan", b"NaN", b"1", b"0.5", b"0.9", b"0.1", b"inf", b"0", b"-1", b"1e400", b"-nan"]) for _ in range(k))
        data = (b"GET /v HTTP/1.1\r\nHost: " + (b"localhost" if i % 4 else b"lim.example") + b"\r\nAccept-Language: " + v +
                b"\r\nAccept-Encoding: " + weighted_list(rng, Q_CODINGS) + b"\r\n\r\n")
        cases.append(conn_case(data, "conn-lang-weights"))
    for w in Q_CORE:
        for v in (b"gzip;q=" + w + b", br", b"br;q=" + w + b", gzip;q=" + w):
            data = b"GET " + rng.choice(AE_PAGES[:5]) + b" HTTP/1.1\r\nHost: localhost\r\nAccept-Encoding: " + v + b"\r\n\r\n"
            cases.append(conn_case(data, "server-weights", comp="explore.server"))
    for _ in range(15 if quick else 1500):
        cases.append(conn_case(ae_request(weighted_list(rng, Q_CODINGS)), "server-weights", comp="explore.server"))
    # drain(): no handler reads the body; the head arrives alone, then the body in pieces, then more than the body (the next request / garbage)
    for t in (b"/f.txt", b"/index.html", b"/nothing", b"/h", b"/stream/s10.bin", b"/t2.html"):
        for cl in (1, 3, 4096, 5000, 70000):
            for extra in (b"", b"GET / HTTP/1.1\r\nHost: localhost\r\n\r\n", b"\x00" * 9000):
                if quick and (cl + len(extra) + len(t)) % 3:
                    continue
                head = b"POST " + t + b" HTTP/1.1\r\nHost: " + rng.choice([b"localhost", b"lim.example"]) + b"\r\nContent-Length: %d\r\n\r\n" % cl
                body = b"b" * min(cl, rng.choice([cl, cl, cl // 2, 0]))
                cases.append(conn_case(head + body + extra, "conn-drain", sched=[len(head), max(1, len(body) // 2), len(body) + len(extra)]))
    # the 429 answer and the drop under malformed input: several requests to the rate-limited host on one connection
    for _ in range(25 if quick else 600):
        data = b""
        for _ in range(rng.choice([2, 4, 7])):
            base = valid_head(rng, extra=[(b"Host", b"lim.example")])
            base = base.replace(b"Host: localhost\r\n", b"").replace(b"Host: b.example\r\n", b"")
            data += base if rng.random() < 0.5 else mutate(rng, base)
        cases.append(conn_case(data, "conn-limited", sched=rand_sched(rng, len(data)) if rng.random() < 0.3 else ()))
    # the same bytes against a REAL server (RunConfig::execute): the connection count of the shutdown manager must come back
    for s in SPECIAL_HEADS[::2 if quick else 1]:
        if len(s) <= 20000:
            cases.append(conn_case(s, "server-special", comp="explore.server"))
    for _ in range(60 if quick else 3000):
        base = valid_head(rng)
        data = base if rng.random() < 0.5 else mutate(rng, base)
        cases.append(conn_case(data, "server-random", sched=rand_sched(rng, len(data)) if rng.random() < 0.3 else (), read=rng.random() < 0.9,
                               comp="explore.server"))
    # served files that start with an extension line, through the real Present extensions (kvarn + kvarn-extensions), and the
    # template files they name ("T" stands for the generated template file)
    P_EXT = [b"tmpl", b"cache", b"hide", b"allow-ips", b"download", b"nonce", b"zz", b""]
    P_ARG = [b"T", b"T T", b"client:full", b"server:none", b"client:1s server:0s", b"server:", b":", b"::", b"127.0.0.1", b"999.1.1.1 127.0.0.1", b"::1",
             b"client:99999999999999999999s", b"\xc3\xa9", b"missing.html", b"\"a b\"", b"", b" "]
    P_BODY = [b"", b"<p>$[a]</p>", b"$[", b"\\$[a]", b"\\\\$[a]", b"$[]", b"$[a", b"<!-- tmpl-ignore -->\n$[a]$[b]", b"\xff$[\xff]", b"<script nonce=\"x\">",
              b"$[a]$[a]" * 40, b"x" * 47 + b"\ntmpl-ignore\n$[a]"]
    T_FILES = [b"$[a]\nA\n$[b]\nB\n", b"$[a]\n", b"$[a]", b"", b"$[a]\r\n", b"$[a] x", b"\\$[a]\n$[b]\n", b"$[a]\n$[a]\n", b"$[\xff]\nx\n"]
    for e in P_EXT:
        for a in P_ARG:
            for end in (b"\n", b"\r\n", b""):
                line = b"!> " + e + (b" " + a if a else b"") + end
                cases.append(file_case(line + rng.choice(P_BODY), rng.choice(T_FILES), "file-line", ext=rng.choice([0, 0, 0, 1, 2]),
                                       one_request=quick and rng.random() < 0.7))
    for _ in range(60 if quick else 3000):
        parts = [rng.choice(P_EXT) + b" " + rng.choice(P_ARG) for _ in range(rng.choice([1, 2, 3]))]
        line = b"!> " + rng.choice([b" &> ", b"&>", b" &>  "]).join(parts) + rng.choice([b"\n", b"\r\n", b"", b" \n"])
        line = line if rng.random() < 0.7 else mutate(rng, line, ALPHA_P)
        cases.append(file_case(line + rng.choice(P_BODY), rng.choice(T_FILES), "file-random", ext=rng.choice([0, 0, 1]), one_request=quick))
    # template files: bounded-exhaustive over the structural tokens of the template syntax
    for w in words(b"", 4 if quick else 5, [b"$[", b"a", b"]", b"\n", b"\r\n", b"\\", b" "]):
        cases.append(file_case(b"!> tmpl T\n$[a]|$[b]", w, "file-template", one_request=True))
    for b_ in P_BODY:
        cases.append(file_case(b"!> tmpl T\n" + b_, b"$[a]\nA\n", "file-template"))
        cases.append(file_case(b"!> hide\n" + b_, b"", "file-line", ext=1))
    # ... and what the engine renders, compared with Model/Templates.v: template files and page bodies over the tokens of the syntax
    T_SYMS = [b"$[", b"a", b"]", b"\n", b"\r\n", b"\\", b" ", b"b"]
    def render_case(body, tfile, kind):
        return Case("tmpl.render", xl(xb(body), xopt(None if tfile is None else xb(tfile))), None, {"kind": kind})
    for w in words(b"", 4 if quick else 5, T_SYMS[:7]):
        cases.append(render_case(b"$[a]|$[b]|\\$[a]", w, "render-template"))
    for w in words(b"", 4 if quick else 5, T_SYMS):
        cases.append(render_case(w, b"$[a]\nA\n$[b] B\r\n", "render-page"))
    for b_ in P_BODY:
        for t in T_FILES + [None]:
            cases.append(render_case(b_, t, "render-fixed"))
    for _ in range(400 if quick else 20000):
        body = b"".join(rng.choice(T_SYMS + [b"tmpl-ignore", b"<p>", b"\xff", b"$[a]", b"$[b]", b"x" * 45]) for _ in range(rng.randrange(0, 12)))
        tf = b"".join(rng.choice(T_SYMS + [b"$[a]", b"$[b]", b"\xff", b"text"]) for _ in range(rng.randrange(0, 12)))
        cases.append(render_case(body, tf if rng.random() < 0.9 else None, "render-random"))
    cases.append(render_case(b"<p>$[a]</p>", b"$[a]\n", "corpus"))
    # url_crawl (anchor url-crawl/src/lib.rs): the link iterators the push extension and the reverse proxy run on HTML
    U_SYMS = [b"<", b"img", b" src=", b" href=", b"\"", b"'", b"`", b"/a", b">", b"link", b" rel=\"stylesheet\"", b"\xc3\xa9", b"//", b"\\",
              b"background-image: url(", b"/abc", b")"]
    for w in words(b"", 3 if quick else 4, U_SYMS):
        cases.append(Case("explore.urls", xb(w), None, {"kind": "urls-words"}))
    html = (b"<!DOCTYPE html><html><head><link rel=\"stylesheet\" href=\"/style.css\"><script src='/s.js'></script></head><body>"
            b"<img src=\"/a.png\" loading=\"lazy\"><main style=\"background-image: url('/bg.png');\"><a href=\"/x\">x</a></main></body></html>")
    for _ in range(500 if quick else 30000):
        m = mutate(rng, html, b"<>\"'` =/\\\xc3\xa9\xff")
        m = m[:rng.randrange(0, len(m) + 1)] if rng.random() < 0.5 else m
        cases.append(Case("explore.urls", xb(m), None, {"kind": "urls-random"}))
        cases.append(Case("urls.iter", xl(xn(rng.choice([0, 1, 2, 2])), xbool(rng.random() < 0.3), xb(m)), None, {"kind": "urls-iter-random"}))
    # ... and the items they yield, compared with Model/UrlCrawl.v (every quote / absolute-path filter / resource filter)
    for w in words(b"", 3 if quick else 4, U_SYMS):
        f = len(w) % 3
        cases.append(Case("urls.iter", xl(xn(f), xbool(len(w) % 5 == 0), xb(w)), None, {"kind": "urls-iter-words"}))
    for w in words(b"", 4 if quick else 6, [b"\"", b"'", b"/", b"a", b"=", b" src=", b"\xc3\xa9", b"\\", b"//"]):
        cases.append(Case("urls.iter", xl(xn(len(w) % 3), xbool(False), xb(b"<img src=" + w)), None, {"kind": "urls-iter-words"}))
    # ONE request against a minimal collection (with / without a default host): the class of the answer — closed, 409, 400, 403, 204,
    # 416, reply with status / length / content-range / body — is COMPARED with the model's request_path (the order of the stages)
    for s in SPECIAL_HEADS:
        if len(s) <= 20000:
            cases.append(path_case(s, "path-special", no_default=len(s) % 3 == 0))
    for w in words(ALPHA, 2):
        cases.append(path_case(b"GET /" + w + b" HTTP/1.1\r\nHost: localhost\r\n\r\n", "path-words"))
    for _ in range(500 if quick else 20000):
        data = path_head(rng)
        data = data if rng.random() < 0.7 else mutate(rng, data)
        cases.append(path_case(data, "path-random", sched=rand_sched(rng, len(data)) if rng.random() < 0.3 else (), profile=rng.choice(PROFILES),
                               no_default=rng.random() < 0.25))
    for _ in range(100 if quick else 3000):
        cases.append(path_case(valid_head(rng), "path-valid", no_default=rng.random() < 0.25))
    # last: the accounting case of the live components (see extra_oracle)
    cases.append(Case("query.parse", xb(b"live=accounting"), None, {"kind": "live-accounting"}))
    return cases


# ------------------------------------------------------------------------------------------------
# oracles
# ------------------------------------------------------------------------------------------------
PANIC = "(L (N 2)"


def has_panic(c, i):
    """The implementation reported a caught panic: the outcome (L (N 2)) at top level; for the components whose output is a
    list of outcomes (pathquery, hosts.lookup without its index-list queries) also as an element."""
    if c.comp in ("pathquery", "hosts.lookup"):
        return "(L (N 2))" in i
    return i.startswith(PANIC)


LIVE = ("explore.conn", "explore.server", "explore.file", "explore.date", "ims.decide", "stream.window", "c02.path", "c02.ae", "tmpl.render")
TROUBLE = {}          # id -> (component, kind, message) of the live cases the harness could not execute (no verdict)


def is_trouble(c, i):
    """(L (N 93) msg): the harness could not do ITS part (no socket, no server, no answer within 30 s on a busy machine) after
    three attempts.  Not a verdict: counted and named in the evidence; too many of them fail the run as a harness error."""
    if c.comp in LIVE and i.startswith("(L (N 93)"):
        msg = ""
        if "(B " in i:
            msg = bytes.fromhex(i[i.index("(B ") + 3:i.index(")", i.index("(B "))]).decode("latin1")
        TROUBLE[c.id] = (c.comp, c.meta.get("kind"), msg)
        return True
    return False


def trouble_limit(cases):
    live = sum(1 for c in cases if c.comp in LIVE)
    return max(5, live // 50)


N_LIVE = [0]


def extra_oracle(c, i):
    if c.meta.get("kind") == "live-accounting":
        limit = max(5, N_LIVE[0] // 50)
        if len(TROUBLE) > limit:
            return ("HARNESS ERROR, not a finding about kvarn: %d of %d live cases could not be executed (limit %d): %s"
                    % (len(TROUBLE), N_LIVE[0], limit, sorted(TROUBLE.items())[:8]))
        return None
    # independent of every model: no panic, anywhere
    bad = has_panic(c, i)
    if bad:
        what = "a panic" + (": " + bytes.fromhex(i[i.index("(B ") + 3:i.index(")", i.index("(B "))]).decode("latin1")
                            if (c.comp.startswith("explore") or c.comp == "c02.ae") and "(B " in i else "")
        return "%s in %s on this input (profile %s)" % (what, c.comp, c.profile)
    if c.comp in ("explore.conn", "explore.file") and i.startswith("(L (N 94)"):
        return "the connection task did not end within 30 s after the client closed its sending side (two attempts)"
    if c.comp == "c02.ae" and i.startswith("(L (N 97)"):
        return ("a well-formed request with this accept-encoding value was not answered: "
                + bytes.fromhex(i[i.index("(B ") + 3:i.index(")", i.index("(B "))]).decode("latin1"))
    if c.comp == "explore.server" and i.startswith("(L (N 95)"):
        return "shutdown::Manager::get_connecions() did not return to its idle value after the connection had gone: " + i
    if c.comp in ("explore.date", "ims.decide") and i.startswith("(L (N 92)"):
        return "harness: the If-Modified-Since request was not answered from the response cache (the hit arm is the code under test)"
    return None


SEEN_LIVE = set()


def out_of_domain(c, i):
    if has_panic(c, i):
        return False                      # a panic is never out of domain: the model-independent oracle must see it
    if c.comp == "stream.window" and c.x[1][1][1]:
        # whether file.seek(start) succeeds for 2^31 <= start < 2^63 is the file system's business (s_maxbytes);
        # beyond i64::MAX it always fails, below 2^31 it always succeeds: only those are compared
        m = re.match(rb"bytes=\+?(\d+)-", c.x[1][1][1][0][1])
        if m and 2 ** 31 <= int(m.group(1)) < 2 ** 63:
            return True
    if c.comp in LIVE:
        N_LIVE[0] += 0 if c.id in SEEN_LIVE else 1
        SEEN_LIVE.add(c.id)
    return i.startswith("(L (N 96)") or bool(c.meta.get("ood")) or is_trouble(c, i)


def spec_ok(c, i, s):
    if c.meta.get("kind") == "directed":
        return not has_panic(c, i)            # directed search: the model-independent oracle is the specification
    if s.startswith("(L (N 7)"):
        return True
    return i == s


def signature(c, m):
    # distinct (input, model outcome class) pairs: error class / ok / panic; for heads the parse error class
    return m[:14]


def classify(c, i):
    # integer * multiplier in from_kvarn_cache_control, builds with overflow checks only; the value comes from a handler's or an
    # upstream server's RESPONSE, never from the client.  ONLY the overflow inputs (u32 integer x unit >= 2^32) are in the class: any
    # other panic of that function is a new finding
    if c.comp == "cc.kvarn" and c.profile == "dev" and i.startswith(PANIC):
        m = re.fullmatch(rb"(\d+)([smhd])", c.x[1][1][1].strip(b" \t\n\r\x0b\x0c"))
        if m and int(m.group(1)) < 2 ** 32 and int(m.group(1)) * {b"s": 1, b"m": 60, b"h": 3600, b"d": 86400}[m.group(2)] >= 2 ** 32:
            return "kvarn-cache-control-overflow"
    return None


def describe(c):
    d = {"component": c.comp, "profile": c.profile, "kind": c.meta.get("kind")}
    x = c.x
    if c.comp == "h1.request":
        d["head"] = kv.pretty(x[1][4], 300)
        d["schedule"] = [b[1] for b in x[1][5][1]][:12]
    elif c.comp in ("explore.conn", "explore.server"):
        d["bytes_sent"] = kv.pretty(x[1][0], 300)
    else:
        d["input"] = kv.pretty(x, 300)
    return d


def extra_coverage(cases, impl, model, spec):
    per = {}
    for c in cases:
        per[c.comp] = per.get(c.comp, 0) + 1
    expl = [c for c in cases if c.comp.startswith("explore")]
    return {"inventory": [{"where": w, "partial_operations": o, "covered_by": m} for w, o, m in INVENTORY],
            "cases_per_component": per,
            "exploration_only_cases": len(expl),
            "exploration_note": "explore.conn / explore.server / explore.file / explore.date / explore.urls are a TEST of the unmodelled rest (live "
                                "handle_connection and a live server with the default extensions + kvarn-extensions, CORS, CSP, nonce, vary rules on three "
                                "headers, files, templates, stream_body, a query-parsing and a body-reading handler, a compressible page that is never cached, a rate-limited host): their 'model' is "
                                "the constant 'ends cleanly'",
            "panics_observed": sum(1 for c in cases if c.id in impl and c.meta.get("kind") != "live-accounting" and extra_oracle(c, impl[c.id])),
            "not_executed_ids": [{"id": c.id, "component": c.comp, "kind": c.meta.get("kind"), "missing": ("implementation" if c.id not in impl else "model")}
                                 for c in cases if c.id not in impl or c.id not in model][:50],
            "live_cases": sum(1 for c in cases if c.comp in LIVE),
            "live_cases_not_executed": [{"id": k, "component": v[0], "kind": v[1], "why": v[2]} for k, v in sorted(TROUBLE.items())],
            "live_cases_not_executed_limit": trouble_limit(cases)}


def directed(rng, mismatches):
    # a second, larger draw of the random families (the oracle is model-independent: any panic is a failing input)
    cases = []
    for _ in range(6000):
        base = valid_head(rng)
        s = mutate(rng, base) if rng.random() < 0.7 else base
        cases.append(head_case(s, "directed", sched=rand_sched(rng, len(s)), profile=rng.choice(PROFILES)))
    for w in words(ALPHA_H, 4):
        cases.append(hdr_case(w, "directed"))
    for w in words(b"", 4, Q_SYMS):
        cases.append(q_parse(w, "directed"))
    for _ in range(3000):
        h = mutate(rng, b"bytes=%d-%d" % (rng.choice(EXTREME), rng.choice(EXTREME)), ALPHA_R)
        cases += range_cases(h, rng.choice([0, 1, 7]), "directed")
    for c in cases:
        c.spec = c.spec or "explore.conn"      # any spec component: the verdict comes from spec_ok below
    return cases


RULE = ("No PANIC outcome anywhere (oracle independent of the models), and the models predict the implementation's outcome exactly "
        "(correspondence; a panic must be predicted in both directions). Compared components: h1.request / h1.headers (kvarn_async::read::request over a "
        "scripted reader, parse::headers; both arithmetic profiles): bounded-exhaustive over the structural alphabet {G E T SP / : CR LF a 0 - = , ; %} "
        "(raw heads up to length 3 quick / 5 thorough; 'GET' + up to 3 / 5 symbols + blank line; up to 2 / 4 symbols in the target position; header blocks over {a : SP CR LF 0 - ; % NUL 0xff TAB} up to length 3 / 5, directly and behind a request line), "
        "a list of special heads (bare LF, NUL, non-ASCII, empty parts, blank values, HTTP/0.9 request lines, over-long tokens, TLS/h2 prefaces, huge content-lengths), mutated valid heads with random read "
        "schedules and end modes, heads up to and across the 16 KiB limit; c02.path (ONE request over loopback through the real handle_connection on a minimal collection "
        "with / without a default host: closed / 409 / 400 / 403 / 204 / 416 / status + content-length + content-range + body, compared with the model's request_path — the ORDER of the stages); "
        "range.serve (Range values: extreme numbers 0..10^40 around 2^32, 2^63, 2^64, "
        "words over the value alphabet, mutations; both profiles) and stream.window (stream_body over loopback: announced length, the bytes really sent — the chunk loop runs to its end on "
        "files of up to 200000 bytes with windows around the 64 KiB buffer boundaries and beyond the file —, the framing of the next response); "
        "neg.list_header (Accept-Encoding / Accept-Language words and random values, and members weighted with ~70 texts around f32::from_str: nan / inf / infinity in any case and sign, "
        "signed zeros, 1e400, 1e-400, .5, 1., +1, hex floats, 300 digits, the binary32 rounding boundaries of 0 and 1, malformed ones); c02.ae (a well-formed GET with a weighted accept-encoding "
        "list, sent twice on one loopback connection — the second after the first answer arrived, so that it meets the response cache and the memo cells — to a handler page that is cached, "
        "one that is never cached, a file, the built-in 404 page of a host without an errors directory, and a 12-byte file under the compression floor: status and content-encoding of both "
        "answers vs. Negotiate.clone_preferred; bounded-exhaustive: every pair of 13 core weight texts on gzip and br, each beside an unweighted member in both orders; identity / * / all "
        "three codings under every weight text; random lists; a request that is not answered is a failing input of its own); ims.decide (If-Modified-Since through the REAL hit arm of handle_cache on a warmed cache: 200 / 304 vs. "
        "Model/Ims.v; one field at a time away from a valid date, random fields, calendar corners, the ends of the time crate's range); "
        "cors.check (Origin, C13's generator); hosts.lookup (Host, C15's generator); pathsan.direct (targets over {/ . % 2 e f a %2e %2f %ff}); "
        "query.parse / query.iter / pathquery (query strings over {a b = & % 2 %26 %3d e-acute +}, every next/next_back script up to length 4, "
        "specification: the values of the name in order); present.parse (first lines of served files over {! > SP & CR LF a n o c e = \" '}); urls.iter (url_crawl::LinkIter, three filters, "
        "words over the link syntax and mutated HTML vs. Model/UrlCrawl.v); tmpl.render (a '!> tmpl' page and its template file through handle_cache: the rendered body vs. Model/Templates.v; "
        "template files and page bodies bounded-exhaustively over {$[ a b ] LF CRLF \\ SP} up to 4 / 5 tokens, random compositions). "
        "PLUS EXPLORATION (a test, not a proof; the 'model' is 'ends cleanly'): explore.conn — the special heads, mutated valid requests (all header kinds above, "
        "pipelined, with random TCP segmentation), every header the core / a vary rule / an extension reads with values of 0..2 bytes that are not text or not UTF-8, several requests to a "
        "rate-limited host (429, drop), weighted accept-encoding / accept-language lists (the weight texts above, odd parameter syntax, doubled headers) on every kind of page with HEAD / POST / Range / "
        "If-Modified-Since, three requests per connection, and accept-language lists of 21..200 members with NaN / infinite weights on the page whose vary callback ranks the languages by weight "
        "(the callback of kvarn's documentation) — over loopback to the real kvarn::handle_connection on hosts with Extensions::new() + kvarn_extensions::mount_all + CORS "
        "rules + vary rules + handlers + files + templates + stream_body; a counting panic hook and the connection task's JoinHandle::is_panic must stay clean and the "
        "task must end after the client closes; explore.server — the same bytes against a real RunConfig::execute server: shutdown::Manager::get_connecions() must return to its idle value; "
        "explore.file — generated first lines ('!> ' + extension names + arguments) and template files (bounded-exhaustive over {$[ a ] LF CRLF \\ SP}) served through the real Present extensions; "
        "explore.date; explore.urls. A live case the harness could not execute after three attempts (no socket, no answer within 30 s) is not a verdict: it is counted and named "
        "(coverage.live_cases_not_executed); more than max(5, 2 %) of them fail the run as a harness error. distinct_nontrivial counts distinct (input, model outcome class) pairs")
ASSUMPTIONS = [
    "the theorems are about the models; each model is tied to the code by the correspondence run of this property and of its own property "
    "(C01 PathSan, C06 Negotiate, C07 Http1Read, C09 Range/RangeConn, C12 Limiter, C13 Cors, C14 Nonce, C15 Hosts, C16 PresentLine)",
    "query strings, header values and names handed to parse::query / list_header are Rust &str (valid UTF-8): every index the code computes is "
    "next to an ASCII delimiter, so str::get's character-boundary test never fails where the byte model's slice_get succeeds",
    "request_path composes the stages for ONE request of a connection with a host whose page for the URI is given as its representations per "
    "Accept-Encoding class (as in C09); the limiter stage takes the history of earlier registrations on the host's limiter (at most usize::MAX / 3 calls, "
    "the hypothesis of limiter_never_panics); Prepare/Present/Package/Post extensions other than the modelled ones, TLS, HTTP/2, HTTP/3, WebSockets, "
    "the compressors and the crates http/h2/rustls/moka/tokio are outside the theorems (exploration only)",
    "bodies fit in memory (length < 2^64), the hypothesis of range_never_panics (page_fits)",
    "c02.path: an Accept-Encoding value that names identity or * (it may refuse the identity encoding: 406 from clone_preferred, decided by C06) is outside "
    "request_path's page-per-encoding-class abstraction and is not compared (a panic is never out of domain: the no-panic oracle still applies)",
    "c02.ae: the pages are text/html (compressible), the server's preferred coding is zstd with the fallback order zstd, br, gzip (CompressionOptions::default, all three "
    "features built in); the accept-encoding value is one a header line carries unchanged (no control bytes, no optional whitespace at its ends — else out of domain); only status and "
    "content-encoding are compared (the bodies and their decoding are C06's subject); the two requests of a case are written one after the other's answer — what a server does with a "
    "second request that arrives in the same segment as the first head is not observed here",
    "weight_order_variant_refuted is about code that does NOT exist in kvarn (sort_weights: an insertion sort, what slice::sort_by is for up to 20 elements, with the comparator "
    "b.partial_cmp(a).unwrap()); it documents why no client-controlled float may be ordered that way. The consistency check inside core::slice::sort (the panic of the documented vary "
    "callback, repaired by 095abe3) is not modelled: that defect is covered by the live exploration only (kind conn-lang-weights and its corpus input)",
    "stream.window: whether seeking a file to an offset in [2^31, 2^63) succeeds depends on the file system; those starts are out of domain "
    "(the model's seek fails exactly beyond i64::MAX); stream_body_never_panics: every read returns at most the 64 KiB buffer and file offsets stay "
    "below 2^63 (what the kernel guarantees)",
    "if_modified_since_never_panics: the cache entry was not made in the first second of the year -9999 (the server's clock); Model/Ims.v transcribes "
    "the time crate 0.3.55 without the large-dates feature (weekday parsed but not checked, optional sign before a four-digit year) — a crate update "
    "that changes the parser shows up as a mismatch of ims.decide; the model takes the generator's clock for the entry's creation time, values within two "
    "days of it are not compared (C04 decides those to the second)",
    "Model/UrlCrawl.v, Model/Templates.v and the Present code of kvarn-extensions work on FILE or UPSTREAM content, not on request bytes (the property's "
    "quantifier over served files); the HTTP/2 push extension itself (which calls url_crawl) is not reached: HTTP/1 only; Model/Templates.v takes ONE "
    "template file per page (the code tries the named files in reverse order until one has the template) and template names that are valid UTF-8 byte strings",
]
TRUSTED = ["modelled here (Model/Panics.v): utils/src/parse.rs query, Query::{insert,index_of,iterate_to_first,iterate_to_last}, QueryPairIter "
           "(repaired code, commit 55bc7f7), src/comprash.rs PathQuery, src/extensions.rs stream_body (window arithmetic and the chunk loop); "
           "Model/Ims.v: the If-Modified-Since test of handle_cache incl. the time crate's parser for HTTP_DATE; Model/UrlCrawl.v: url_crawl::LinkIter "
           "(repaired code, commit 4e78a7d) and its two filters; Model/Templates.v: kvarn-extensions' extract_templates (repaired code, commit 176c67e) and "
           "handle_template; ae_answer (the status / content-encoding clone_preferred's reply is sent with, incl. the 'identity' label error::default gives the 406 page) on top of "
           "Negotiate.clone_preferred, compared live by c02.ae",
           "borrowed models (tied by their own properties and re-run here): Http1Read.v, Range.v, RangeConn.v, PathSan.v, Negotiate.v, Cors.v, Hosts.v, "
           "PresentLine.v, Limiter.v, Nonce.v",
           "harness/src/c02.rs, c02conn.rs (loopback client, counting panic hook, real server on a locked port, fixture tree, the framing of the two answers of c02.ae by content-length), c07.rs (scripted reader), c09.rs, c06.rs, c13.rs, c15.rs, c01.rs, c16.rs",
           "the ORDER in which request_path composes the stages is a hand transcription of handle_connection / handle_cache / SendKind::send, COMPARED "
           "with the real handle_connection by component c02.path on a minimal collection (class of the answer); the page, the cache state and the limiter "
           "history are parameters of the theorem, instantiated there by a 10-byte page, no cache, limiter off"]
LEVEL_TEXT = ("Machine-checked Coq theorems: every modelled parser / decision function on the request path returns without panic for EVERY input "
              "(request heads under every read schedule and end mode, header blocks, Range / Accept-Encoding / If-Modified-Since / Origin / Host values, paths, query "
              "strings, query iterator scripts, cache keys, the whole streaming loop of stream_body for every window, file length and sequence of read results; "
              "both arithmetic modes where overflow matters), and the composition "
              "request_path, in the code's order (reader -> host choice -> request limiter -> sanitize path / range -> CORS gate incl. preflight -> cache key -> file path -> "
              "query parsing -> negotiation -> cache -> range -> send), never panics for any head, schedule, host collection, limiter configuration and history, page and cache state. "
              "The If-Modified-Since test is modelled with the time crate's parser: no header value panics it, it answers 304 exactly for a date not older than creation - 1 s, and the "
              "rewrite that does its arithmetic on the client's date is refuted (year 9999). The weights of accept-encoding members go through f32::from_str, which accepts nan / inf / 1e400 / -0: "
              "for ANY weight parser every page is answered — 406 exactly when identity is refused and nothing else applies, else its own status with identity or a coding the list names "
              "with a non-zero weight (accept_encoding_always_answered, tied to live connections by component c02.ae) — because the code tests a weight with == 0.0 / != 0.0 / == 1.0 only; a rewrite that "
              "ORDERS the client's weights with partial_cmp(..).unwrap() panics exactly on lists of two or more members with a NaN (weight_order_variant_refuted). The models are byte-faithful "
              "transcriptions with every slice / index / unwrap / checked arithmetic explicit and are tied to the code on every run by a "
              "differential run in which a panic must be predicted exactly — the composition itself by the class of the answer of the real handle_connection —, plus a "
              "model-independent no-panic oracle; four defects found on the way are repaired and their old behaviour kept as refuted statements where modelled "
              "(Query::get_last always panicked; url_crawl::LinkIter on an unclosed quote; kvarn-extensions' template parser on an empty last template; NOT modelled, found and kept by the live "
              "exploration only: the vary callback of kvarn's documentation sorted accept-language weights with a comparator that is no total order once a weight is NaN, and slice::sort_by "
              "panics on it for more than 20 members). "
              "What is NOT modelled (http, moka, tokio, compressors, TLS/h2/h3, vary lookup, CSP, MIME detection, kvarn-extensions' other Present code) is covered by exploration runs against live "
              "connections, a live server (whose connection count must return to idle) and generated file contents only — a test, not a proof.")
LEVEL_NOTE = ("Partial by construction: panic-freedom is proved for the modelled functions (see coverage.inventory for the table of partial "
              "operations and what covers each) and tested for the rest. Trusted: Coq kernel, extraction (reduced by the kernel recheck sample), "
              "the hand transcriptions as validated by the differential runs. No axioms.")
TECHNIQUE = "Coq proof (no Panic outcome for all inputs) + differential correspondence with exact panic prediction + model-independent no-panic oracle + loopback exploration"
EXHAUSTIVE = False

# pinned statements (checked with `Check (name : statement)` and `Print Assumptions` on every run)
THEOREMS = [
    ("head_never_panics",
     "forall (grow : nat -> nat -> nat -> nat) (mode : N) (https : bool) (dh : option bytes) (max_len : nat) (limit : N) (stream : bytes) (sched : list nat), Http1Read.serve grow mode https dh max_len limit stream sched <> Panic"),
    ("request_line_never_panics",
     "forall (https : bool) (dh : option bytes) (buffer : bytes), Http1Read.parse_request https dh buffer <> Panic"),
    ("headers_never_panics",
     "forall b : bytes, Http1Read.parse_headers b <> Panic"),
    ("range_never_panics",
     "forall (checked : bool) (hdr : option bytes) (body : bytes), N.of_nat (length body) <= u64_max -> Range.serve_range checked hdr 200 body <> Panic"),
    ("sanitize_never_panics",
     "forall p : bytes, PathSan.sanitize_path p <> Panic"),
    ("fs_path_never_panics",
     "forall host public p : bytes, PathSan.sanitize_path p = Ok tt -> PathSan.request_fs_path host public p <> Panic"),
    ("list_header_never_panics",
     "forall (parse_q : bytes -> option Negotiate.qclass) (h : bytes), exists l, Negotiate.list_header parse_q h = l /\\ (length l <= S (ListHeaderProofs.commas h))%nat"),
    ("query_never_panics",
     "forall q : bytes, query q <> Panic"),
    ("query_iter_never_panics",
     "forall (q name : bytes) (script : list bool), query_script false q name script <> Panic"),
    ("query_get_last_v0_refuted",
     "forall q name : bytes, query_script true q name [true] = Panic"),
    ("pathquery_never_panics",
     "forall (path : bytes) (query : option bytes), pq_path (pq_from path query) = Ok path /\\ exists r, pq_query (pq_from path query) = Ok r"),
    ("host_choice_never_panics",
     "forall (ops : list Hosts.op) (c : Hosts.collection) (b : bool) (sni : option bytes) (hh : list bytes) (authority : option bytes), Hosts.build ops = Ok c -> Hosts.choose_host_uri b Hosts.V1 c sni hh authority <> Panic"),
    ("limiter_never_panics",
     "forall (checked : bool) (cfg : Limiter.config) (t0 : N) (h : list Limiter.event), Limiter.fits (length h) -> Forall (fun d => exists a, d = Ok a) (Limiter.decisions checked cfg t0 h)"),
    ("conn_never_panics",
     "forall (checked caching : bool) (pg : RangeConn.page) (cache : option RangeConn.page) (q : RangeConn.creq), RangeConn.page_fits pg -> RangeConn.cache_ok pg cache -> fst (RangeConn.conn_step checked caching pg cache q) <> Panic"),
    ("stream_window_never_panics",
     "forall (checked : bool) (hdr : option bytes) (range : option (N * N)) (file_len : N), Range.sanitize_range hdr = Ok range -> stream_window checked range file_len <> Panic"),
    ("stream_chunk_never_panics",
     "forall (checked : bool) (pos read end_ : N), pos < end_ -> pos + read <= u64_max -> stream_chunk checked pos read end_ <> Panic"),
    ("stream_body_never_panics",
     "forall (checked : bool) (hdr : option bytes) (range : option (N * N)) (file_len : N) (reads : list N) (start end_ len : N), Range.sanitize_range hdr = Ok range -> stream_window checked range file_len = Ok (start, end_, len) -> Forall (fun r => r <= stream_buf) reads -> start + nsum (live_reads reads) <= 9223372036854775807 -> exists sent, stream_loop checked start end_ reads = Ok sent /\\ nsum sent = N.min len (nsum (live_reads reads)) /\\ nsum sent <= len"),
    ("if_modified_since_never_panics",
     "forall (creation : Z) (hdr : option bytes), (odt_min + 1 <= creation <= odt_max)%Z -> ims_fresh false creation hdr <> Panic"),
    ("if_modified_since_rule",
     "forall (creation : Z) (hdr : option bytes), (odt_min + 1 <= creation <= odt_max)%Z -> (ims_fresh false creation hdr = Ok true <-> exists v ts, hdr = Some v /\\ Http1Read.hv_to_str_ok v = true /\\ parse_http_date v = Some ts /\\ (creation - 1 <= ts)%Z) /\\ (ims_fresh false creation hdr = Ok true \\/ ims_fresh false creation hdr = Ok false)"),
    ("if_modified_since_plus_variant_refuted",
     "forall creation : Z, ims_fresh true creation (Some last_second) = Panic"),
    ("link_iter_never_panics",
     "forall (filter : bytes -> nat -> bool) (interdomain : bool) (data : bytes), link_iter false filter interdomain data <> Panic"),
    ("link_iter_v0_refuted",
     "link_iter true filter_resource false unclosed = Panic /\\ link_iter true filter_absolute false unclosed = Panic /\\ link_iter false filter_resource false unclosed = Ok [IPath (B \"/abc\") (B \"<img src=\" ++ [34]) 1]"),
    ("template_engine_never_panics",
     "forall (tfile : option bytes) (body : bytes), render false tfile body <> Panic"),
    ("template_engine_v0_refuted",
     "extract_templates true empty_last = Panic /\\ render true (Some empty_last) (B \"<p>$[a]</p>\") = Panic /\\ render false (Some empty_last) (B \"<p>$[a]</p>\") = Ok (B \"<p></p>\") /\\ render true (Some empty_last) (B \"<p>no placeholder $[</p>\") = Ok (B \"<p>no placeholder \")"),
    ("present_line_never_panics",
     "forall data : bytes, exists r, PresentLine.present_parse data = Ok r /\\ match r with | Some p => (PresentLine.p_data_start p <= length data)%nat /\\ PresentLine.p_body p = skipn (PresentLine.p_data_start p) data | None => True end"),
    ("nonce_rewriter_never_panics",
     "forall nonce body : bytes, Nonce.nonce_rewrite nonce body <> Panic /\\ forall e, Nonce.nonce_rewrite nonce body <> Err e"),
    ("kvarn_cache_control_unchecked_never_panics",
     "forall h : bytes, CacheControl.from_kvarn_cache_control false h <> Panic"),
    ("kvarn_cache_control_checked_refuted",
     "CacheControl.from_kvarn_cache_control true (B \"4294967295d\") = Panic"),
    ("accept_encoding_always_answered",
     "forall (parse_q : bytes -> option Negotiate.qclass) (status : N) (big : bool) (ae : option bytes), let values := Negotiate.header_values parse_q ae in (ae_answer parse_q status big ae = (406, Some Negotiate.s_identity) /\\ Negotiate.disable_identity values = true) \\/ (ae_answer parse_q status big ae = (status, Some Negotiate.s_identity) /\\ Negotiate.disable_identity values = false) \\/ (exists a, ae_answer parse_q status big ae = (status, Some (Negotiate.alg_name a)) /\\ big = true /\\ Negotiate.contains values (Negotiate.alg_name a) = true)"),
    ("weight_order_variant_refuted",
     "forall (A : Type) (l : list (A * fweight)), sort_weights l = Panic <-> (2 <= length l)%nat /\\ Exists (fun m => snd m = FNan) l"),
    ("request_path_never_panics",
     "forall (grow : nat -> nat -> nat -> nat) (parse_q : bytes -> option Negotiate.qclass) (checked : bool) (mode : N) (https : bool) (ops : list Hosts.op) (c : Hosts.collection) (dh : option bytes) (max_len : nat) (limit : N) (lcfg : Limiter.config) (t0 : N) (lh : list Limiter.event) (addr now : N) (public : bytes) (cors_default_deny caching : bool) (pg : RangeConn.page) (cache : option RangeConn.page) (stream : bytes) (sched : list nat), Hosts.build ops = Ok c -> Limiter.fits (S (length lh)) -> RangeConn.page_fits pg -> RangeConn.cache_ok pg cache -> request_path grow parse_q checked mode https c dh max_len limit lcfg t0 lh addr now public cors_default_deny caching pg cache stream sched <> Panic"),
]
