"""C20 — HTTP/2 and HTTP/1.1 clients get the same answer."""
import os
import resource

import kv
from kv import Case, xn, xb, xl, xlist, xopt, xbool, xz

ID = "C20"
MODULE = "C20"
IMPORTS = "Bytes RustInt Range CacheControl Cache CacheProofs Protocols ProtocolsProofs"
PROFILES = ("dev",)
IMPL_SHARDS = 6
PER_SHARD = 4
KERNEL_SAMPLE = 12

_LAYER = ("forall (hstate : Type) (compute : hstate -> request -> bool -> fat * hstate * list bytes) ")
_ANSWER_ARGS = ("hstate compute cache_on ims_on parse_ims sanitize_ok prime negotiate vary_tuple vary_header "
                "checked error_page vary_rules pkg alt sanitize encode hversion")
_RUN = ("run_streams hstate compute true ims_on parse_ims sanitize_ok prime negotiate vary_tuple vary_header "
        "((c, hs), open_streams reqs) now dt sched")
_SEND = "forall (checked : bool) (error_page : N -> resp) (vn : list bytes) (pkg : N -> headers -> headers)"
_WIT = "send_pipe false (fun _ => r) [] (fun _ h => h)"
THEOREMS = [
    ("send_parity",
     _SEND + ", pkg_oblivious pkg -> "
     "forall (secure1 : bool) (alt : option bytes) (m : N) (sd : outcome (option (N * N))) (r : resp), "
     "onorm (send checked error_page vn pkg H1 secure1 alt m sd r) = onorm (send checked error_page vn pkg H2 true alt m sd r)"),
    ("protocol_parity",
     _LAYER + "(cache_on ims_on : bool) (parse_ims : bytes -> option Z) (sanitize_ok : request -> bool) (prime : request -> request) "
     "(negotiate : request -> fat -> option (N * bytes)) (vary_tuple : request -> tuple) "
     "(vary_header : request -> fat -> list (bytes * bytes)) (checked : bool) (error_page : N -> resp) "
     "(vary_rules : request -> list bytes) "
     "(pkg : N -> headers -> headers) (alt : option bytes) (sanitize : request -> outcome (option (N * N))) "
     "(encode : request -> N -> headers -> bytes -> headers * bytes) (hversion : N), pkg_oblivious pkg -> "
     "forall (secure1 : bool) (st : state hstate) (now : N) (r0 : request), "
     "onorm (answer " + _ANSWER_ARGS + " H1 secure1 st now r0) = onorm (answer " + _ANSWER_ARGS + " H2 true st now r0)"),
    ("head_is_get_without_body",
     _SEND + " (p : proto) (secure : bool) "
     "(alt : option bytes) (sd : outcome (option (N * N))) (r : resp), "
     "send checked error_page vn pkg p secure alt M_HEAD sd r = odrop (send checked error_page vn pkg p secure alt M_GET sd r)"),
    ("head_parity",
     _SEND + ", pkg_oblivious pkg -> "
     "forall (secure1 : bool) (alt : option bytes) (sd : outcome (option (N * N))) (r : resp), "
     "onorm (send checked error_page vn pkg H1 secure1 alt M_HEAD sd r) = odrop (onorm (send checked error_page vn pkg H2 true alt M_GET sd r)) /\\ "
     "onorm (send checked error_page vn pkg H2 true alt M_HEAD sd r) = odrop (onorm (send checked error_page vn pkg H2 true alt M_GET sd r))"),
    ("pkg_menu_is_oblivious",
     "forall ops : list pkg_op, Forall (fun o => hop (pkg_op_name o) = false) ops -> pkg_oblivious (pkg_menu ops)"),
    ("h2_never_refuses",
     _SEND + " (p : proto) (secure : bool) "
     "(alt : option bytes) (m : N) (sd : outcome (option (N * N))) (r : resp), "
     "send checked error_page vn pkg p secure alt m sd r <> Ok WRefused"),
    ("stream_independence",
     _LAYER + "(ims_on : bool) (parse_ims : bytes -> option Z) (sanitize_ok : request -> bool) (prime : request -> request) "
     "(negotiate : request -> fat -> option (N * bytes)) (vary_tuple : request -> tuple) "
     "(vary_header : request -> fat -> list (bytes * bytes)) (cf : request -> bool -> fat), "
     "(forall hs r ok, fst (fst (compute hs r ok)) = cf r ok) -> "
     "(forall r r', get_or_head (rq_method r) = true -> get_or_head (rq_method r') = true -> vary_tuple r = vary_tuple r' -> "
     "rq_path r = rq_path r' -> (qm (cf r true) = true -> path_query r = path_query r') -> cf r true = cf r' true) -> "
     "(forall r r', rq_path r = rq_path r' -> qm (cf r true) = qm (cf r' true)) -> "
     "(forall r, f_spref (cf r false) = SP_NONE) -> "
     "forall (reqs : list (N * request)) (checked : bool) (error_page : N -> resp) (vary_rules : request -> list bytes) "
     "(pkg : N -> headers -> headers) "
     "(alt : option bytes) (sanitize : request -> outcome (option (N * N))) "
     "(encode : request -> N -> headers -> bytes -> headers * bytes) (hversion : N) "
     "(c : cache) (hs : hstate) (now dt : N) (sched : list N) (hs' : hstate) (now' : N), "
     "Inv vary_tuple cf c -> Forall (fun e => no_ims ims_on prime (snd e)) reqs -> "
     "forall (s : N) (r0 : request) (rp : reply), In (s, r0, rp) (" + _RUN + ") -> "
     "In (s, r0) reqs /\\ stream_wire checked error_page vary_rules pkg alt sanitize encode hversion (s, r0, rp) = "
     "(s, answer hstate compute true ims_on parse_ims sanitize_ok prime negotiate vary_tuple vary_header "
     "checked error_page vary_rules pkg alt sanitize encode hversion H2 true ([], hs') now' r0)"),
    ("streams_answered_exactly_once",
     _LAYER + "(ims_on : bool) (parse_ims : bytes -> option Z) (sanitize_ok : request -> bool) (prime : request -> request) "
     "(negotiate : request -> fat -> option (N * bytes)) (vary_tuple : request -> tuple) "
     "(vary_header : request -> fat -> list (bytes * bytes)) (reqs : list (N * request)) (c : cache) (hs : hstate) "
     "(now dt : N) (sched : list N), NoDup (map fst reqs) -> "
     "(forall s, In s (map fst reqs) -> (count_occ N.eq_dec sched s >= 2)%nat) -> "
     "NoDup (map (fun o => fst (fst o)) (" + _RUN + ")) /\\ "
     "forall (s : N) (r0 : request), In (s, r0) reqs -> exists rp, In (s, r0, rp) (" + _RUN + ")"),
    ("send_never_panics",
     _SEND + " (p : proto) (secure : bool) "
     "(alt : option bytes) (m : N) (path_ok : bool) (hdr : option bytes) (r : resp), "
     "N.of_nat (length (rs_body r)) <= u64_max -> send checked error_page vn pkg p secure alt m (sd_of path_ok hdr) r <> Panic"),
    ("history_parity",
     _LAYER + "(cache_on ims_on : bool) (parse_ims : bytes -> option Z) (sanitize_ok : request -> bool) (prime : request -> request) "
     "(negotiate : request -> fat -> option (N * bytes)) (vary_tuple : request -> tuple) "
     "(vary_header : request -> fat -> list (bytes * bytes)) (checked : bool) (error_page : N -> resp) "
     "(vary_rules : request -> list bytes) "
     "(pkg : N -> headers -> headers) (alt : option bytes) (sanitize : request -> outcome (option (N * N))) "
     "(encode : request -> N -> headers -> bytes -> headers * bytes) (hversion : N) (wants : state hstate -> request -> option N), "
     "pkg_oblivious pkg -> forall (secure1 : bool) (st : state hstate) (now dt : N) (bs : list breq), "
     "Forall (fun b => pr_no_request_body (rq_method (b_req b)) = true -> b_len b = 0) bs -> "
     "Forall (fun w => w <> Panic) (answers " + _ANSWER_ARGS + " H2 true st now dt bs) -> "
     "conn_hist " + _ANSWER_ARGS + " wants H1 true secure1 st now dt bs = map Some (answers " + _ANSWER_ARGS + " H1 secure1 st now dt bs) /\\ "
     "conn_hist " + _ANSWER_ARGS + " wants H2 true true st now dt bs = map Some (answers " + _ANSWER_ARGS + " H2 true st now dt bs) /\\ "
     "map onorm (answers " + _ANSWER_ARGS + " H1 secure1 st now dt bs) = map onorm (answers " + _ANSWER_ARGS + " H2 true st now dt bs)"),
    ("pair_history_answered",
     "forall (checked : bool) (ops : list pkg_op) (alt : option bytes) (e416 : resp), "
     "Forall (fun o => hop (pkg_op_name o) = false) ops -> forall (secure1 : bool) (exs tail : list exch), "
     "Forall (fun e => (pr_no_request_body (ex_method e) = true -> ex_blen e = 0) /\\ N.of_nat (length (rs_body (ex_l4 e))) <= u64_max /\\ "
     "fut_framed (head_only (ex_l4 e)) (ex_fut e) /\\ "
     "(ex_fut e <> None -> (ex_method e =? M_HEAD) && (rs_status (ex_l4 e) =? 101) = false)) (exs ++ tail) -> "
     "Forall (fun e => negb (ex_limited e) && close_delimited (ex_l4 e) (ex_fut e) = false) exs -> (length tail <= 1)%nat -> "
     "forallb is_resp (pair_hist checked ops alt e416 H1 true secure1 (exs ++ tail)) = true /\\ "
     "forallb is_resp (pair_hist checked ops alt e416 H2 true true (exs ++ tail)) = true /\\ "
     "map (option_map onorm) (pair_hist checked ops alt e416 H1 true secure1 (exs ++ tail)) = "
     "map (option_map onorm) (pair_hist checked ops alt e416 H2 true true (exs ++ tail))"),
    ("close_delimited_not_last_refuted",
     "exists checked ops alt e416 exs, Forall ex_ok exs /\\ "
     "map is_resp (pair_hist checked ops alt e416 H1 true true exs) = [true; false] /\\ "
     "map is_resp (pair_hist checked ops alt e416 H2 true true exs) = [true; true] /\\ "
     "map (send_ex checked ops alt e416 H1 true) exs = "
     "[Ok (WClosed (mkResp V11 200 [(B \"content-type\", B \"text/plain\"); (B \"connection\", B \"close\")] (B \"first second\"))); "
     "Ok (WResp (mkResp V11 200 [(B \"content-type\", B \"text/plain\"); (B \"content-length\", B \"0\"); "
     "(B \"connection\", B \"keep-alive\")] []))] /\\ "
     "map (option_map onorm) (map (fun e => Some (send_ex checked ops alt e416 H1 true e)) exs) = "
     "map (option_map onorm) (pair_hist checked ops alt e416 H2 true true exs)"),
    ("unread_request_body_v0_refuted",
     "exists checked ops alt e416 exs, Forall (fun e => pr_no_request_body (ex_method e) = true -> ex_blen e = 0) exs /\\ "
     "forallb is_resp (pair_hist checked ops alt e416 H1 false true exs) = false /\\ "
     "forallb is_resp (pair_hist checked ops alt e416 H2 false true exs) = true /\\ "
     "forallb is_resp (pair_hist checked ops alt e416 H1 true true exs) = true"),
    ("undeclared_request_body_refuted",
     "exists checked ops alt e416 exs, forallb is_resp (pair_hist checked ops alt e416 H1 true true exs) = false /\\ "
     "forallb is_resp (pair_hist checked ops alt e416 H2 true true exs) = true"),
    ("pkg_menu_keeps_content_length",
     "forall ops : list pkg_op, Forall (fun o => hop (pkg_op_name o) = false) ops -> pkg_keeps_length (pkg_menu ops)"),
    ("send_is_pipe_send",
     _SEND + " (head_future : bool) (p : proto) (secure : bool) "
     "(alt : option bytes) (m : N) (sd : outcome (option (N * N))) (r : resp), pkg_keeps_length pkg -> "
     "send_pipe checked error_page vn pkg head_future p secure alt m sd r None = send checked error_page vn pkg p secure alt m sd r"),
    ("streamed_answer",
     _SEND + " (p : proto) (secure : bool) (alt : option bytes) "
     "(m : N) (sd : outcome (option (N * N))) (r : resp) (cs : list bytes) (ol : option N), "
     "pkg_keeps_length pkg -> fut_framed (head_only r) (Some (cs, ol)) -> "
     "exists (v : N) (h : headers), send_pipe checked error_page vn pkg false p secure alt m sd r (Some (cs, ol)) "
     "= (if (m =? M_HEAD) && (rs_status r =? 101) && negb (N.of_nat (length (concat cs)) =? 0) then Ok WBroken else "
     "Ok ((if match p with H1 => close_delimited r (Some (cs, ol)) | H2 => false end then WClosed else WResp) "
     "(mkResp v (rs_status r) h (if m =? M_HEAD then [] else rs_body (head_only r) ++ concat cs)))) "
     "/\\ v = ensure_version p (rs_version r) "
     "/\\ strip h = strip (pkg v (match ol with Some n => ensure_length p n (rs_headers (add_alt_svc secure alt r)) "
     "| None => rs_headers (add_alt_svc secure alt r) end))"),
    ("stream_parity",
     _SEND + " (secure1 : bool) (alt : option bytes) (m : N) "
     "(sd : outcome (option (N * N))) (r : resp) (f : option (list bytes * option N)), "
     "pkg_oblivious pkg -> pkg_keeps_length pkg -> fut_framed (head_only r) f -> "
     "onorm (send_pipe checked error_page vn pkg false H1 secure1 alt m sd r f) = "
     "onorm (send_pipe checked error_page vn pkg false H2 true alt m sd r f)"),
    ("head_stream_v0_refuted",
     "exists (r : resp) (cs : list bytes) (n : N), fut_framed r (Some (cs, Some n)) /\\ "
     + _WIT + " true H1 true None M_HEAD (Ok None) r (Some (cs, Some n)) = Ok WBroken /\\ "
     + _WIT + " true H2 true None M_HEAD (Ok None) r (Some (cs, Some n)) = Ok WBroken /\\ "
     "(exists w1 w2, " + _WIT + " false H1 true None M_HEAD (Ok None) r (Some (cs, Some n)) = Ok (WResp w1) /\\ "
     + _WIT + " false H2 true None M_HEAD (Ok None) r (Some (cs, Some n)) = Ok (WResp w2) /\\ "
     "rs_body w1 = [] /\\ rs_body w2 = [])"),
    ("head_end_of_stream_refuted",
     "exists (v st : N) (h : headers) (cs : list bytes), concat cs <> [] /\\ "
     "receive H1 M_GET false (pipe_send H1 true v st (ensure_length H1 (N.of_nat (length (concat cs))) h) None cs) "
     "= WResp (mkResp v st (h1_connection st (ensure_length H1 (N.of_nat (length (concat cs))) h)) (concat cs)) /\\ "
     "receive H2 M_GET false (pipe_send H2 true v st h None cs) = WResp (mkResp v st (h2_strip h) []) /\\ "
     "receive H2 M_GET false (pipe_send H2 false v st h None cs) = WResp (mkResp v st (h2_strip h) (concat cs))"),
    ("limiter_answer_parity",
     "forall (m : N) (r : resp), onorm (send_direct H1 m r) = onorm (send_direct H2 m r) /\\ "
     "forall p : proto, exists h : headers, send_direct p m r = "
     "Ok (WResp (mkResp (ensure_version p (rs_version r)) (rs_status r) h (if m =? M_HEAD then [] else rs_body r))) "
     "/\\ strip h = strip (rs_headers r)"),
    ("connection_headers_filter_total",
     "forall h : headers, h2_refuses (h2_strip h) = false /\\ strip (h2_strip h) = strip h"),
    ("read_to_bytes_parity",
     "forall (body early conn : bytes) (frames : list bytes) (max_len : N), early ++ conn = body -> concat frames = body -> "
     "fst (h1_read_to_bytes (mkH1B early conn (N.of_nat (length body)) 0) max_len) = firstn (N.to_nat max_len) body /\\ "
     "fst (h2_read_to_bytes frames max_len) = firstn (N.to_nat max_len) body"),
    ("read_to_bytes_resumes",
     "forall (early conn : bytes) (cl off max_len : N), cl - off = N.of_nat (length (skipn (N.to_nat off) early ++ conn)) -> "
     "fst (h1_read_to_bytes (mkH1B early conn cl off) max_len) = firstn (N.to_nat max_len) (skipn (N.to_nat off) early ++ conn)"),
    ("second_read_refuted",
     "exists (body early conn : bytes) (frames : list bytes) (l1 l2 : N), early ++ conn = body /\\ concat frames = body /\\ "
     "h1_reads (mkH1B early conn (N.of_nat (length body)) 0) [l1; l2] <> h2_reads frames [l1; l2]"),
    ("stream_body_framed",
     "forall (file : bytes) (a c : N), "
     "match stream_plan true file (Some (a, c)) with Some (b, n) => n = N.of_nat (length b) | None => True end /\\ "
     "match stream_plan true file None with Some (b, n) => n = N.of_nat (length b) /\\ b = file | None => False end"),
    ("stream_body_v0_refuted",
     "exists (file : bytes) (a c : N), a < c /\\ "
     "match stream_plan false file (Some (a, c)) with Some (b, n) => n <> N.of_nat (length b) | None => False end"),
    ("stream_body_as_in_memory",
     "forall (checked : bool) (file : bytes) (a c : N), a < c -> "
     "match apply_range checked (Some (a, c)) 200 file with "
     "| Ok g => stream_plan true file (Some (a, c)) = Some (r_body g, N.of_nat (length (r_body g))) /\\ "
     "stream_head true file (Some (a, c)) = Some (r_status g, r_content_range g) "
     "| Err _ => stream_plan true file (Some (a, c)) = None /\\ stream_head true file (Some (a, c)) = None "
     "| Panic => False end"),
    ("range_not_satisfiable_page",
     "forall (checked : bool) (error_page : N -> resp) (vn : list bytes) (a c : N) (r : resp), "
     "(rs_status r =? 304) = false -> N.of_nat (length (rs_body r)) <= a -> "
     "apply_sd checked error_page vn (Ok (Some (a, c))) r = Ok (vary_from_settings vn (error_page 416)) /\\ "
     "(rs_body (error_page 416) <> [] -> "
     "assoc H_VARY (rs_headers (vary_from_settings vn (error_page 416))) = Some (vary_value vn) /\\ "
     "rs_body (vary_from_settings vn (error_page 416)) = rs_body (error_page 416))"),
    ("connection_end_keeps_histories",
     "forall (checked : bool) (ops : list pkg_op) (alt : option bytes) (e416 : resp) (drain : bool) (exs : list exch), "
     "(forall (p : proto) (secure : bool), pair_hist_end true checked ops alt e416 p drain secure exs = "
     "pair_hist checked ops alt e416 p drain secure exs) /\\ "
     "(forall shutdown : bool, pair_hist_end shutdown checked ops alt e416 H1 drain false exs = "
     "pair_hist checked ops alt e416 H1 drain false exs)"),
    ("close_delimited_complete_iff_close_notify",
     "forall (m : N) (r : resp) (secure shutdown : bool), "
     "(end_delimited m r = true -> "
     "(receive_end m (h1_conn_end secure shutdown) (WClosed r) = WClosed r <-> secure = false \\/ shutdown = true) /\\ "
     "(receive_end m (h1_conn_end secure shutdown) (WClosed r) = WBroken <-> secure = true /\\ shutdown = false)) /\\ "
     "(end_delimited m r = false -> receive_end m (h1_conn_end secure shutdown) (WClosed r) = WClosed r) /\\ "
     "(forall (ce : conn_end) (w : wreply), (forall x : resp, w <> WClosed x) -> receive_end m ce w = w)"),
    ("close_without_notify_refuted",
     "exists checked ops alt e416 exs body, Forall ex_ok exs /\\ body <> [] /\\ "
     "pair_hist_end false checked ops alt e416 H1 true true exs = [Some (Ok WBroken)] /\\ "
     "pair_hist_end false checked ops alt e416 H1 true false exs = "
     "[Some (Ok (WClosed (mkResp V11 200 [(B \"content-type\", B \"text/plain\"); (B \"connection\", B \"close\")] body)))] /\\ "
     "pair_hist_end false checked ops alt e416 H2 true true exs = "
     "[Some (Ok (WResp (mkResp V2 200 [(B \"content-type\", B \"text/plain\")] body)))] /\\ "
     "pair_hist_end true checked ops alt e416 H1 true true exs = "
     "[Some (Ok (WClosed (mkResp V11 200 [(B \"content-type\", B \"text/plain\"); (B \"connection\", B \"close\")] body)))]"),
    ("head_accepted_by_both",
     "8 * H1_MAX_HEAD < H2_MAX_HEADER_LIST /\\ "
     "forall (limit : N) (authority m t : bytes) (h : headers), 8 * H1_MAX_HEAD < limit -> h1_head_ok authority m t h = true -> "
     "h2_head_ok limit authority m t h = true /\\ N.of_nat (length h) <= 4096"),
    ("small_header_list_limit_refuted",
     "exists (authority m t : bytes) (h : headers), h1_head_ok authority m t h = true /\\ h1_head_len authority m t h < 5000 /\\ "
     "h2_head_ok H1_MAX_HEAD authority m t h = false /\\ h2_head_ok H2_MAX_HEADER_LIST authority m t h = true /\\ "
     "run_head_gen H1_MAX_HEAD (XL [XL []; XL [XB m; XB t; x_headers h; XB []]]) = XL [XL [XN 200]; XL [XN 431]] /\\ "
     "run_head (XL [XL []; XL [XB m; XB t; x_headers h; XB []]]) = XL [XL [XN 200]; XL [XN 200]]"),
    ("reset_stream_is_its_own", "forall qs : list h2req, h2_answered true qs = h2_reset_spec qs"),
    ("reset_limited_stream_v0_refuted",
     "exists qs : list h2req, map hq_reset qs = [false; false; false; false; true; false] /\\ "
     "h2_answered false qs = ([(7, 429)], false) /\\ "
     "h2_answered true qs = ([(1, 200); (3, 200); (5, 200); (7, 429); (11, 429)], true) /\\ "
     "h2_reset_spec qs = ([(1, 200); (3, 200); (5, 200); (7, 429); (11, 429)], true)"),
    ("bodiless_status_answer",
     _SEND + " (p : proto) (secure : bool) (alt : option bytes) (m : N) (path_ok : bool) (r w : resp), "
     "ends_with_head (rs_status r) = true -> "
     "send checked error_page vn pkg p secure alt m (sd_of path_ok None) r = Ok (WResp w) -> "
     "rs_body w = [] /\\ rs_status w = rs_status r"),
]

RULE = ("Real kvarn::handle_connection on loopback TCP pairs, TLS by a rustls ServerConfig from HostCollection::make_config (ALPN from "
        "host::alpn(), self-signed rcgen certificate on the host, as kvarn_testing::ServerBuilder builds it). (1) proto.pair: the SAME "
        "history of 4-14 requests is sent over one HTTP/1.1 connection (raw client with strict content-length framing; over TLS with ALPN "
        "http/1.1, or plain TCP) to host A and over one HTTP/2 connection (h2 crate client over tokio-rustls, ALPN h2) to an identical "
        "fresh host B; the ALPN result is asserted. Hosts: response cache on/off (every directed history runs on both) x handler pages "
        "(compressible text with ServerCachePreference Full / None, QueryMatters page echoing path?query, method echo, a page whose "
        "handler sets its own content-length, empty body, 404/500 handler pages, 204 pages on which the handler left a body - one also a "
        "transfer-encoding -, a page with two vary rules) + pages whose handlers leave CONNECTION-SPECIFIC "
        "headers: every single one of keep-alive, proxy-connection, transfer-encoding, upgrade, te (gzip / trailers) WITHOUT a connection "
        "header, all at once, with connection: close / keep-alive / upgrade, connection nominating a custom header, and three pages per "
        "random host with seeded random subsets + STREAMED responses (a ResponsePipeFuture writing known chunks incl. an empty one: "
        "with_future_and_len, with_future + the handler's own content-length, a Response body followed by a future, 81 kB = more than an "
        "HTTP/2 window, a slow future, an empty stream, an error status, and - as the LAST request of a history - with_future WITHOUT any "
        "length: HTTP/2 ends the stream, HTTP/1 answers connection: close and has to end the connection within 2.5 s of its last byte, "
        "the client reads the body up to that end; extensions::stream_body() on files of 0 B / 180 B / 100 kB) + "
        "files (text, binary, index.html) + missing paths + unsafe paths (/./x) + echo handlers that read the request body completely "
        "(/echo, read_to_bytes(1 MiB)) or only its first 3 / 100 / 20000 / 33000 bytes - and echo UNCUT what read_to_bytes returned; "
        "Package menus (or_insert / insert / remove / append, 0-3 extensions in priority order); two hosts per run with the request "
        "LIMITER on (the first k requests pass, the rest - GET, HEAD, POST with a body, and the framing sentinel - are answered 429 by "
        "handle_connection); two hosts per run with 64 KiB and 1 MiB compressible pages (identity / gzip / br, cold and cached, ranged, HEAD; "
        "the h2 client keeps 65535-byte windows). Requests: GET/HEAD/POST/OPTIONS/PUT/DELETE/PATCH/PURGE (an extension method) x Accept-Encoding {none, gzip, br, identity, "
        "gzip;q=0, *;q=0 identity;q=0 (406)} x Range around the length of the ENCODED representation and of the streamed files (a>b, "
        "a=len, beyond the end, open forms) x If-Modified-Since (future / past / garbage; cold and warm cache) x Origin x query strings x "
        "REQUEST BODIES of 1 B - 150 kB (around the limits of the partial readers, around the 16384-byte DATA frame size and around the "
        "HTTP/2 initial window 65535; position-stamped so that a prefix is recognisable) sent to whatever answers: a handler that reads "
        "all, part or nothing of it, streamed pages, files (405), missing paths, cache hits, refused Ranges (416), unsafe paths (400), the "
        "limiter (429) - written with the head, some ms later, or (unread ones) only after the answer has been read - each followed by "
        "the rest of the history on the SAME connection and a sentinel request that checks the framing. proto.answered: histories of "
        "such requests; (every request answered on HTTP/1.1?, on HTTP/2?) against the model's connection loop and the specification "
        "(yes, yes); a 'no' counts only if three runs agree. Oracles: (a) parity itself, independent of the model: status, all headers "
        "except {connection, keep-alive, proxy-connection, transfer-encoding, upgrade, te, content-length, alt-svc} as sorted multisets "
        "(last-modified value masked) and body bytes of the two protocols are equal, a HEAD answer and a 1xx/204/304 answer have no body, "
        "content-length = body length (none only when the body ended with the connection), never content-length next to "
        "transfer-encoding on HTTP/1.1, only the last answer of a history may end the HTTP/1.1 connection; (b) both equal the Coq "
        "specification proto.pair_spec (no body for 1xx/204/304, range_spec of C09 on the layer-4 response - not on streamed ones -, "
        "the 416 page with vary: accept-encoding, range + the names of the path's vary rules, package menu on end-to-end headers, "
        "body ++ streamed bytes unless HEAD, the limiter's page as it is); (c) the complete wire "
        "answers (version, every header incl. content-length / connection / alt-svc) equal the extracted pipe-level model send_pipe H1 / "
        "H2. The layer-4 response of every request (kvarn::handle_cache's CacheReply), WHAT ITS FUTURE WRITES (driven in process through "
        "a plain pipe) with the overridden length, the host's 416 page and the limiter's 429 page are observed in process on a third "
        "identical fresh host running the same history (proto.l4) and are inputs of model and spec. proto.server: a sample of the "
        "histories through two complete servers started by RunConfig::execute on loopback ports (claimed through lock files: unique among "
        "all harness processes; listener, accept loop, TLS + ALPN, connection tasks, graceful shutdown), same model and oracles. "
        "(2) proto.burst: 2-100 requests sent AT ONCE as streams of one HTTP/2 connection (proto.burst2: spread over TWO connections "
        "open at once) to one fresh host on a multi-thread runtime: H_slow handlers sleeping a seeded 0-250 ms so that handlers finish "
        "in a seeded order unrelated to the stream order, several streams per page, cacheable and uncacheable pages, cache on/off, "
        "HEAD, ranges, Accept-Encoding, files, streamed pages, 404s, POST echo with a distinct body per stream (up to 70 kB, partly read "
        "ones too), bodies nobody reads, and ~12 % of the slow streams CANCELLED by the client (RST_STREAM(CANCEL) 0-150 ms after the "
        "request: before, while or after the handler runs); proto.burst1: the same burst over as many concurrent HTTP/1.1 TLS "
        "connections (cancelled = the client goes away). Oracle: every stream that was not cancelled receives the answer send_pipe H2 "
        "(H1) gives the layer-4 response of ITS request alone on a fresh host (proto.burst_spec), equal to the two-block task model run "
        "in the schedule derived from the delays, and to what the real server answers the same request alone over a fresh connection "
        "(proto.alone / proto.alone1); the connections answer a sentinel afterwards. (3) proto.body: a handler calling "
        "read_to_bytes(l) on a body of 1 B - 150 kB sent over HTTP/1.1 (a seeded part of it in the same write as the head) and over "
        "HTTP/2 in DATA frames of seeded lengths (1 .. 16384, one send_data each): what each call returned on each protocol against "
        "the transcribed loops (h1_read_to_bytes / h2_read_loop) and the specification (the first min(l, length) bytes on both). "
        "(4) proto.sbody: extensions::stream_body() in process on files and Ranges (inside, across, at and beyond the end): bytes written, "
        "length announced, status and content-range against stream_plan / stream_head, and against an oracle written in Python (the "
        "requested part of the file, length = bytes written, 206 + content-range: bytes first-last/length for a Range, 200 without; "
        "416 exactly when the Range starts at or after the end). (5) REQUEST HEADS: requests with 100 - 1000 small header fields "
        "(`x-fNNNN: v`: 1 - 12 kB as an HTTP/1 head, 4 - 42 kB as an HTTP/2 header list, where every field counts name + value + 32) and with "
        "a few very long values, up to an HTTP/1 head of exactly 16384 bytes, are part of the histories of (1) (a directed history, run "
        "cached and uncached, and ~6 % of the random requests; GET / HEAD / POST with a body, pages, files, 404, streamed); "
        "proto.head: one request to a page that answers 200 over a fresh HTTP/1.1 (TLS) and a fresh HTTP/2 connection - 0 .. 2500 "
        "small fields, heads of 16383 / 16384 / 16385 / 16391 / 20000 bytes made of one long value or of 1200 fields, random ones - "
        "against the model of the two front ends (HTTP/1: answered iff the head is at most 16384 bytes, else the connection is ended "
        "without an answer; HTTP/2: answered, the header list staying below h2's default limit) and the specification (a request the "
        "HTTP/1 front end answers is answered the same over HTTP/2; 'not answered' counts only if a second run agrees). "
        "(6) proto.rst: STREAMS THE CLIENT HAS RESET, on an HTTP/2 connection (TLS, ALPN h2) whose frames the harness writes by hand: the "
        "preface, SETTINGS, one HEADERS frame per request (2 - 24 requests: pages whose handlers sleep 0 - 250 ms, pages, files, 404, 204, "
        "streamed) and RST_STREAM(CANCEL) for 0 - 4 of them IN ONE WRITE, so that the server's accept loop is handed streams that are "
        "already reset - on hosts without and with the request limiter (the first k requests pass, the rest are answered 429 by the loop "
        "itself): the streams that were answered completely, their status (HPACK: static index or literal, the dynamic table switched off) and "
        "whether the connection still answers a PING, against the model of the accept loop (h2_accept_loop) and the specification "
        "(every stream that was not reset is answered - 200 / 404 / 204 / 429 - and the connection goes on; an outcome in which the "
        "connection ended counts only if a second run agrees). "
        "THE END OF AN HTTP/1.1 CONNECTION: the client records HOW a connection ended after `connection: close` - over TLS orderly = "
        "the close_notify alert arrived before the end of the TCP stream (rustls reports its absence), over plain TCP = FIN, not a "
        "reset. A body that only the end of the connection delimits (no content-length, not HEAD) counts as received only after an "
        "orderly end - what a strict client does, as an end without close_notify cannot be told from a truncation -, otherwise the "
        "exchange fails with 'body not cleanly terminated' (an outcome when three runs agree: VIOLATION); an unclean end after an answer "
        "that is complete without it is the wire tag 6, which the model never predicts. A failure of an exchange that is a time-out or a connection that cannot be opened "
        "is never an outcome (the case is run again, then counted as not executed); any other failure is an outcome only when it repeats "
        "identically on three runs with fresh hosts. distinct_nontrivial = distinct (input, sequence of (status, cache/encoding class)) pairs")
ASSUMPTIONS = [
    "Package extensions are oblivious to the response version and to connection-level headers (pkg_oblivious) and leave content-length "
    "alone (pkg_keeps_length: on HTTP/1 that header is the framing); both proved for the harness's menu whenever it names no hop header "
    "(pkg_menu_is_oblivious, pkg_menu_keeps_content_length); status rewriting by a Package extension is not modelled",
    "h2's check_headers (the only condition under which the h2 crate refuses a response head) is transcribed; h2_never_refuses / "
    "connection_headers_filter_total show the repaired HTTP/2 arm never triggers it, for every header set",
    "the client's framing is part of the model (receive): an HTTP/1.1 body is the content-length bytes after the head (none for HEAD), "
    "an HTTP/2 body the DATA frames up to END_STREAM, refused by the h2 client when they contradict a content-length or follow a HEAD "
    "answer - transcribed from the harness's raw HTTP/1.1 client and observed behaviour of the h2 0.4 client, not from a specification "
    "of all clients",
    "streamed responses: the length a handler announces (with_future_and_len, or its own content-length with with_future) is the "
    "number of bytes Response::body and the future write, or no length is announced at all and no transfer-encoding either "
    "(fut_framed) - proved for extensions::stream_body() as repaired (stream_body_framed), a precondition on other handlers; a "
    "handler that frames its stream itself (transfer-encoding: chunked on a with_future response) is outside; a future that gives up "
    "at the first failed write; WebSocket futures (a 101 head: the future is the protocol switch, not a response body - the "
    "exception of repair d63bba7 is transcribed, a HEAD request answered 101 is outside the history theorems) and Post extensions "
    "are outside; no range is applied to a streamed response (kvarn's is_stream) - stream_body slices the file itself "
    "(stream_body_as_in_memory: as apply_to_response does for a body in memory)",
    "an answer that ends the HTTP/1 connection (a streamed body of unknown length, repair 7334433) is the LAST of a history on one "
    "connection (pair_history_answered; close_delimited_not_last_refuted shows what follows it is not answered on that connection "
    "while the HTTP/2 connection goes on - the client has to open another connection: a difference of connections, not of answers); "
    "the client's view of such an answer (body = everything up to the end of the connection, which the server brings about itself) is "
    "part of receive; and the body is complete only if that end is an orderly one (receive_end: over TLS the close_notify alert of "
    "HttpConnection::shutdown - RFC 8446 6.1, what hyper / curl require; over plain TCP the FIN) - "
    "close_delimited_complete_iff_close_notify; the harness's client reports how the connection ended",
    "the names of the vary rules of a request's path (the 416 page advertises them, repair 21f0154) are the host's configuration: an "
    "input of model and specification, taken from the generator's own host description",
    "stream_independence: the handler contract of C03 (response a function of method class, path, vary tuple and - for "
    "QueryMatters - the query; uniform query-matters-ness per path; error responses uncacheable), requests without "
    "If-Modified-Since (a conditional request is answered 304 or 200 depending on whether another stream has filled the cache "
    "- legitimately order-dependent), the cache's last-modified wall-clock stamp masked; task granularity = two atomic blocks "
    "(lookup / insert) separated by the await on the handler; moka as a finite map whose capacity is never reached; a stream the "
    "client cancels is a stream whose answer is not observed (its task may run none, one or both of its blocks: every schedule is "
    "covered); the tasks of two connections to one host share exactly what the tasks of one connection share (the host)",
    "streams the client resets (reset_stream_is_its_own): which requests the limiter answers is an input (C12's); a stream that "
    "is reset and handed to a task is that task's business (its failing writes end the task, stream_independence covers its effects "
    "on the cache); a task's answer reaches the client if the connection is still polled when it is written - true of the repaired "
    "loop for every batch; the 409 answer for an unknown host ends the connection by design and is not part of the batches; beyond "
    "3 * limit requests the limiter drops the connection (LimitAction::Drop, by design: not generated)",
    "compression: the representation clone_preferred chooses is a function of request and response, not of the cache path "
    "(the harness gives compression_options_oneshot = compression_options_cached); which bytes a compressor emits is external: "
    "the layer-4 response is observed, not predicted",
    "requests both protocols can express: lower-case header names, no host/connection/keep-alive/transfer-encoding/upgrade/te "
    "request headers, origin-form target, a request body announced by content-length on both protocols and sent completely; a "
    "request HEAD both front ends accept: at most 16384 bytes as an HTTP/1 head (request line, `host`, field lines, blank line - "
    "kvarn ends the connection without an answer beyond that: h1_head_ok, observed by proto.head) - head_accepted_by_both proves "
    "that the HTTP/2 front end (h2's header-list accounting, limit 16 MiB, and its 24576-field cap) then accepts it too, so this is "
    "the only head limit in the domain; requests beyond it (answered over HTTP/2 only) are outside the property's quantifier and "
    "are exercised against the model only; no "
    "HTTP/2 server push, HTTP/3 not exercised (UDP/QUIC); the 409 answer for an unknown host is modelled (send_direct) but not "
    "exercised (every request reaches the one host)",
    "request bodies only with methods whose content-length kvarn's HTTP/1 reader honours (utils::get_body_length_request returns 0 "
    "for GET/HEAD/OPTIONS/CONNECT/TRACE whatever content-length says - as in C08, a GET that carries a body is outside: the "
    "hypothesis body_declared of history_parity / pair_history_answered; undeclared_request_body_refuted shows in the model that "
    "such a GET's late body bytes are read as the next request line on HTTP/1.1 and not on HTTP/2, and the witness - GET /p with "
    "content-length: 5 and 'hello' written after the answer, then GET /p - is replayed on the real code on every run: known class "
    "h1-undeclared-request-body, the only input of that kind the generators send); history_parity additionally assumes that no "
    "answer makes a task panic, which send_never_panics proves for every sanitize_data that sanitize_request can produce and "
    "bodies below 2^64 bytes",
    "which bytes a handler gets: read_to_bytes_parity is about the FIRST read_to_bytes call of a handler (every body, every framing, "
    "every limit; the HTTP/1 client sends exactly the declared bytes); a handler that calls it again after a call that hit its limit "
    "is the known class h2-body-read-again (second_read_refuted; its witness is replayed on every run and is the only such input); a "
    "first limit of 0 is not generated (HTTP/1 then leaves content_length untouched, HTTP/2 drops the first frame); a handler's answer "
    "is a function of the request and of the bytes it read - equal bytes, equal answers",
    "the HTTP/1 client writes the declared body with the head, a few ms after it, or - for targets whose handlers never read a "
    "body - only after it has read the answer (then Http1Body::drain has to take all of it from the connection; this is the only "
    "segmentation that decides a verdict, and it does not depend on timing); bodies <= 150 kB, answers to unread ones < 1 kB: no "
    "write-write deadlock. In the repaired code the segmentation decides nothing for declared bodies (history_parity quantifies "
    "over it)",
]
TRUSTED = [
    "modelled (Model/Protocols.v): src/lib.rs handle_connection (alt-svc append, per-request task for HTTP/2, the way the HTTP/1 request "
    "loop is left - break, then HttpConnection::shutdown: close_notify on TLS; shutdown = false is the variant that returns instead -, "
    "the HTTP/2 accept loop with streams the client has reset: the limiter's 429 written by the loop itself, its failure on a reset "
    "stream - ClientRefusedResponse - now a continue: fix 38c6abd, cont = false is the code before, which returned and dropped the "
    "connection with every unwritten answer; "
    "the request-head limits of the two front ends: HttpConnection::accept's 16 * 1024 for kvarn_async::read::request and - h2 0.4 "
    "frame/headers.rs load_hpack, transcribed - name + value + 32 per field against h2's default header-list limit, which "
    "HttpConnection::new leaves in place; the HTTP/1 request loop "
    "with the fate of a request body: Http1Body::new's early bytes, read_to_bytes(l) taking min(declared, l), Http1Body::drain of "
    "fix dfe4d54 - and the loop before that fix as the variant drain = false; the limiter's 429 / the 409 answer: send_direct), "
    "SendKind::send as merged on /repo main (the body of a 1xx/204/304 dropped: 89e2956; range application - not to a 304: 9ae9b1a - "
    "incl. the 416 replacement with vary::apply_header_from_settings: 21f0154 - skipped for streamed responses -, the overridden "
    "length, ensure_length, ensure_version, resolve_package, then the OPERATIONS ON THE PIPE in order: send_response(head, false), "
    "the body unless HEAD, the future's writes - not for HEAD unless the head is a 101: fix d63bba7, head_future = true is the code "
    "before -, close), handle_connection's close_delimited (7334433: the HTTP/1 connection is not reused after a streamed response "
    "of unknown length), src/application.rs ResponsePipe::{ensure_length (HTTP/1: content-length set, transfer-encoding removed: "
    "3c296af), ensure_version, send_response (HTTP/1: connection: close when nothing frames the body, else the keep-alive rule)} and "
    "ResponseBodyPipe::{send_with_maybe_close, close} HTTP/1 and HTTP/2 arms (remove_connection_specific_headers, END_STREAM, "
    "send_data failing on an ended stream), Body::read_to_bytes HTTP/1 (Http1Body with its offset, as repaired for C07: 9c56fae, "
    "2820a60, eedb756) and HTTP/2 (the DATA-frame loop) arms; utils::get_body_length_request; vary::get_header / apply_header for the "
    "416 page; extensions::stream_body's range arithmetic, status and content-range (stream_plan / stream_head; fix d675f8a, "
    "clamp = false is the code before); "
    "h2 0.4 proto/streams/send.rs check_headers (the only h2 logic transcribed)",
    "NOT modelled, exercised only: rustls (handshake, records, ALPN selection, the close_notify alert itself and its detection by the "
    "client's rustls), h2 (HPACK, flow control incl. the WINDOW_UPDATEs "
    "Body::read_to_bytes releases, the windows a 1 MiB / streamed 81 kB answer needs, and the RST_STREAM(NO_ERROR) after an answer "
    "whose request body was not read, frame scheduling and the splitting of send_data into frames, stream state machine, RST_STREAM "
    "from the client, the client-side content-length check), tokio task scheduling (multi-thread runtime, 3 workers), moka; "
    "src/encryption.rs; the request head reader (kvarn_async::read::request is C07's); kvarn's rate limiter (C12's: which requests it "
    "limits is an input here)",
    "layer 4 (handle_cache and below) is C03's model in the theorems and an OBSERVATION of the real handle_cache on an identical "
    "fresh host in the correspondence (proto.l4: response, sanitize class, what the response's future writes and the overridden "
    "length); the twin hosts are deterministic functions of the configuration",
    "harness/src/c20.rs: the hand-written HTTP/2 client of proto.rst (frame headers, HPACK literals without indexing for the request, "
    ":status decoded from the static index or a literal incl. the Huffman code of three digits, SETTINGS_HEADER_TABLE_SIZE = 0, PING); "
    "raw HTTP/1.1 client (strict status line / header / content-length framing, sentinel request; how a connection "
    "ended is taken from tokio-rustls: read = 0 only after close_notify, an error otherwise), h2 client "
    "driver, rcgen certificate, Package / H_slow / echo / echon / echo2 / stream / read-body extensions; header multisets are sorted "
    "before comparison, the value of last-modified is masked; the echo handlers echo what read_to_bytes returned UNCUT on a "
    "connection (only the in-memory Body::Bytes of the layer-4 probe, which ignores the limit and is neither protocol, is cut to "
    "the limit: that yields the specification 'the first l bytes'); the classification of failures into harness trouble / outcome "
    "(is_trouble, three agreeing runs)",
]
LEVEL_TEXT = ("partial. Machine-checked Coq theorems (37, statements pinned) over an executable model of the protocol-dependent path above "
              "the shared layer 4 of C03: protocol_parity / send_parity (for every host configuration, cache state, request, layer-4 "
              "response, TLS or plain HTTP/1 connection and oblivious Package chain the HTTP/1.1 and HTTP/2 answers are equal after "
              "dropping the version and exactly the headers connection, keep-alive, proxy-connection, transfer-encoding, upgrade, te, "
              "content-length, alt-svc - proved, not sampled: nothing else differs; h2_never_refuses and "
              "connection_headers_filter_total: for EVERY header set - every subset of the connection-specific headers, with or "
              "without connection - the head the repaired HTTP/2 arm hands to h2 passes h2's check and no end-to-end header is "
              "touched), head_parity (HEAD = GET minus body on both protocols); the RESPONSE PIPE: send_is_pipe_send (the model "
              "of the operations on the pipe - head, body unless HEAD, close - and of the client's framing of what arrives IS send), "
              "streamed_answer and stream_parity (a response with a streaming future, every chunk list, method and protocol: the "
              "client receives one well-framed response whose body is Response::body followed by what the future wrote - nothing "
              "for HEAD - and the two protocols agree up to the same filter, whenever the announced length is the number of bytes "
              "written OR NO LENGTH IS ANNOUNCED: then the HTTP/1 body ends with the connection, which the model closes, the HTTP/2 "
              "body with the stream; stream_body_framed and stream_body_as_in_memory: extensions::stream_body as repaired on /repo "
              "main meets that for every file and Range and answers a Range exactly as apply_to_response does for a body in "
              "memory - 416 / 206, content-range, bytes), the repairs made for other properties as they show on both protocols "
              "(range_not_satisfiable_page: the 416 page carries the vary header of the path's rules; bodiless_status_answer: no "
              "body after 1xx/204/304; ensure_length's removal of transfer-encoding and the connection: close rule are part of "
              "send / send_pipe and hence of every parity theorem), "
              "limiter_answer_parity (the 429 / 409 answers handle_connection sends itself); stream_independence (for every set of "
              "concurrent streams and EVERY schedule of the tasks' lookup and completion blocks over the shared response cache, every "
              "stream receives byte for byte the HTTP/2 answer of its own request alone, under C03's handler contract - cancelled "
              "streams and a second connection are covered by the quantification over schedules), streams_answered_exactly_once; "
              "REQUEST BODIES: history_parity (for every host configuration and state and EVERY history of requests on one "
              "connection, each with a declared request body of any length that its handler reads completely, in part or not at "
              "all, segmented arbitrarily: the repaired HTTP/1 connection, like the HTTP/2 one, answers every request, by the "
              "application in the state its predecessors left, and the two answer sequences are equal up to the same filter; "
              "hypothesis: no answer panics, discharged by send_never_panics), read_to_bytes_parity (for every body, every cut "
              "into DATA frames, every amount arriving with the HTTP/1 head and every limit the first read_to_bytes(l) returns the "
              "first l bytes on both protocols; read_to_bytes_resumes: with the repaired Http1Body a reader that took part of the "
              "body through AsyncRead gets the bytes that follow), pair_history_answered (the executable history model of the "
              "correspondence - ordinary, streamed, unknown-length and limiter-answered exchanges - equals its specification on "
              "every input of the domain in which at most the last answer ends the HTTP/1 connection); THE END OF THE CONNECTION: "
              "close_delimited_complete_iff_close_notify (an answer whose body only the end of the HTTP/1 connection delimits is "
              "complete iff that end is orderly - over TLS iff handle_connection shut the connection down, i.e. close_notify was "
              "sent; every other answer is complete whatever the end) and connection_end_keeps_histories (with the shutdown the "
              "code performs after leaving the request loop by break - and on plain TCP in any case - the history model with the "
              "connection end in it, which is what the correspondence runs, IS the one of the history theorems); REQUEST HEADS: "
              "head_accepted_by_both (every request head the HTTP/1 front end accepts - at most 16384 bytes - is below any HTTP/2 "
              "header-list limit above 128 KiB, in particular h2's default 16 MiB which kvarn leaves in place, and has at most 4096 "
              "fields: no request is answered over HTTP/1.1 and refused 431 over HTTP/2); RESET STREAMS: reset_stream_is_its_own "
              "(for every batch of HTTP/2 streams - answered by the limiter or by tasks of their own, reset by the client or not, in any "
              "combination - every stream that was not reset receives its own answer and the connection is still served); and "
              "ten witnesses: reset_limited_stream_v0_refuted (before fix 38c6abd a reset stream that the limiter answers ended the whole "
              "connection: of six streams only the 429 written before it arrived), close_without_notify_refuted (leaving the request loop by return instead of break: the streamed answer "
              "of unknown length is complete over HTTP/2 and plain HTTP/1.1 and cannot be told from a truncated one over TLS), "
              "small_header_list_limit_refuted (16 KiB as HTTP/2 header-list limit is not 'the same limit' as the 16 KiB HTTP/1 head: "
              "450 small fields, a head of 4.5 kB, are answered 200 over HTTP/1.1 and 431 over HTTP/2), close_delimited_not_last_refuted (after a streamed answer of unknown length the HTTP/1 connection "
              "answers nothing more, the HTTP/2 one does: the client opens another connection; each answer is the same), head_end_of_stream_refuted (why the head must not carry END_STREAM when Response::body is empty), "
              "unread_request_body_v0_refuted (the loop before fix dfe4d54), head_stream_v0_refuted (before fix "
              "d63bba7 a HEAD for a streamed response got the streamed bytes: broken framing on both protocols), "
              "stream_body_v0_refuted (before fix d675f8a stream_body announced more bytes than it sent for a Range beyond the "
              "file), undeclared_request_body_refuted and second_read_refuted (the two known classes). The model is tied to /repo "
              "on every run by real TLS loopback connections through kvarn::handle_connection with an HTTP/1.1 and an HTTP/2 "
              "client (full wire answers vs. the extracted model, parity and specification oracles; streamed responses, every "
              "connection-header subset, limiter answers, 64 KiB / 1 MiB compressed bodies, cached and uncached; bursts of up to 100 "
              "streams with seeded handler delays, cancelled streams and two connections vs. each request alone; histories with "
              "unread / partly read / large request bodies; what read_to_bytes returns per protocol; requests with up to 1200 "
              "header fields and heads of exactly 16384 bytes through both protocols, the two front ends at and beyond the HTTP/1 "
              "head limit; how every HTTP/1.1 connection that the server ends is ended - close_notify or not). NOT proved, only exercised "
              "by that run: everything inside the h2 and rustls crates - HPACK, flow control, frame splitting and scheduling, stream "
              "state machine, RST_STREAM handling, TLS and ALPN - and the tokio scheduler; the concurrency theorem is about "
              "sequentially consistent interleavings of two atomic blocks per task. Three kvarn defects found by these rounds were "
              "repaired (d63bba7, d675f8a, 38c6abd) and are part of the claim, as is the former known class h1-unread-request-body (dfe4d54); "
              "the model describes /repo main with the repairs of all properties merged (7334433, 89e2956, 3c296af, 21f0154, "
              "9ae9b1a, the Http1Body repairs of C07, the request-parser repairs aca6293 / 2dbf4ed on the input side). "
              "Two known classes, both outside the property's quantifier: h1-undeclared-request-body (kvarn's HTTP/1 reader ignores "
              "the content-length of GET / HEAD / OPTIONS by design, so body bytes of a GET that arrive after its head break the "
              "HTTP/1.1 connection and not the HTTP/2 one) and h2-body-read-again (a handler calling read_to_bytes a second time "
              "after a call that hit its limit gets nothing on HTTP/1.1 and the later DATA frames on HTTP/2; Body::Http2 has no "
              "place to remember it); the theorems carry the hypotheses, both witnesses are replayed on every run.")
LEVEL_NOTE = ("Trusted: Coq kernel; extraction (sample re-checked in-kernel); the hand transcription of SendKind::send / ResponsePipe / "
              "ResponseBodyPipe / Body::read_to_bytes / handle_connection's request loop / stream_body's range arithmetic into "
              "Model/Protocols.v and of the clients' framing into receive, as validated by the differential run; h2 and rustls as "
              "black boxes (of h2 only check_headers and the header-list accounting of load_hpack are transcribed; that rustls's close_notify "
              "is what HttpConnection::shutdown sends and what the client detects is observed, not modelled); layer 4 and stream "
              "futures observed on a twin host; request heads of at most 16384 bytes; request bodies only where kvarn's HTTP/1 reader "
              "honours content-length (not GET/HEAD/OPTIONS), first read_to_bytes call only. No axioms.")
TECHNIQUE = ("Coq proof (equality up to an explicit header filter; a small-step model of the response pipe with the client's framing; "
             "inductive invariant over all schedules, reusing C03's simulation; induction over DATA frames) + differential "
             "correspondence over real TLS connections with both protocols")

# The extracted model recurses over byte lists (List.length, firstn, ++ are not tail-recursive): a 1 MiB body needs more than the
# default 8 MiB of stack.  The model driver and the harness are children of this process: give them the hard limit.
try:
    _soft, _hard = resource.getrlimit(resource.RLIMIT_STACK)
    resource.setrlimit(resource.RLIMIT_STACK, (_hard, _hard))
except (ValueError, OSError):
    pass

PAIRS = ("proto.pair", "proto.server")
ALT = b'h3=":8443";ma=2592000'
HOP = {b"connection", b"keep-alive", b"proxy-connection", b"transfer-encoding", b"upgrade", b"te", b"content-length", b"alt-svc"}

TEXT = (b"The quick brown fox jumps over the lazy dog. " * 6)[:240]
BIN = bytes((i * 37 + 11) % 251 for i in range(300))
INDEX = b"<!doctype html><html><head><title>index</title></head><body>" + b"<p>paragraph</p>" * 8 + b"</body></html>"


# ----------------------------------------------------------------------------------------------
# hosts
# ----------------------------------------------------------------------------------------------
def H(path, body, kind=0, status=200, headers=(), spref=2, cpref=0, compress=False):
    return xl(xb(path), xn(kind), xn(status), xb(body), xlist([xl(xb(a), xb(b)) for a, b in headers]), xn(spref), xn(0), xn(cpref),
              xbool(compress), xlist([]))


PKG_MENUS = [
    [],
    [(10, 1, b"referrer-policy", b"no-referrer"), (-1327, 0, b"server", b"Kvarn/verif")],
    [(5, 3, b"x-pkg", b"a"), (4, 3, b"x-pkg", b"b"), (-3, 2, b"x-h", b"")],
    [(7, 0, b"content-type", b"application/octet-stream"), (2, 1, b"cache-control", b"no-store")],
    [(1, 2, b"vary", b""), (9, 1, b"x-frame-options", b"deny")],
]


# handlers that read only the first n bytes of the request body (read_to_bytes(n)); /echo reads all of it (up to 1 MiB).
# The two large limits are reached inside the second / third DATA frame of a large body (HTTP/2 frames: 16384 bytes).
ECHON = {b"/echo3": 3, b"/echo100": 100, b"/echo20k": 20000, b"/echo33k": 33000}
READS = dict(list(ECHON.items()) + [(b"/echo", 1 << 20)])

# ---- streamed responses (FatResponse::with_future / with_future_and_len) ----
CHUNKS = [b"first chunk of the streamed body\n", b"", b"second chunk, a little longer than the first one\n", b"third and last chunk\n"]
BIGCHUNKS = [bytes((i * 7 + k) % 251 for i in range(9000)) for k in range(9)]       # 81000 bytes: more than one HTTP/2 window


def ST(path, body, chunks, ln, headers, status=200, delay=0):
    return (path, body, tuple(chunks), ln, tuple(headers), status, delay)


def _tot(body, chunks):
    return len(body) + sum(map(len, chunks))


STREAMS = [
    ST(b"/st1", b"", CHUNKS, _tot(b"", CHUNKS), [(b"content-type", b"text/plain")]),
    # with_future: kvarn is told no length, the handler states it itself
    ST(b"/st2", b"", CHUNKS, None, [(b"content-type", b"text/plain"), (b"content-length", b"%d" % _tot(b"", CHUNKS))]),
    # a Response body AND a future: head, body, future, close
    ST(b"/st3", b"body first, then ", CHUNKS, _tot(b"body first, then ", CHUNKS), [(b"content-type", b"text/plain"), (b"x-h", b"st3")]),
    ST(b"/st4", b"", BIGCHUNKS, _tot(b"", BIGCHUNKS), [(b"content-type", b"application/octet-stream")]),
    ST(b"/st5", b"", CHUNKS, _tot(b"", CHUNKS), [(b"content-type", b"text/plain"), (b"keep-alive", b"timeout=5")], delay=4),
    ST(b"/st0", b"", [], 0, [(b"x-h", b"st0")]),
    ST(b"/st404", b"", [b"streamed not found page"], 23, [(b"content-type", b"text/plain")], status=404),
    # with_future and NO content-length: a body of unknown length.  HTTP/2 ends the stream; HTTP/1 (repair 7334433) says
    # connection: close and ends the connection - the LAST request of a history only (see closing_request)
    ST(b"/st6", b"head of the body, ", CHUNKS, None, [(b"content-type", b"text/plain"), (b"x-h", b"st6")]),
]
STREAM_PATHS = [t[0] for t in STREAMS]
CLOSING = (b"/st6",)
# vary rules of the host (name, transformation id of the harness, default): the 416 page that replaces a response
# advertises them (repair 21f0154)
VARY_RULES = {b"/m": [(b"x-custom", 2, b"d"), (b"accept-language", 3, b"k")]}


def vary_names(target):
    return [n for n, _, _ in VARY_RULES.get(target.split(b"?")[0], [])]
SFILE = bytes((i * 7 + 3) % 256 for i in range(100000))
STEXT = b"hello stream body\n" * 10
SFILES = [("public/sf/a.bin", SFILE), ("public/sf/t.txt", STEXT), ("public/sf/e.txt", b"")]
SF_PATHS = [b"/sf/a.bin", b"/sf/t.txt", b"/sf/t.txt", b"/sf/e.txt", b"/sf/missing.txt"]

# ---- connection-specific headers (RFC 9113 8.2.2) a handler may leave on its response: every subset, with and without
#      `connection`, and `connection` nominating a custom header ----
HOP_MENU = [(b"keep-alive", b"timeout=5"), (b"proxy-connection", b"keep-alive"), (b"transfer-encoding", b"identity"),
            (b"upgrade", b"h2c"), (b"te", b"gzip"), (b"te", b"trailers")]
CONN_VALUES = [None, None, b"keep-alive", b"close", b"x-nominated", b"upgrade"]


def hop_page(path, subset, conn, extra=()):
    hs = [(b"content-type", b"text/plain")] + list(subset) + list(extra)
    if conn is not None:
        hs.append((b"connection", conn))
        if conn == b"x-nominated":
            hs.append((b"x-nominated", b"v"))
    return (path, hs)


# every single connection-specific header WITHOUT `connection`, all of them at once, and with `connection`
HOPS_DIRECTED = [hop_page(b"/hs%d" % i, [h], None) for i, h in enumerate(HOP_MENU)] + [
    hop_page(b"/hs6", HOP_MENU[:5], None), hop_page(b"/hs7", HOP_MENU[:5], b"close"), hop_page(b"/hs8", [], b"x-nominated"),
    hop_page(b"/hs9", [HOP_MENU[5]], b"keep-alive")]


def rand_hops(rng, n=3):
    out = []
    for i in range(n):
        sub = [h for h in HOP_MENU[:4] if rng.random() < 0.4]
        if rng.random() < 0.5:
            sub.append(rng.choice(HOP_MENU[4:]))
        rng.shuffle(sub)
        out.append(hop_page(b"/hs%d" % i, sub, rng.choice(CONN_VALUES)))
    return out


# ---- large compressible representations (HTTP/2 flow control on the response; the h2 client keeps 65535-byte windows) ----
def big_text(n):
    import hashlib
    out, i = [], 0
    while sum(map(len, out)) < n:
        out.append(b"line %06d %s the quick brown fox\n" % (i, hashlib.sha256(b"%d" % i).hexdigest()[:40].encode()))
        i += 1
    return b"".join(out)[:n]


BIG64 = big_text(64 * 1024)
BIG1M = big_text(1 << 20)


def host_cfg(cache, pkg, with_files=True, slow=(), ctlen=True, hops=HOPS_DIRECTED, streams=True, limit=None, big=0):
    hs = [H(b"/p", TEXT, headers=[(b"content-type", b"text/plain"), (b"x-h", b"p")], spref=2, compress=True),
          H(b"/n", TEXT[:150], headers=[(b"content-type", b"text/plain")], spref=0, compress=True),
          H(b"/q", b"q:", kind=1, headers=[(b"content-type", b"text/plain")], spref=1),
          H(b"/m", b"method=", kind=4, headers=[(b"content-type", b"text/plain"), (b"x-h", b"m")], spref=2),
          H(b"/empty", b"", headers=[(b"x-h", b"e")], spref=2),
          H(b"/short", b"tiny", headers=[(b"content-type", b"text/plain")], spref=2, compress=True),
          H(b"/nf", b"custom not found page " * 4, status=404, headers=[(b"content-type", b"text/plain")], spref=2, compress=True),
          H(b"/ise", b"boom", status=500, headers=[(b"content-type", b"text/plain")], spref=0),
          # a 204 on which the handler left a body (and, /nc2, a transfer-encoding): no body after the head (repair 89e2956)
          H(b"/nc", b"left over body of a 204", status=204, headers=[(b"x-h", b"nc")], spref=0),
          H(b"/nc2", b"another left over body", status=204, headers=[(b"x-h", b"nc2"), (b"transfer-encoding", b"identity")], spref=2)]
    if ctlen:
        # a handler that states its own content-length (the length before compression / range)
        hs.append(H(b"/cl", TEXT[:200], headers=[(b"content-type", b"text/plain"), (b"content-length", b"200")], spref=2, compress=True))
    # handlers that leave connection-specific headers on their responses (repaired: dropped on HTTP/2)
    hs.append(H(b"/ka", b"k" * 30, headers=[(b"content-type", b"text/plain"), (b"keep-alive", b"timeout=5"), (b"connection", b"keep-alive")], spref=0))
    hs.append(H(b"/up", b"u" * 70, headers=[(b"content-type", b"text/plain"), (b"upgrade", b"h2c"), (b"te", b"gzip"), (b"proxy-connection", b"close"),
                                             (b"connection", b"close")], spref=2, compress=True))
    hs.append(H(b"/te", b"t" * 10, headers=[(b"te", b"trailers"), (b"x-h", b"te")], spref=2))
    for i, (path, headers) in enumerate(hops):
        hs.append(H(path, b"hop page %d " % i * 4, headers=headers, spref=(0, 2)[i % 2], compress=i % 3 == 0))
    if big >= 1:
        hs.append(H(b"/big64", BIG64, headers=[(b"content-type", b"text/plain")], spref=2, compress=True))
    if big >= 2:
        hs.append(H(b"/big1m", BIG1M, headers=[(b"content-type", b"text/plain")], spref=2, compress=True))
    kvs = [xl(xb("cache"), xbool(cache)), xl(xb("handlers"), xlist(hs)),
           xl(xb("pkg"), xlist([xl(xz(p), xn(k), xb(n), xb(v)) for p, k, n, v in pkg])),
           xl(xb("echo"), xlist([xb(b"/echo")])),
           xl(xb("echon"), xlist([xl(xb(p), xn(n)) for p, n in sorted(ECHON.items())])),
           xl(xb("vary"), xlist([xl(xb(pa), xlist([xl(xb(n), xn(t), xb(d)) for n, t, d in rules])) for pa, rules in sorted(VARY_RULES.items())]))]
    if streams:
        kvs.append(xl(xb("stream"), xlist([xl(xb(pa), xb(bo), xlist([xb(c) for c in ch]), xlist([xn(ln)] if ln is not None else []),
                                              xlist([xl(xb(a), xb(b)) for a, b in hd]), xn(st), xn(dl))
                                           for pa, bo, ch, ln, hd, st, dl in STREAMS])))
    if limit is not None:
        kvs.append(xl(xb("limit"), xn(limit)))
    if with_files:
        files = [("public/f.txt", TEXT), ("public/b.bin", BIN), ("public/index.html", INDEX), ("public/e.txt", b"")]
        if streams:
            files += SFILES
            kvs.append(xl(xb("sfiles"), xb(b"/sf/")))
        kvs.append(xl(xb("files"), xlist([xl(xb(n), xb(b)) for n, b in files])))
    if slow:
        kvs.append(xl(xb("slow"), xlist([xl(xb(p), xb(b), xn(sp)) for p, b, sp in slow])))
    return xlist(kvs)


def pkg_order(pkg):
    """call order of resolve_package: priority descending (distinct priorities in the menus)"""
    return xlist([xl(xn(k), xb(n), xb(v)) for _, k, n, v in sorted(pkg, key=lambda e: -e[0])])


def R(method, target, headers=(), body=b""):
    return (method, target, tuple(headers), body)


def x_req(r):
    m, t, hs, b = r
    return xl(xb(m), xb(t), xlist([xl(xb(a), xb(v)) for a, v in hs]), xb(b))


# ----------------------------------------------------------------------------------------------
# layer-4 probe (the real handle_cache on a twin host)
# ----------------------------------------------------------------------------------------------
_STATS = {"probes": 0, "probe_failures": 0}


def probe(jobs):
    """jobs: list of (cfg, reqs, mode) -> list of (err416, [l4...]) or None"""
    binary = os.path.join(kv.HARNESS, "target", "debug", "kvh")
    lines = ["p%d proto.l4 %s" % (i, kv.xtext(xl(cfg, xlist([x_req(r) for r in reqs]), xn(mode)))) for i, (cfg, reqs, mode) in enumerate(jobs)]
    try:
        out = kv._run_sharded(binary, lines, shards=8, per_shard=3, timeout=600)
    except OSError:
        out = {}
    res = []
    for i, (cfg, reqs, mode) in enumerate(jobs):
        _STATS["probes"] += 1
        o = out.get("p%d" % i)
        v = kv.xparse(o) if o else None
        if v and v[0] == "L" and len(v[1]) == 3 and v[1][1][0] == "L" and len(v[1][1][1]) == len(reqs) and v[1][0][1]:
            res.append((v[1][0], v[1][1][1], v[1][2]))
        else:
            _STATS["probe_failures"] += 1
            res.append(None)
    return res


EMPTY_RESP = xl(xn(11), xn(500), xlist([]), xb(b"probe failed"))


def exchanges(reqs, pr, limit=None):
    """[limit]: the host's limiter lets that many requests pass; the later ones are answered 429 by handle_connection (they
    never reach layer 4: the probe was run with the first [limit] requests only)"""
    exs = []
    for k, r in enumerate(reqs):
        m, t, hs, b = r
        rg = dict(hs).get(b"range")
        limited = limit is not None and k >= limit
        fut = None
        if pr is None:
            l4, sd = EMPTY_RESP, 0
        elif limited:
            l4, sd = xl(*pr[2][1][:4]), 0
        else:
            v = pr[1][k][1]
            l4, sd = xl(*v[:4]), v[4][1]
            if len(v) > 5:
                fut = v[5]          # (L bytes (L [len])): what the response's future writes, observed in process
        # [want]: the handler that answers calls read_to_bytes(want) — the body-reading handlers answer 200, and are not
        # run when sanitize_request refuses the request (416 / 400: layer 4 answers the error page)
        want = READS.get(t.split(b"?")[0]) if l4[1][1] == ("N", 200) and sd == 0 and not limited else None
        exs.append(xl(xb(m), xopt(None if rg is None else xb(rg)), xbool(sd != 1), l4, xn(len(b)), xopt(None if want is None else xn(want)),
                      xl(xbool(limited), xopt(fut), xlist([xb(n) for n in vary_names(t)]))))
    e416 = EMPTY_RESP if pr is None else xl(*pr[0][1][:4])
    return e416, xlist(exs)


# ----------------------------------------------------------------------------------------------
# requests
# ----------------------------------------------------------------------------------------------
AES = [None, b"gzip", b"br", b"identity", b"gzip, br;q=0.5", b"gzip;q=0", b"*;q=0, identity;q=0", b"zstd"]
PATHS = [b"/nc", b"/nc2", b"/m", b"/hs0", b"/hs1", b"/hs2", b"/st1", b"/st2", b"/st3", b"/st4", b"/st5", b"/st0", b"/st404", b"/sf/a.bin", b"/sf/t.txt", b"/sf/e.txt",
         b"/sf/missing.txt", b"/ka", b"/up", b"/te", b"/p", b"/p", b"/n", b"/q", b"/q?x=1", b"/q?x=2", b"/m", b"/empty", b"/short", b"/nf", b"/ise", b"/cl", b"/f.txt", b"/f.txt",
         b"/b.bin", b"/index.html", b"/e.txt", b"/missing", b"/missing.html", b"/./x", b"/p?a=b", b"/dir/../f.txt", b"/f%2Etxt", b"/"]


def range_values(rng):
    n = rng.choice([4, 150, 200, 240, 300, 60, 180, 103])
    return rng.choice([b"bytes=0-0", b"bytes=0-9", b"bytes=5-5", b"bytes=10-4", b"bytes=%d-%d" % (n - 1, n + 5), b"bytes=%d-%d" % (n, n + 1),
                       b"bytes=%d-%d" % (n + 1, n + 9), b"bytes=2-", b"bytes=-5", b"bytes=0-18446744073709551615", b"bytes=1-2,4-5",
                       b"items=0-1", b"bytes=0-%d" % (n - 1), b"bytes=3-100000"])


# methods whose content-length kvarn's HTTP/1 reader honours (utils::get_body_length_request)
# (PURGE: an extension method - any token is a method on both protocols since repair 2dbf4ed of the HTTP/1 request parser)
BODY_METHODS = (b"POST", b"PUT", b"DELETE", b"PATCH", b"PURGE")
BODY_SIZES = [1, 2, 5, 64, 99, 100, 101, 700, 5000, 5000, 16384, 16385, 19999, 20000, 20001, 32768, 33001, 40000, 40000, 65535, 65536, 70000,
              150000]


LATE = b"x-c20-late-body"     # pseudo header for the harness's HTTP/1.1 client, never sent (see harness/src/c20.rs)


def late(rng, target, p_after=0.5, p_ms=0.25):
    """how the HTTP/1.1 client writes the request body: with the head (nothing), some ms after the head, or - only for targets
    whose handlers never read a body - after the response has been read (the server has then certainly seen the head alone:
    Http1Body::drain has to take the whole body from the connection)"""
    if target.split(b"?")[0] not in READS and rng.random() < p_after:
        return [(LATE, b"after")]
    if rng.random() < p_ms:
        return [(LATE, b"%d" % rng.choice([1, 5, 20]))]
    return []


def rand_body(rng, n):
    if n > 2000:
        seed = bytes(rng.randrange(32, 127) for _ in range(97))
        # every 1000 bytes a position stamp: a prefix is recognisable as such
        out = bytearray((seed * (n // 97 + 1))[:n])
        for k in range(0, n - 8, 1000):
            out[k:k + 8] = b"@%07d" % k
        return bytes(out)
    return bytes(rng.randrange(32, 127) for _ in range(n))


def rand_request(rng, focus=None):
    if rng.random() < 0.06:
        return many_fields_request(rng)
    t = rng.choice(focus) if focus and rng.random() < 0.7 else rng.choice(PATHS)
    m = rng.choice([b"GET", b"GET", b"GET", b"GET", b"HEAD", b"HEAD", b"POST", b"OPTIONS", b"PUT", b"POST", b"PUT", b"DELETE", b"PATCH", b"PURGE"])
    hs = []
    if rng.random() < 0.55:
        ae = rng.choice(AES)
        if ae is not None:
            hs.append((b"accept-encoding", ae))
    if rng.random() < 0.35:
        hs.append((b"range", range_values(rng)))
    if rng.random() < 0.2:
        hs.append((b"if-modified-since", rng.choice([b"@T+100", b"@T-100", b"yesterday", b"@T+100"])))
    if rng.random() < 0.15:
        hs.append((b"origin", rng.choice([b"https://example.org", b"null", b"https://localhost:8443"])))
    if rng.random() < 0.1:
        hs.append((b"x-custom", b"v" * rng.randrange(1, 40)))
    body = b""
    if m in BODY_METHODS and rng.random() < 0.8:
        # a request body, for whatever answers: a handler that reads all of it (/echo), part of it (/echo3, /echo100), or
        # nothing at all (pages, files, 404 / 405 / 416 / 400 answers, cache hits) - the rest of the history follows on
        # the same connection.  Sizes around the HTTP/2 initial flow-control window (65535) need WINDOW_UPDATEs.
        if rng.random() < 0.5:
            t = rng.choice([b"/echo", b"/echo", b"/echo3", b"/echo100", b"/echo20k", b"/echo20k", b"/echo33k"])
        body = rand_body(rng, rng.choice(BODY_SIZES))
        hs.append((b"content-length", b"%d" % len(body)))
        hs += late(rng, t)
    return R(m, t, hs, body)


def closing_request(rng):
    """a request whose HTTP/1 answer ends the connection (a streamed body of unknown length): last of its history"""
    t = rng.choice(CLOSING)
    m = rng.choice([b"GET", b"GET", b"GET", b"HEAD", b"POST", b"PUT"])
    hs = []
    if rng.random() < 0.4:
        hs.append((b"accept-encoding", rng.choice([b"gzip", b"br", b"identity", b"gzip;q=0"])))
    if rng.random() < 0.3:
        hs.append((b"range", range_values(rng)))
    body = b""
    if m in BODY_METHODS and rng.random() < 0.7:
        body = rand_body(rng, rng.choice([1, 700, 5000, 20000, 70000]))
        hs.append((b"content-length", b"%d" % len(body)))
        if rng.random() < 0.3:
            hs.append((LATE, b"%d" % rng.choice([1, 5, 20])))
    return R(m, t, hs, body)


def maybe_closing(rng, h, p=0.3):
    return h + [closing_request(rng)] if rng.random() < p else h


def history(rng):
    focus = rng.sample(PATHS, 2)
    n = rng.randrange(4, 10)
    reqs = [rand_request(rng, focus) for _ in range(n)]
    if rng.random() < 0.5:
        # GET then HEAD then ranged GET of the same representation
        t = rng.choice([b"/p", b"/f.txt", b"/cl", b"/n", b"/b.bin"])
        ae = rng.choice([None, b"gzip", b"br"])
        h = [(b"accept-encoding", ae)] if ae else []
        reqs += [R(b"GET", t, h), R(b"HEAD", t, h), R(b"GET", t, h + [(b"range", range_values(rng))]), R(b"HEAD", t, h + [(b"range", b"bytes=1-3")])]
    return reqs


# ---- the request-head limits of the two front ends ----
# HTTP/1: the head (request line, field lines, blank line; line ends included) may be 16384 bytes (kvarn_async::read::request,
# max_len = 16 * 1024 in HttpConnection::accept); HTTP/2: the header list - name + value + 32 per field, pseudo-headers
# included - must stay below h2's limit (default 16 MiB, which kvarn leaves in place).  The harness's clients send
# `host: localhost:8443` / `:authority: localhost:8443`, `:scheme: https`.
H1_MAX_HEAD = 16384
AUTHORITY = b"localhost:8443"


def h1_head_len(r):
    m, t, hs, _ = r
    return len(m) + 1 + len(t) + 1 + 8 + 2 + (4 + len(AUTHORITY) + 4) + sum(len(n) + len(v) + 4 for n, v in hs if n != LATE) + 2


def h2_list_size(r):
    m, t, hs, _ = r
    return (7 + len(m) + 32) + (7 + 5 + 32) + (10 + len(AUTHORITY) + 32) + (5 + len(t) + 32) + sum(len(n) + len(v) + 32 for n, v in hs if n != LATE)


def small_fields(n, vlen=1, start=0):
    """n small header fields `x-fNNNN: v` (distinct names)"""
    return [(b"x-f%04d" % (start + i), b"v" * vlen) for i in range(n)]


def pad_to_head(r, target):
    """one more field so that the HTTP/1.1 head of the request is exactly `target` bytes (None if that cannot be done)"""
    need = target - h1_head_len(r) - len(b"x-pad") - 4
    if need < 0:
        return None
    m, t, hs, b = r
    return R(m, t, list(hs) + [(b"x-pad", b"p" * need)], b)


def many_fields_request(rng, m=None, t=None):
    """a request both front ends accept: many small fields (an HTTP/2 header list 4 - 7 times the HTTP/1 head), or a few
    long values, up to an HTTP/1 head of exactly 16384 bytes"""
    m = m or rng.choice([b"GET", b"GET", b"HEAD", b"POST"])
    t = t or rng.choice([b"/p", b"/p", b"/f.txt", b"/missing", b"/m", b"/q?x=1", b"/st1", b"/n"])
    u = rng.random()
    if u < 0.6:
        hs = small_fields(rng.choice([100, 300, 430, 450, 700, 1000, rng.randrange(1, 1100)]), rng.choice([0, 1, 1, 2]))
    elif u < 0.8:
        k = rng.choice([1, 2, 3, 7])
        hs = [(b"x-long%d" % i, b"L" * (rng.choice([15000, 16000, 16100]) // k)) for i in range(k)]
    else:
        hs = small_fields(rng.randrange(0, 600))
    if rng.random() < 0.3:
        hs.append((b"accept-encoding", rng.choice([b"gzip", b"br"])))
    body = b""
    if m == b"POST":
        t = b"/echo"
        body = rand_body(rng, rng.choice([1, 700, 20000]))
        hs.append((b"content-length", b"%d" % len(body)))
    r = R(m, t, hs, body)
    if u >= 0.6 and rng.random() < 0.5:
        r = pad_to_head(r, H1_MAX_HEAD - rng.choice([0, 0, 1, 2, 100])) or r
    while h1_head_len(r) > H1_MAX_HEAD:
        r = R(m, t, list(r[2])[1:], body)
    return r


SMUGGLE = b"GET /s HTTP/1.1\r\nhost: x\r\n\r\n"     # an unread body that looks like a request must not be answered
DIRECTED_HISTORIES = [
    # the defect repaired by the fix commit: a handler-supplied content-length after compression / range, over HTTP/2
    [R(b"GET", b"/cl", [(b"accept-encoding", b"gzip")]), R(b"GET", b"/cl"), R(b"GET", b"/cl", [(b"range", b"bytes=10-19")]),
     R(b"HEAD", b"/cl", [(b"accept-encoding", b"gzip")]), R(b"GET", b"/cl", [(b"accept-encoding", b"br"), (b"range", b"bytes=0-4")])],
    # HEAD / GET / ranges, cold and warm
    [R(b"HEAD", b"/p"), R(b"GET", b"/p"), R(b"HEAD", b"/p", [(b"accept-encoding", b"gzip")]), R(b"GET", b"/p", [(b"accept-encoding", b"gzip")]),
     R(b"GET", b"/p", [(b"range", b"bytes=0-0")]), R(b"GET", b"/p", [(b"range", b"bytes=240-250")]), R(b"GET", b"/p", [(b"range", b"bytes=9-3")]),
     R(b"HEAD", b"/p", [(b"range", b"bytes=239-239")])],
    # conditional requests, cold then warm
    [R(b"GET", b"/f.txt", [(b"if-modified-since", b"@T+100")]), R(b"GET", b"/f.txt", [(b"if-modified-since", b"@T+100")]),
     R(b"HEAD", b"/f.txt", [(b"if-modified-since", b"@T+100")]), R(b"GET", b"/f.txt", [(b"if-modified-since", b"@T-100")]),
     R(b"GET", b"/f.txt", [(b"if-modified-since", b"@T+100"), (b"range", b"bytes=0-3")])],
    # error pages, unsafe paths, methods
    [R(b"GET", b"/missing"), R(b"HEAD", b"/missing"), R(b"GET", b"/./x"), R(b"HEAD", b"/./x"), R(b"POST", b"/f.txt"), R(b"OPTIONS", b"/f.txt"),
     R(b"PUT", b"/p"), R(b"GET", b"/nf", [(b"accept-encoding", b"gzip")]), R(b"GET", b"/ise"), R(b"GET", b"/p", [(b"accept-encoding", b"*;q=0, identity;q=0")]),
     R(b"GET", b"/missing", [(b"range", b"bytes=0-9")]), R(b"PURGE", b"/p"), R(b"PURGE", b"/echo", [(b"content-length", b"5")], b"purge"),
     R(b"PURGE", b"/f.txt", [(b"content-length", b"700")], b"x" * 700), R(b"GET", b"/m")],
    # request bodies
    [R(b"POST", b"/echo", [(b"content-length", b"5")], b"hello"), R(b"POST", b"/echo", [(b"content-length", b"0")]),
     R(b"POST", b"/echo", [(b"content-length", b"3000")], b"z" * 3000), R(b"GET", b"/echo"), R(b"PUT", b"/echo", [(b"content-length", b"2")], b"ab"),
     R(b"POST", b"/p"), R(b"GET", b"/p")],
    # the second repaired defect: connection-specific headers on a handler's response, over HTTP/2
    [R(b"GET", b"/ka"), R(b"HEAD", b"/ka"), R(b"GET", b"/up"), R(b"GET", b"/up", [(b"accept-encoding", b"gzip")]), R(b"GET", b"/te"),
     R(b"GET", b"/up", [(b"range", b"bytes=3-8")]), R(b"GET", b"/p")],
    # the defect repaired by dfe4d54 (the former known class h1-unread-request-body): a request body that nobody reads -
    # the Range is refused (416), the handler is not run - followed by further requests on the same connection
    [R(b"PUT", b"/echo", [(b"range", b"bytes=10-4"), (b"content-length", b"700")], b"u" * 700), R(b"GET", b"/p"),
     R(b"POST", b"/echo", [(b"content-length", b"4")], b"next"), R(b"HEAD", b"/p")],
    # unread bodies of every answer class: 405 / 404 / 200 page / cache hit / 400 unsafe path / 416, then a body that IS read
    [R(b"POST", b"/f.txt", [(b"content-length", b"10")], b"0123456789"), R(b"GET", b"/f.txt"),
     R(b"POST", b"/missing", [(b"content-length", b"64")], b"m" * 64), R(b"PUT", b"/p", [(b"content-length", b"5000")], b"p" * 5000),
     R(b"GET", b"/p"), R(b"POST", b"/p", [(b"content-length", b"%d" % len(SMUGGLE))], SMUGGLE),
     R(b"DELETE", b"/./x", [(b"content-length", b"9")], b"traversal"), R(b"PATCH", b"/n", [(b"range", b"bytes=900-"), (b"content-length", b"3")], b"abc"),
     R(b"POST", b"/echo", [(b"content-length", b"6")], b"read-6"), R(b"GET", b"/missing")],
    # the same kinds, the body written only after the answer has been read / some ms after the head
    [R(b"POST", b"/f.txt", [(b"content-length", b"10"), (LATE, b"after")], b"0123456789"), R(b"GET", b"/f.txt"),
     R(b"PUT", b"/p", [(b"content-length", b"70000"), (LATE, b"after")], b"q" * 70000), R(b"GET", b"/p"),
     R(b"POST", b"/missing", [(b"content-length", b"%d" % len(SMUGGLE)), (LATE, b"after")], SMUGGLE), R(b"HEAD", b"/p"),
     R(b"POST", b"/echo", [(b"content-length", b"6"), (LATE, b"20")], b"late-6"), R(b"PUT", b"/echo3", [(b"content-length", b"700"), (LATE, b"20")], b"e" * 700),
     R(b"DELETE", b"/n", [(b"range", b"bytes=10-4"), (b"content-length", b"700"), (LATE, b"after")], b"u" * 700), R(b"GET", b"/n")],
    # partly read bodies (read_to_bytes(3) / (100)), lengths around the limit
    [R(b"POST", b"/echo3", [(b"content-length", b"2")], b"ab"), R(b"POST", b"/echo3", [(b"content-length", b"3")], b"abc"),
     R(b"POST", b"/echo3", [(b"content-length", b"4")], b"abcd"), R(b"GET", b"/q?after=partial"),
     R(b"PUT", b"/echo100", [(b"content-length", b"5000")], bytes(48 + i % 10 for i in range(5000))), R(b"HEAD", b"/echo3"),
     R(b"POST", b"/echo100", [(b"content-length", b"100")], b"c" * 100), R(b"POST", b"/echo", [(b"content-length", b"1")], b"!")],
    # bodies larger than the HTTP/2 initial window (65535): read completely (WINDOW_UPDATEs needed), partly, not at all
    [R(b"POST", b"/echo", [(b"content-length", b"70000")], b"W" * 70000), R(b"POST", b"/echo3", [(b"content-length", b"70000")], b"X" * 70000),
     R(b"PUT", b"/f.txt", [(b"content-length", b"70000")], b"Y" * 70000), R(b"POST", b"/missing", [(b"content-length", b"66000")], b"Z" * 66000),
     R(b"POST", b"/echo", [(b"content-length", b"150000")], bytes(97 + i % 23 for i in range(150000))), R(b"GET", b"/p")],
    # limits smaller than the body, reached inside the second / third DATA frame of a body that spans several (HTTP/2: 16384-byte
    # frames): read_to_bytes(20000) of 40000 bytes (frames 16384 + 16384 + 7232), read_to_bytes(33000) of 70000, around the limits
    [R(b"POST", b"/echo20k", [(b"content-length", b"40000")], bytes(48 + (i * 7 + i // 1000) % 75 for i in range(40000))),
     R(b"PUT", b"/echo33k", [(b"content-length", b"70000")], bytes(33 + (i * 11 + i // 997) % 90 for i in range(70000))),
     R(b"POST", b"/echo20k", [(b"content-length", b"20001")], bytes(65 + i % 26 for i in range(20001))),
     R(b"POST", b"/echo20k", [(b"content-length", b"19999")], bytes(97 + i % 26 for i in range(19999))),
     R(b"POST", b"/echo100", [(b"content-length", b"40000"), (LATE, b"5")], bytes(48 + (i * 3) % 75 for i in range(40000))), R(b"GET", b"/p")],
    # streamed responses: a future that writes known chunks (length known to kvarn / stated by the handler / after a Response
    # body / more than an HTTP/2 window / slowly / nothing at all / an error status), GET and HEAD, ranges (not applied to streams)
    [R(b"GET", b"/st1"), R(b"HEAD", b"/st1"), R(b"GET", b"/st2"), R(b"GET", b"/st3"), R(b"HEAD", b"/st3"), R(b"GET", b"/st4"),
     R(b"GET", b"/st5"), R(b"GET", b"/st0"), R(b"GET", b"/st404"), R(b"GET", b"/st1", [(b"range", b"bytes=2-5")]),
     R(b"POST", b"/st1", [(b"content-length", b"700")], b"s" * 700), R(b"HEAD", b"/st2"), R(b"GET", b"/p")],
    # extensions::stream_body() on files: whole, HEAD, ranges inside, across and beyond the end, empty file, missing file
    [R(b"GET", b"/sf/t.txt"), R(b"HEAD", b"/sf/t.txt"), R(b"GET", b"/sf/a.bin"), R(b"GET", b"/sf/a.bin", [(b"range", b"bytes=10-19")]),
     R(b"GET", b"/sf/t.txt", [(b"range", b"bytes=100-100000")]), R(b"GET", b"/sf/t.txt", [(b"range", b"bytes=500-600")]),
     R(b"GET", b"/sf/t.txt", [(b"range", b"bytes=179-179")]), R(b"GET", b"/sf/t.txt", [(b"range", b"bytes=180-181")]),
     R(b"HEAD", b"/sf/a.bin", [(b"range", b"bytes=99990-")]), R(b"GET", b"/sf/e.txt"), R(b"GET", b"/sf/e.txt", [(b"range", b"bytes=0-0")]),
     R(b"GET", b"/sf/missing.txt"), R(b"GET", b"/sf/t.txt", [(b"accept-encoding", b"gzip")]), R(b"GET", b"/f.txt")],
    # every connection-specific header on its own WITHOUT a connection header, all at once, with connection, nominated header
    [R(b"GET", b"/hs%d" % i) for i in range(10)] + [R(b"HEAD", b"/hs0"), R(b"GET", b"/hs6", [(b"accept-encoding", b"gzip")]),
                                                    R(b"GET", b"/hs3", [(b"range", b"bytes=3-8")]), R(b"GET", b"/p")],
    # empty bodies
    [R(b"GET", b"/empty"), R(b"HEAD", b"/empty"), R(b"GET", b"/e.txt"), R(b"GET", b"/empty", [(b"range", b"bytes=0-0")]), R(b"GET", b"/short", [(b"accept-encoding", b"gzip")])],
    # the repairs made for other properties, seen through both protocols: a 204 with a left-over body (89e2956; with a
    # transfer-encoding: 3c296af), GET / HEAD / ranged (the emptied body makes every Range unsatisfiable), the 416 page of a
    # path with vary rules and of one without (21f0154), If-Modified-Since + Range on a cached page (304, not 416: 9ae9b1a)
    [R(b"GET", b"/nc"), R(b"HEAD", b"/nc"), R(b"GET", b"/nc2"), R(b"GET", b"/nc2", [(b"accept-encoding", b"gzip")]), R(b"GET", b"/nc", [(b"range", b"bytes=0-3")]),
     R(b"POST", b"/nc", [(b"content-length", b"3")], b"abc"), R(b"GET", b"/m"), R(b"GET", b"/m", [(b"range", b"bytes=50-60")]),
     R(b"GET", b"/m", [(b"range", b"bytes=50-60"), (b"x-custom", b"vv")]), R(b"HEAD", b"/m", [(b"range", b"bytes=11-")]),
     R(b"GET", b"/p"), R(b"GET", b"/p", [(b"if-modified-since", b"@T+100"), (b"range", b"bytes=0-3")]),
     R(b"GET", b"/p", [(b"if-modified-since", b"@T+100"), (b"range", b"bytes=900-")]), R(b"GET", b"/p", [(b"range", b"bytes=900-")])],
    # requests with MANY SMALL header fields (100 .. 1000 fields `x-fNNNN: v`: 1 - 11 kB as an HTTP/1 head, 4 - 42 kB as an HTTP/2
    # header list, where every field counts name + value + 32) and with a few very long values, up to an HTTP/1 head of exactly
    # 16384 bytes - both front ends accept them (head_accepted_by_both), so both protocols have to answer them alike
    [R(b"GET", b"/p", small_fields(100)), R(b"GET", b"/p", small_fields(300)), R(b"GET", b"/p", small_fields(430)),
     R(b"HEAD", b"/p", small_fields(450)), R(b"GET", b"/missing", small_fields(450)), R(b"GET", b"/f.txt", small_fields(700, 2)),
     R(b"GET", b"/p", small_fields(1000) + [(b"accept-encoding", b"gzip")]),
     R(b"POST", b"/echo", small_fields(600) + [(b"content-length", b"700")], b"h" * 700),
     R(b"GET", b"/p", [(b"x-long", b"L" * 16000)]), pad_to_head(R(b"GET", b"/q?x=1", [(b"x-long", b"L" * 8000)]), H1_MAX_HEAD),
     pad_to_head(R(b"GET", b"/m", small_fields(1200, 0)), H1_MAX_HEAD - 1), R(b"GET", b"/st1", small_fields(500)), R(b"GET", b"/p")],
    # a streamed body of UNKNOWN length (with_future, no content-length): HTTP/2 ends the stream, HTTP/1 ends the connection
    # (7334433) - as the last request of a history: GET / HEAD / with an unread request body / ranged
    [R(b"GET", b"/st1"), R(b"GET", b"/p"), R(b"GET", b"/st6")],
    [R(b"GET", b"/p"), R(b"HEAD", b"/st2"), R(b"HEAD", b"/st6")],
    [R(b"POST", b"/echo", [(b"content-length", b"4")], b"body"), R(b"POST", b"/st6", [(b"content-length", b"5000")], b"c" * 5000)],
    [R(b"GET", b"/st6", [(b"range", b"bytes=2-5"), (b"accept-encoding", b"gzip")])],
]


def pair_case(cfg, pkg, reqs, pr, secure1, kind, limit=None):
    e416, exs = exchanges(reqs, pr, limit)
    x = xl(xbool(True), xl(cfg, xlist([x_req(r) for r in reqs])), pkg_order(pkg), xopt(xb(ALT)), e416, exs, xbool(secure1))
    return Case("proto.pair", x, "proto.pair_spec", {"kind": kind})


def gen_pairs(rng, n_random, kind="pair", n_limited=2, big=(1,)):
    # plan = (cache, pkg, history, secure1, kind, host options, limit)
    plans = []
    for i, h in enumerate(DIRECTED_HISTORIES):
        for cache in (True, False):
            plans.append((cache, PKG_MENUS[(i + cache) % len(PKG_MENUS)], h, (i + cache) % 3 != 0, kind + "-directed", {}, None))
    for _ in range(n_random):
        plans.append((rng.random() < 0.7, rng.choice(PKG_MENUS), maybe_closing(rng, history(rng)), rng.random() < 0.7, kind,
                      {"hops": rand_hops(rng)}, None))
    # the host's request limiter: the first `limit` requests pass, the rest of the history (and the framing sentinel) is
    # answered 429 by handle_connection itself, on both protocols
    for j in range(n_limited):
        h = history(rng)[:8]
        while len(h) < 6:
            h.append(rand_request(rng))
        limit = max(3, (len(h) + 1 + 2) // 3, rng.randrange(3, len(h)))
        if j == 0:
            h = h[:limit] + [R(b"HEAD", b"/p"), R(b"GET", b"/missing"), R(b"POST", b"/echo", [(b"content-length", b"700")], b"l" * 700)] + h[limit:limit + 2]
        plans.append((j % 2 == 0, PKG_MENUS[j % len(PKG_MENUS)], h, j % 2 == 0, kind + "-limited", {"limit": limit}, limit))
    # large compressible representations, cached and uncached, every encoding, ranged, HEAD
    for j, b in enumerate(big):
        t = b"/big64" if b == 1 else b"/big1m"
        n = len(BIG64) if b == 1 else len(BIG1M)
        h = [R(b"GET", t), R(b"GET", t, [(b"accept-encoding", b"gzip")]), R(b"HEAD", t, [(b"accept-encoding", b"gzip")]),
             R(b"GET", t, [(b"accept-encoding", b"gzip")]), R(b"GET", t, [(b"range", b"bytes=%d-" % (n - 70000))]),
             R(b"GET", t, [(b"accept-encoding", b"gzip"), (b"range", b"bytes=100-199")])]
        if b == 1:
            h += [R(b"GET", t, [(b"accept-encoding", b"br")]), R(b"GET", t, [(b"accept-encoding", b"br"), (b"range", b"bytes=0-65535")])]
        plans.append((j % 2 == 0, PKG_MENUS[(j + 1) % len(PKG_MENUS)], h, True, kind + "-big", {"big": b, "streams": False, "hops": ()}, None))
    jobs = [(host_cfg(c, pkg, **opt), h if lim is None else h[:lim], 0) for c, pkg, h, _, _, opt, lim in plans]
    prs = probe(jobs)
    out = []
    for (c, pkg, h, s1, k, opt, lim), job, pr in zip(plans, jobs, prs):
        if lim is not None and pr is not None:
            pr = (pr[0], pr[1] + [None] * (len(h) - lim), pr[2])
        out.append(pair_case(job[0], pkg, h, pr, s1, k, lim))
    return out


UNREAD_HISTORIES = [
    # the witness of the former known finding
    [R(b"PUT", b"/echo", [(b"range", b"bytes=10-4"), (b"content-length", b"700")], b"u" * 700), R(b"GET", b"/p")],
    [R(b"POST", b"/f.txt", [(b"content-length", b"10")], b"0123456789"), R(b"GET", b"/f.txt")],
    [R(b"POST", b"/echo3", [(b"content-length", b"12")], b"GET / HTTP/1"), R(b"GET", b"/p"), R(b"POST", b"/missing", [(b"content-length", b"3000")], b"x" * 3000),
     R(b"HEAD", b"/p")],
    [R(b"POST", b"/p", [(b"content-length", b"70000")], b"L" * 70000), R(b"POST", b"/echo", [(b"content-length", b"2")], b"ok")],
    [R(b"PUT", b"/f.txt", [(b"range", b"bytes=10-4"), (b"content-length", b"700"), (LATE, b"after")], b"u" * 700), R(b"GET", b"/p"),
     R(b"POST", b"/p", [(b"content-length", b"5"), (LATE, b"after")], b"hello"), R(b"GET", b"/p")],
]
# the known class h1-undeclared-request-body: the content-length of a GET is not looked at on HTTP/1.1
KNOWN_HISTORIES = [
    [R(b"GET", b"/p", [(b"content-length", b"5"), (LATE, b"after")], b"hello"), R(b"GET", b"/p")],
]


def gen_answered(rng, n_random):
    """proto.answered: is EVERY request of a history answered, on the HTTP/1.1 and on the HTTP/2 connection (and the framing
    intact afterwards: sentinel)?  Histories made of requests whose body is not read, or only in part"""
    plans = [(h, "answered-directed") for h in UNREAD_HISTORIES] + [(h, "known-undeclared-body") for h in KNOWN_HISTORIES]
    for _ in range(n_random):
        h = []
        for _ in range(rng.randrange(2, 6)):
            m = rng.choice(BODY_METHODS)
            t = rng.choice([b"/p", b"/f.txt", b"/missing", b"/echo3", b"/echo100", b"/n", b"/./x", b"/echo", b"/q?a=1", b"/nf"])
            hs = [(b"range", rng.choice([b"bytes=10-4", b"bytes=0-1", b"bytes=99999-"]))] if rng.random() < 0.3 else []
            body = rand_body(rng, rng.choice(BODY_SIZES))
            h.append(R(m, t, hs + [(b"content-length", b"%d" % len(body))] + late(rng, t, 0.6, 0.3), body))
            if rng.random() < 0.5:
                h.append(R(rng.choice([b"GET", b"HEAD"]), rng.choice([b"/p", b"/f.txt", b"/missing"])))
        plans.append((h, "answered"))
    jobs = [(host_cfg(i % 2 == 0, []), h, 0) for i, (h, _) in enumerate(plans)]
    prs = probe(jobs)
    cases = [pair_case(job[0], [], h, pr, i % 3 != 2, k) for i, ((h, k), job, pr) in enumerate(zip(plans, jobs, prs))]
    for c in cases:
        c.comp, c.spec = "proto.answered", "proto.answered_spec"
    return cases


def mini_cfg(cache, pkg):
    hs = [H(b"/a", b"0123456789abcdef", headers=[(b"x-h", b"a")], spref=2), H(b"/c", b"xy", headers=[(b"content-length", b"2")], spref=0)]
    return xlist([xl(xb("cache"), xbool(cache)), xl(xb("handlers"), xlist(hs)),
                  xl(xb("pkg"), xlist([xl(xz(p), xn(k), xb(n), xb(v)) for p, k, n, v in pkg]))])


def gen_servers(rng, n):
    """a sample of the histories through complete servers: RunConfig::execute on loopback ports (listener, accept loop, ALPN)"""
    plans = []
    for i in range(n):
        h = DIRECTED_HISTORIES[i % len(DIRECTED_HISTORIES)] if i < 4 else maybe_closing(rng, history(rng), 0.5)
        plans.append((i % 2 == 0, PKG_MENUS[i % len(PKG_MENUS)], h, i % 3 != 1))
    jobs = [(host_cfg(c, pkg), h, 0) for c, pkg, h, _ in plans]
    prs = probe(jobs)
    cases = [pair_case(job[0], pkg, h, pr, s1, "server") for (c, pkg, h, s1), job, pr in zip(plans, jobs, prs)]
    for c in cases:
        c.comp = "proto.server"
    return cases


def gen_mini(rng, n):
    """small cases (these are the ones the in-kernel recheck of the extracted model can afford)"""
    plans = []
    for _ in range(n):
        reqs = []
        for _ in range(rng.randrange(1, 3)):
            hs = [(b"range", rng.choice([b"bytes=0-3", b"bytes=4-9", b"bytes=16-17", b"bytes=3-1", b"bytes=1-1"]))] if rng.random() < 0.6 else []
            reqs.append(R(rng.choice([b"GET", b"HEAD", b"GET"]), rng.choice([b"/a", b"/c", b"/a"]), hs))
        plans.append((rng.random() < 0.5, rng.choice(PKG_MENUS[:3]), reqs, rng.random() < 0.5))
    jobs = [(mini_cfg(c, pkg), h, 0) for c, pkg, h, _ in plans]
    prs = probe(jobs)
    return [pair_case(job[0], pkg, h, pr, s1, "pair-mini") for (c, pkg, h, s1), job, pr in zip(plans, jobs, prs)]


# ----------------------------------------------------------------------------------------------
# bursts
# ----------------------------------------------------------------------------------------------
CANCEL = b"x-c20-cancel"     # pseudo header (never sent): the client cancels the stream this many ms after the request


def burst_plan(rng, n, p_cancel=0.12):
    cache = rng.random() < 0.75
    nslow = rng.randrange(1, 5)
    slow = [(b"/slow%d" % i, b"slow page %d " % i * 5, rng.choice([0, 2, 2])) for i in range(nslow)]
    reqs = []
    for s in range(n):
        u = rng.random()
        hs = []
        body = b""
        if u < 0.6:
            t = rng.choice(slow)[0]
            m = rng.choice([b"GET", b"GET", b"GET", b"HEAD"])
            hs.append((b"x-delay", b"%d" % rng.choice([0, 10, 40, 80, 120, 160, 200, 250])))
            if rng.random() < 0.25:
                hs.append((b"range", rng.choice([b"bytes=0-4", b"bytes=5-9", b"bytes=900-901", b"bytes=3-1"])))
            if rng.random() < p_cancel:
                # the client resets this stream while (or before, or after) its handler sleeps: RST_STREAM(CANCEL)
                hs.append((CANCEL, b"%d" % rng.choice([0, 1, 5, 30, 90, 150])))
        elif u < 0.8:
            t = rng.choice([b"/p", b"/f.txt", b"/b.bin", b"/missing", b"/q?s=%d" % s, b"/n", b"/cl", b"/st1", b"/st3", b"/st4", b"/sf/t.txt", b"/hs0", b"/hs4",
                            b"/st6", b"/nc"])
            m = rng.choice([b"GET", b"GET", b"HEAD"])
            if rng.random() < 0.5:
                hs.append((b"accept-encoding", rng.choice([b"gzip", b"br"])))
            if rng.random() < 0.3:
                hs.append((b"range", rng.choice([b"bytes=0-9", b"bytes=20-29"])))
        elif u < 0.9:
            t, m = rng.choice([b"/echo", b"/echo", b"/echo20k"]), b"POST"
            body = b"stream-%d-" % s + rand_body(rng, rng.choice([3, 40, 2000, 2000, 40000, 70000]))
            hs.append((b"content-length", b"%d" % len(body)))
            if rng.random() < p_cancel:
                # cancelled while the request body is on its way / being read
                hs.append((CANCEL, b"%d" % rng.choice([0, 1, 5, 30])))
        else:
            # a body that is read in part or not at all, among the other streams
            t = rng.choice([b"/echo3", b"/echo100", b"/p", b"/f.txt", b"/missing", rng.choice(slow)[0]])
            m = rng.choice(BODY_METHODS)
            body = b"unread-%d-" % s + rand_body(rng, rng.choice([1, 90, 5000, 70000]))
            hs.append((b"content-length", b"%d" % len(body)))
            hs += late(rng, t)
            if t.startswith(b"/slow"):
                hs.append((b"x-delay", b"%d" % rng.choice([0, 40, 120, 200])))
        reqs.append(R(m, t, hs, body))
    return cache, slow, reqs


def burst_cases(cfg, pkg, cache, slow, reqs, pr, kind, with_h1, two=False):
    e416, exs = exchanges(reqs, pr)
    spref = dict((p, sp) for p, _, sp in slow)
    strs, delays = [], []
    for s, (m, t, hs, b) in enumerate(reqs):
        d = dict(hs)
        path = t.split(b"?")[0]
        if path in spref:
            cacheable = cache and spref[path] != 0
            cls = path
        elif path == b"/q":
            cacheable, cls = cache, t
        else:
            cacheable, cls = (cache and path not in (b"/n", b"/echo", b"/nc") and path not in ECHON and path not in STREAM_PATHS
                              and not path.startswith(b"/sf/") and path not in (b"/hs0", b"/hs4")), path
        cacheable = cacheable and m in (b"GET", b"HEAD")
        cancel = d.get(CANCEL)
        strs.append(xl(xn(s + 1), xb(cls + b"|" + d.get(b"accept-encoding", b"")), xbool(cacheable), xopt(None if cancel is None else xn(int(cancel)))))
        delays.append(int(d.get(b"x-delay", b"0")))
    n = len(reqs)
    sched = [s + 1 for s in range(n)] + [s + 1 for s in sorted(range(n), key=lambda s: (delays[s], s))]
    # the pseudo header is not part of the request
    wire_reqs = [R(m, t, tuple(h for h in hs if h[0] != CANCEL), b) for m, t, hs, b in reqs]
    x = xl(xbool(True), xl(cfg, xlist([x_req(r) for r in wire_reqs])), pkg_order(pkg), xopt(xb(ALT)), e416, exs, xlist(strs), xlist([xn(s) for s in sched]))
    meta = {"kind": kind, "streams": n, "orders": len(set(delays)), "cancelled": sum(1 for r in reqs if dict(r[2]).get(CANCEL) is not None)}
    cases = [Case("proto.burst", x, "proto.burst_spec", dict(meta))]
    if n <= 40:
        cases.append(Case("proto.alone", x, "proto.burst_spec", dict(meta, kind=kind + "-alone")))
    if two:
        # the same burst spread over TWO HTTP/2 connections to the same host, at once
        cases.append(Case("proto.burst2", x, "proto.burst_spec", dict(meta, kind=kind + "-2conn")))
    if with_h1:
        cases += [Case("proto.burst1", x, "proto.burst1_spec", dict(meta, kind=kind + "-h1")),
                  Case("proto.alone1", x, "proto.burst1_spec", dict(meta, kind=kind + "-h1-alone"))]
    return cases


def gen_bursts(rng, sizes, kind="burst"):
    plans = []
    for i, n in enumerate(sizes):
        cache, slow, reqs = burst_plan(rng, n)
        pkg = PKG_MENUS[i % len(PKG_MENUS)]
        plans.append((host_cfg(cache, pkg, slow=slow), pkg, cache, slow, reqs, i % 3 == 0 and n <= 40, i % 3 == 1))
    # alone: every request on its own fresh host, no delay
    jobs = [(cfg, [R(m, t, tuple((a, b"0" if a == b"x-delay" else v) for a, v in hs if a != CANCEL), b) for m, t, hs, b in reqs], 1)
            for cfg, _, _, _, reqs, _, _ in plans]
    prs = probe(jobs)
    cases = []
    for (cfg, pkg, cache, slow, reqs, h1, two), pr in zip(plans, prs):
        cases += burst_cases(cfg, pkg, cache, slow, reqs, pr, kind, h1, two)
    return cases


# ----------------------------------------------------------------------------------------------
# which bytes read_to_bytes returns (proto.body); extensions::stream_body on files (proto.sbody)
# ----------------------------------------------------------------------------------------------
def body_case(body, frames, early, limits, kind):
    x = xl(xb(body), xlist([xn(f) for f in frames]), xn(early), xlist([xn(l) for l in limits]))
    return Case("proto.body", x, "proto.body_spec", {"kind": kind})


# the known class h2-body-read-again: read_to_bytes(20000) then read_to_bytes(1000000) of 40000 bytes in frames 16384+16384+7232
KNOWN_SECOND_READ = (bytes(48 + (i * 7 + i // 1000) % 75 for i in range(40000)), [16384, 16384], 0, [20000, 1000000])


def gen_bodies(rng, n):
    cases = [body_case(*KNOWN_SECOND_READ, "known-second-read"),
             # one limit: the seeded pattern (limit reached in the second frame), limit = body, limit 1, frames of 1 byte
             body_case(KNOWN_SECOND_READ[0], [16384, 16384], 100, [20000], "body-directed"),
             body_case(b"0123456789" * 7, [1, 1, 1, 0, 30], 3, [33], "body-directed"),
             body_case(rand_body(rng, 70000), [16384] * 4, 70000, [33000], "body-directed"),
             # a second call after a call that did NOT hit its limit returns nothing on both protocols
             body_case(b"abcdefghij" * 300, [1000, 1000], 10, [5000, 100], "body-directed")]
    for _ in range(n):
        size = rng.choice([1, 7, 300, 5000, 16384, 16385, 30000, 40000, 70000, 150000])
        body = rand_body(rng, size)
        frames, left = [], size
        while left > 0 and len(frames) < 24 and rng.random() < 0.9:
            f = rng.choice([1, 10, 1000, 5000, 16384, 16384, 16384, rng.randrange(1, 16385)])
            frames.append(min(f, 16384))
            left -= frames[-1]
        if left > 16384:
            frames += [16384] * (left // 16384)
        limit = rng.choice([1, 3, size - 1, size, size + 1, size // 2, 16384, 16385, 20000, 33000, 1 << 20, rng.randrange(1, size + 2)])
        cases.append(body_case(body, frames, rng.choice([0, 0, 1, 100, size // 3, size, size + 5]), [max(1, limit)], "body"))
    return cases


def gen_sbodies(rng, n):
    plans = [(STEXT, None), (STEXT, (100, 100001)), (STEXT, (500, 601)), (STEXT, (179, 180)), (STEXT, (180, 182)), (b"", None), (b"", (0, 1)),
             (SFILE, (99990, 200000)), (SFILE, (65535, 65537))]
    for _ in range(n):
        size = rng.choice([0, 1, 17, 180, 70000])
        f = bytes(rng.randrange(256) for _ in range(min(size, 300))) * (size // 300 + 1)
        f = f[:size]
        a = rng.choice([0, 1, size - 1, size, size + 1, rng.randrange(0, size + 3)])
        a = max(0, a)
        plans.append((f, rng.choice([None, (a, a + rng.choice([1, 2, 10, size + 1, 100000]))])))
    return [Case("proto.sbody", xl(xb(f), xopt(None if r is None else xl(xn(r[0]), xn(r[1])))), None, {"kind": "stream_body"}) for f, r in plans]


def head_case(cfg, r, kind):
    ok = h1_head_len(r) <= H1_MAX_HEAD
    return Case("proto.head", xl(cfg, x_req(r)), "proto.head_spec",
                {"kind": kind + ("" if ok else "-beyond-h1"), "fields": len(r[2]), "h1_head": h1_head_len(r), "h2_list": h2_list_size(r)})


def gen_heads(rng, n):
    """proto.head: one request to the sentinel page over a fresh HTTP/1.1 (TLS) and a fresh HTTP/2 connection: is it answered?
    Around the limit of the HTTP/1 head (16384 bytes, reached with one long value / with 1600 small fields), and far above
    what a 16 KiB header-LIST limit on the HTTP/2 side would allow (430+ small fields)"""
    cfg = mini_cfg(False, [])
    base = R(b"GET", b"/s", [])
    reqs = [R(b"GET", b"/s", small_fields(k)) for k in (0, 100, 300, 430, 450, 700, 1000, 1300, 1500)]
    for target in (H1_MAX_HEAD - 1, H1_MAX_HEAD, H1_MAX_HEAD + 1, H1_MAX_HEAD + 7, 20000):
        reqs.append(pad_to_head(base, target))
        reqs.append(pad_to_head(R(b"GET", b"/s", small_fields(1200)), target))
    reqs += [R(b"GET", b"/s", small_fields(1630)), R(b"HEAD", b"/s", small_fields(2500, 3))]
    cases = [head_case(cfg, r, "head-directed") for r in reqs]
    for _ in range(n):
        u = rng.random()
        if u < 0.5:
            r = R(rng.choice([b"GET", b"HEAD"]), b"/s", small_fields(rng.randrange(0, 1800), rng.choice([0, 1, 1, 2, 5])))
        elif u < 0.8:
            r = pad_to_head(R(b"GET", b"/s?q=%d" % rng.randrange(1000), small_fields(rng.randrange(0, 1000))),
                            H1_MAX_HEAD + rng.choice([-300, -2, -1, 0, 0, 1, 2, 300])) or base
        else:
            k = rng.choice([1, 2, 5])
            r = R(b"GET", b"/s", [(b"x-long%d" % i, b"L" * (rng.randrange(12000, 20000) // k)) for i in range(k)])
        cases.append(head_case(cfg, r, "head"))
    return cases


# ---- streams the client has reset, frames written by hand (proto.rst) ----
RST_PAGES = [(b"/p", 200), (b"/missing", 404), (b"/f.txt", 200), (b"/nc", 204), (b"/st1", 200)]


def rst_case(limit, reqs, statuses, resets, kind):
    slow = [(b"/slow0", b"slow page ", 0), (b"/slow1", b"another slow page ", 2)]
    cfg = host_cfg(False, [], slow=slow, limit=limit)
    vs = [xl(xbool(limit is not None and i >= limit), xn(st)) for i, st in enumerate(statuses)]
    x = xl(cfg, xlist([x_req(r) for r in reqs]), xlist([xn(i) for i in resets]), xlist(vs))
    return Case("proto.rst", x, "proto.rst_spec", {"kind": kind, "streams": len(reqs), "reset": len(resets),
                                                   "reset_and_limited": sum(1 for i in resets if limit is not None and i >= limit)})


def gen_rsts(rng, n):
    """proto.rst: a batch of requests and RST_STREAMs for some of them in ONE write on a hand-written HTTP/2 connection: the
    server's accept loop meets streams the client has already reset - among them streams the host's limiter answers (429)"""
    def slow_req(d):
        return R(b"GET", rng.choice([b"/slow0", b"/slow1"]), [(b"x-delay", b"%d" % d)])
    # the witness of reset_limited_stream_v0_refuted: 3 streams pass (handlers sleeping 200 ms), 3 are answered 429, the 5th is reset
    cases = [rst_case(3, [slow_req(200) for _ in range(6)], [200] * 6, [4], "reset-directed"),
             rst_case(3, [slow_req(200) for _ in range(6)], [200] * 6, [3, 5], "reset-directed"),
             rst_case(3, [slow_req(150) for _ in range(6)], [200] * 6, [1], "reset-directed"),
             rst_case(None, [slow_req(100) for _ in range(6)], [200] * 6, [0, 4], "reset-directed"),
             rst_case(2, [slow_req(100), R(b"GET", b"/p"), R(b"HEAD", b"/p"), R(b"GET", b"/missing")], [200, 200, 200, 404], [2], "reset-directed")]
    for _ in range(n):
        limit = rng.choice([None, 2, 3, 5, 8])
        k = rng.randrange(2, 3 * limit + 1) if limit else rng.randrange(2, 20)    # (beyond 3 * limit the limiter drops the connection)
        reqs, sts = [], []
        for i in range(k):
            if rng.random() < 0.6:
                reqs.append(slow_req(rng.choice([0, 20, 80, 150, 250])))
                sts.append(200)
            else:
                t, st = rng.choice(RST_PAGES)
                reqs.append(R(rng.choice([b"GET", b"GET", b"HEAD"]), t))
                sts.append(st)
        resets = sorted(rng.sample(range(k), rng.randrange(0, min(k, 4) + 1)))
        cases.append(rst_case(limit, reqs, sts, resets, "reset"))
    return cases


def generate(rng, tier):
    if tier == "thorough":
        cases = (gen_pairs(rng, 1500, n_limited=40, big=(1, 2, 1, 2)) + gen_servers(rng, 40) + gen_mini(rng, 100) + gen_answered(rng, 150)
                 + gen_bodies(rng, 300) + gen_sbodies(rng, 150) + gen_heads(rng, 200) + gen_rsts(rng, 200)
                 + gen_bursts(rng, [2, 3, 4, 6, 8, 12, 16, 24, 32] * 14 + [32] * 6 + [64, 100] * 6))
    else:
        cases = (gen_pairs(rng, 40, n_limited=2, big=(1, 2)) + gen_servers(rng, 6) + gen_mini(rng, 16) + gen_answered(rng, 6)
                 + gen_bodies(rng, 14) + gen_sbodies(rng, 8) + gen_heads(rng, 10) + gen_rsts(rng, 12) + gen_bursts(rng, [2, 3, 5, 9, 16, 32, 100]))
    return cases


def directed(rng, mismatches):
    return (gen_pairs(rng, 100, "directed", n_limited=6, big=()) + gen_bodies(rng, 60) + gen_heads(rng, 40) + gen_rsts(rng, 40)
            + [c for c in gen_bursts(rng, [4, 8, 16, 32, 32, 12], "directed-burst") if c.spec])


# ----------------------------------------------------------------------------------------------
# comparison, oracles
# ----------------------------------------------------------------------------------------------
def canon(x):
    t, v = x
    if t != "L":
        return x
    items = [canon(y) for y in v]
    if items and all(y[0] == "L" and len(y[1]) == 2 and y[1][0][0] == "B" and y[1][1][0] == "B" for y in items):
        items = sorted(items, key=lambda y: (y[1][0][1], y[1][1][1]))
    return (t, items)


def compare(c, i, m):
    try:
        return canon(kv.xparse(i)) == canon(kv.xparse(m))
    except Exception:
        return False


def wire(w):
    """(L (N 0) (L (N 0) (L version status headers body))) -> dict | 'refused' | None; (N 5): the HTTP/1 connection ended with it"""
    try:
        assert w[1][0] == ("N", 0)
        inner = w[1][1]
        if inner[1][0] == ("N", 3):
            return "refused"
        if inner[1][0] == ("N", 4):
            return "broken"
        # (N 5): the HTTP/1.1 connection ended with this answer, in an orderly way (close_notify on TLS); (N 6): it ended
        # without close_notify / by a reset after an answer that is complete without that end (HEAD, content-length)
        assert inner[1][0] in (("N", 0), ("N", 5), ("N", 6))
        v, st, hs, b = inner[1][1][1]
        return {"version": v[1], "status": st[1], "headers": sorted((h[1][0][1], h[1][1][1]) for h in hs[1]), "body": b[1],
                "closed": inner[1][0] in (("N", 5), ("N", 6)), "unclean": inner[1][0] == ("N", 6)}
    except Exception:
        return None


def norm(w):
    if not isinstance(w, dict):
        return w
    return (w["status"], [h for h in w["headers"] if h[0] not in HOP], w["body"])


def spec_wire(s):
    try:
        assert s[1][0] == ("N", 0)
        v, st, hs, b = s[1][1][1]
        return (st[1], sorted((h[1][0][1], h[1][1][1]) for h in hs[1]), b[1])
    except Exception:
        return None


def spec_ok(c, i, s):
    try:
        iv, sv = kv.xparse(i), kv.xparse(s)
    except Exception:
        return False
    if c.comp == "proto.answered":
        return iv == sv
    if c.comp == "proto.rst":
        if iv != sv:
            try:
                got = [(a[1][0][1], a[1][1][1]) for a in iv[1][0][1]]
                want = [(a[1][0][1], a[1][1][1]) for a in sv[1][0][1]]
                resets = [2 * r[1] + 1 for r in c.x[1][2][1]]
                lim = [2 * i + 1 for i, v in enumerate(c.x[1][3][1]) if v[1][0] == ("N", 1)]
                c.meta["why"] = ("%d requests as streams %s of one HTTP/2 connection, the client resets stream(s) %s in the same write (the host's limiter "
                                 "answers streams %s): answered (stream, status) %r, connection %s afterwards; every stream that was not reset has to be "
                                 "answered: %r" % (len(c.x[1][1][1]), [2 * i + 1 for i in range(len(c.x[1][1][1]))], resets, lim, got,
                                                   "alive" if iv[1][1] == ("N", 1) else "ENDED", want))[:1500]
            except Exception:
                pass
        return iv == sv
    if c.comp == "proto.head":
        # (L (N 96)): the HTTP/1 front end does not accept this head - not a request both protocols can express, no claim
        if sv == ("L", [("N", 96)]):
            return True
        if iv != sv:
            c.meta["why"] = head_why(c, iv)
        return iv == sv
    if c.comp in PAIRS:
        if iv[0] != "L" or len(iv[1]) != len(sv[1]) or (iv[1] and iv[1][0][0] == "N"):
            return False
        for e, sp in zip(iv[1], sv[1]):
            want = spec_wire(sp)
            for w in e[1]:
                got = wire(w)
                if got in ("refused", "broken"):
                    return False
                if got is None or norm(got) != want:
                    return False
        return True
    ci, cs = canon(iv), canon(sv)
    if ci == cs:
        return True
    if c.comp == "proto.body":
        try:
            body, limits = c.x[1][0][1], [l[1] for l in c.x[1][3][1]]
            h1, h2 = [b[1] for b in iv[1][0][1]], [b[1] for b in iv[1][1][1]]
            def show(rs):
                return ", ".join("%d bytes%s" % (len(r), "" if body.startswith(r) else " (NOT a prefix of the body)") for r in rs)
            c.meta["why"] = ("a %d-byte request body, handler calling read_to_bytes(%s): over HTTP/1.1 it got %s; over HTTP/2 (DATA frames %s...) it got "
                             "%s; specified: the first min(limit, length) bytes, then nothing"
                             % (len(body), "), read_to_bytes(".join(map(str, limits)), show(h1), [f[1] for f in c.x[1][1][1]][:6], show(h2)))
        except Exception:
            pass
        return False
    # which stream did not get the answer of its own request?
    try:
        if ci[1] and ci[1][0][0] == "N":
            c.meta["why"] = "the burst failed: " + kv.pretty(iv, 300)
        else:
            for a, b in zip(ci[1], cs[1]):
                if a != b:
                    wa, wb = wire(a[1][1]), wire(b[1][1])
                    if norm(wa) == norm(wb):
                        c.meta["why"] = ("stream %d: the connection-level part of the answer differs from the specification: %r vs %r"
                                         % (a[1][0][1], wa, wb))[:1500]
                        break
                    c.meta["why"] = ("stream %d (request %s) received %r; its own request alone is answered %r"
                                     % (a[1][0][1], kv.pretty(c.x[1][1][1][1][1][a[1][0][1] - 1], 80), norm(wa), norm(wb)))[:1500]
                    break
    except Exception:
        pass
    return False


def head_why(c, iv):
    def show(e):
        try:
            return "answered %d" % e[1][0][1] if e[1] else "NOT answered"
        except Exception:
            return "?"
    try:
        return ("a %s request with %d header fields - an HTTP/1.1 head of %d bytes (limit 16384), an HTTP/2 header list of %d bytes - "
                "was %s over HTTP/1.1 and %s over HTTP/2" % (c.x[1][1][1][0][1].decode(), c.meta.get("fields", -1), c.meta.get("h1_head", -1),
                                                           c.meta.get("h2_list", -1), show(iv[1][0]), show(iv[1][1])))
    except Exception:
        return "the two front ends disagree: " + kv.pretty(iv, 200)


def head_oracle(c, i):
    """parity itself: a request the HTTP/1 front end answers is answered the same by the HTTP/2 front end"""
    try:
        v = kv.xparse(i)
        h1, h2 = v[1][0][1], v[1][1][1]
    except Exception:
        return "unparsable output"
    if h1 and h1 != h2:
        return head_why(c, v)
    return None


def sbody_oracle(c, i):
    """extensions::stream_body(): the length announced is the number of bytes written, and they are the requested part of the file"""
    try:
        f = c.x[1][0][1]
        rg = [(r[1][0][1], r[1][1][1]) for r in c.x[1][1][1]]
        v = kv.xparse(i)
    except Exception:
        return "unparsable output"
    if v[0] != "L" or (v[1] and v[1][0][0] == "N"):
        return "stream_body answered neither a stream nor 416: " + kv.pretty(v, 200)
    if not v[1]:
        return None if rg and rg[0][0] >= len(f) else "416 for a satisfiable Range %r on a %d-byte file" % (rg, len(f))
    written, ln = v[1][0][1][0][1], v[1][0][1][1][1]
    status, cr = v[1][0][1][2][1], [x[1] for x in v[1][0][1][3][1]]
    a, e = rg[0] if rg else (0, len(f))
    if a >= len(f) and rg:
        return "a Range that starts at or after the end of the %d-byte file was answered with a stream" % len(f)
    if ln != len(written):
        return "stream_body announced %d bytes and wrote %d (file of %d bytes, Range %r)" % (ln, len(written), len(f), rg)
    if written != f[a:min(e, len(f))]:
        return "stream_body wrote other bytes than [%d, %d) of the file" % (a, min(e, len(f)))
    # a Range is answered 206 with content-range: bytes first-last/length (RFC 9110 14.4, 15.3.7); no Range: 200 without
    want = (206, [b"bytes %d-%d/%d" % (a, min(e, len(f)) - 1, len(f))]) if rg else (200, [])
    if (status, cr) != want:
        return "stream_body answered the Range %r of a %d-byte file with status %d, content-range %r (expected %d, %r)" % (
            rg, len(f), status, cr, want[0], want[1])
    return None


def extra_oracle(c, i):
    """parity itself, on the implementation's output only"""
    if c.comp == "proto.sbody":
        return sbody_oracle(c, i)
    if c.comp == "proto.head":
        return head_oracle(c, i)
    if c.comp not in PAIRS:
        return None
    try:
        iv = kv.xparse(i)
    except Exception:
        return "unparsable output"
    if iv[0] != "L" or (iv[1] and iv[1][0][0] == "N"):
        return "the exchange failed: " + kv.pretty(iv, 300)
    for k, e in enumerate(iv[1]):
        w1, w2 = wire(e[1][0]), wire(e[1][1])
        if w1 is None or w2 is None:
            return "request %d: unreadable answer" % k
        if norm(w1) != norm(w2):
            try:
                rq = c.x[1][1][1][1][1][k][1]
                nf = len(rq[2][1])
                size = (" (request %s %s with %d header fields: an HTTP/1.1 head of about %d bytes, an HTTP/2 header list of about %d bytes)"
                        % (rq[0][1].decode(), rq[1][1].decode(), nf, 41 + len(rq[0][1]) + len(rq[1][1]) + sum(len(h[1][0][1]) + len(h[1][1][1]) + 4 for h in rq[2][1]),
                           173 + len(rq[0][1]) + len(rq[1][1]) + sum(len(h[1][0][1]) + len(h[1][1][1]) + 32 for h in rq[2][1]))) if nf > 20 else ""
            except Exception:
                size = ""
            return ("request %d%s: HTTP/1.1 and HTTP/2 answers differ beyond connection-level headers: %r vs %r" % (k, size, norm(w1), norm(w2)))[:3000]
        if isinstance(w1, dict):
            m = c.x[1][5][1][k][1][0][1]
            if m == b"HEAD" and (w1["body"] or w2["body"]):
                return "request %d: a HEAD answer has a body" % k
            cl = [v for n, v in w1["headers"] if n == b"content-length"]
            # (a body that ends with the connection needs no length; the harness has seen the connection end)
            delimited_by_close = w1["closed"] and not cl and (b"connection", b"close") in w1["headers"]
            if m != b"HEAD" and cl != [b"%d" % len(w1["body"])] and not delimited_by_close:
                return "request %d: HTTP/1.1 content-length %r for %d body bytes" % (k, cl, len(w1["body"]))
            if w1["closed"] and k != len(iv[1]) - 1:
                return "request %d: the HTTP/1.1 connection ended before the end of the history" % k
            if w1["status"] in (204, 304) or 100 <= w1["status"] < 200:
                if w1["body"] or w2["body"]:
                    return "request %d: a %d answer has a body" % (k, w1["status"])
            if any(n == b"transfer-encoding" for n, _ in w1["headers"]) and cl:
                return "request %d: HTTP/1.1 answer with content-length and transfer-encoding" % k
            cl2 = [v for n, v in w2["headers"] if n == b"content-length"]
            if m != b"HEAD" and cl2 and cl2 != [b"%d" % len(w2["body"])]:
                return "request %d: HTTP/2 content-length %r for %d body bytes" % (k, cl2, len(w2["body"]))
            if w1["version"] not in (10, 11) or w2["version"] != 20:
                return "request %d: versions %r / %r" % (k, w1["version"], w2["version"])
    return None


def undeclared_body(c):
    """some request of the history carries body bytes with a method whose content-length kvarn's HTTP/1 reader ignores"""
    return any(r[1][3][1] and r[1][0][1] not in BODY_METHODS for r in c.x[1][1][1][1][1])


def second_read(c, i):
    """proto.body with two limits: both protocols return the first [l1] bytes to the first call, HTTP/1.1 nothing to the second
    call and HTTP/2 something (the frames after the one in which the first call hit its limit)"""
    try:
        body, limits = c.x[1][0][1], [l[1] for l in c.x[1][3][1]]
        v = kv.xparse(i)
        h1, h2 = [b[1] for b in v[1][0][1]], [b[1] for b in v[1][1][1]]
        return (len(limits) == 2 and limits[0] < len(body) and h1 == [body[:limits[0]], b""] and len(h2) == 2 and h2[0] == h1[0]
                and h2[1] != b"" and body.endswith(h2[1]))
    except Exception:
        return False


def classify(c, i):
    # (the class h1-unread-request-body was repaired by dfe4d54: fixed: line in known-findings.txt)
    if c.comp == "proto.answered" and i == "(L (N 0) (N 1))" and undeclared_body(c):
        return "h1-undeclared-request-body"
    if c.comp == "proto.body" and second_read(c, i):
        return "h2-body-read-again"
    return None


def signature(c, m):
    import re
    st = re.findall(r"\(L \(N (?:9|10|11|20)\) \(N (\d+)\)", m)
    enc = len(re.findall(r"636f6e74656e742d656e636f64696e67\) \(B (?:677a6970|6272)\)", m))
    return "%s:%s:%d" % (c.comp, ",".join(st[:40]), enc)


def extra_coverage(cases, impl, model, spec):
    pairs = [c for c in cases if c.comp in PAIRS]
    bursts = [c for c in cases if c.comp in ("proto.burst", "proto.burst1", "proto.burst2")]
    import re
    statuses = {}
    for c in cases:
        for st in re.findall(r"\(L \(N (?:10|11|20)\) \(N (\d+)\)", impl.get(c.id) or ""):
            statuses[st] = statuses.get(st, 0) + 1
    return {"answer_statuses_seen": dict(sorted(statuses.items())),
            "histories_through_both_protocols": len(pairs),
            "requests_through_both_protocols": sum(len(c.x[1][5][1]) for c in pairs),
            "histories_through_complete_servers_(RunConfig::execute)": len([c for c in cases if c.comp == "proto.server"]),
            "bursts": len(bursts),
            "concurrent_streams": sum(c.meta.get("streams", 0) for c in bursts),
            "max_streams_in_one_burst": max([c.meta.get("streams", 0) for c in bursts] or [0]),
            "cancelled_streams": sum(c.meta.get("cancelled", 0) for c in bursts),
            "bursts_over_two_connections": len([c for c in cases if c.comp == "proto.burst2"]),
            "streamed_exchanges_through_both_protocols": sum(1 for c in pairs for e in c.x[1][5][1] if len(e[1]) > 6 and e[1][6][1][1][1]),
            "limiter_answered_exchanges": sum(1 for c in pairs for e in c.x[1][5][1] if len(e[1]) > 6 and e[1][6][1][0] == ("N", 1)),
            "answers_that_end_the_http1_connection": sum((impl.get(c.id) or "").count("(L (N 5) (L (N 1") for c in cases),
            "exchanges_on_paths_with_vary_rules": sum(1 for c in pairs for e in c.x[1][5][1] if len(e[1]) > 6 and len(e[1][6][1]) > 2 and e[1][6][1][2][1]),
            "request_body_reads_(proto.body)": len([c for c in cases if c.comp == "proto.body"]),
            "batches_with_reset_streams_(proto.rst)": len([c for c in cases if c.comp == "proto.rst"]),
            "streams_reset_by_the_client_in_them": sum(c.meta.get("reset", 0) for c in cases if c.comp == "proto.rst"),
            "of_which_answered_by_the_limiter": sum(c.meta.get("reset_and_limited", 0) for c in cases if c.comp == "proto.rst"),
            "request_heads_at_the_front_end_limits_(proto.head)": len([c for c in cases if c.comp == "proto.head"]),
            "of_which_beyond_the_http1_head_limit": len([c for c in cases if c.comp == "proto.head" and c.meta.get("h1_head", 0) > H1_MAX_HEAD]),
            "requests_with_100+_header_fields_through_both_protocols": sum(1 for c in pairs for r in c.x[1][1][1][1][1] if len(r[1][2][1]) >= 100),
            "largest_http2_header_list_through_both_protocols": max([173 + sum(len(h[1][0][1]) + len(h[1][1][1]) + 32 for h in r[1][2][1])
                                                                     for c in pairs for r in c.x[1][1][1][1][1]] or [0]),
            "http1_connections_ended_without_close_notify": sum((impl.get(c.id) or "").count("(L (N 6) (L (N 1") for c in cases),
            "layer4_probes": _STATS["probes"], "layer4_probe_failures": _STATS["probe_failures"]}
