"""C06 — compression is lossless, correctly labelled and only what the client accepts."""
import re
import resource
import struct

from kv import Case, xn, xb, xl, xlist, xbool, xopt, xparse

ID = "C06"
MODULE = "C06"
IMPORTS = "Bytes RustInt Range Negotiate NegotiateProofs ListHeaderProofs"
PROFILES = ("dev", "nochk")
KERNEL_SAMPLE = 30
# the extracted model recurses over the body (1 MiB in the thorough tier): give the model driver, a child of this
# process, the stack the hard limit allows (the soft default of 8 MiB is too small for a million-element list)
try:
    _soft, _hard = resource.getrlimit(resource.RLIMIT_STACK)
    resource.setrlimit(resource.RLIMIT_STACK, (_hard, _hard))
except (ValueError, OSError):
    pass
SV = "forall (parse_q : bytes -> option qclass) (parse_mime : bytes -> option mime) (enc : alg -> N -> bytes -> bytes)"
THEOREMS = [
    ("chosen_is_listed", SV + r""" (c : cresp) (ae : option bytes) (o : options) (l : option bytes) (b : bytes) (ch : coding) (c' : cresp),
       clone_preferred parse_q parse_mime enc c ae o = (Sent l b ch, c') ->
       ch = Identity \/ (exists (a : alg) (h : bytes) (q : qclass), ch = Alg a /\ ae = Some h /\ to_str_ok h = true /\
                         In (alg_name a, q) (list_header parse_q h) /\ q <> QZero)"""),
    ("chosen_occurs_in_header", SV + r""" (c : cresp) (ae : option bytes) (o : options) (l : option bytes) (b : bytes) (a : alg) (c' : cresp),
       clone_preferred parse_q parse_mime enc c ae o = (Sent l b (Alg a), c') -> exists h, ae = Some h /\ substr (alg_name a) h"""),
    ("never_refused", SV + r""" (c : cresp) (ae : option bytes) (o : options) (l : option bytes) (b : bytes) (a : alg) (c' : cresp),
       clone_preferred parse_q parse_mime enc c ae o = (Sent l b (Alg a), c') ->
       ~ (forall q : qclass, In (alg_name a, q) (header_values parse_q ae) -> q = QZero)"""),
    ("identity_refusal_honoured", SV + r""" (c : cresp) (ae : option bytes) (o : options) (r : reply) (c' : cresp),
       cr_compress c = true -> In (s_identity, QZero) (header_values parse_q ae) ->
       clone_preferred parse_q parse_mime enc c ae o = (r, c') -> forall (l : option bytes) (b : bytes), r <> Sent l b Identity"""),
    ("floors", SV + r""" (body : bytes) (ct : option bytes) (compress : bool) (ae : option bytes) (o : options),
       (length body < 50)%nat \/ compress = false ->
       clone_preferred parse_q parse_mime enc (cresp_new body ct compress) ae o =
       (Sent (match body with [] => None | _ => Some s_identity end) body Identity, cresp_new body ct compress)"""),
    ("floors_content_type", SV + r""" (c : cresp) (ae : option bytes) (o : options) (r : reply) (c' : cresp),
       compressible parse_mime c = false -> clone_preferred parse_q parse_mime enc c ae o = (r, c') ->
       c' = c /\ (r = NotAcceptable \/
                  r = Sent (match cr_body c with [] => None | _ => Some s_identity end) (cr_body c) Identity)"""),
    ("label_matches_body", SV + r""" (c : cresp) (ae : option bytes) (o : options) (l : option bytes) (b : bytes) (ch : coding) (c' : cresp),
       cells_ok enc c -> clone_preferred parse_q parse_mime enc c ae o = (Sent l b ch, c') ->
       l = match b with [] => None | _ => Some (coding_name ch) end /\
       match ch with
       | Identity => b = cr_body c /\ c' = c
       | Alg a => (exists level, b = enc a level (cr_body c)) /\ cell_get a c' = Some b
       end /\
       cells_ok enc c' /\ cr_body c' = cr_body c /\ cr_compress c' = cr_compress c /\ cr_ctype c' = cr_ctype c"""),
    ("memoised_bytes_reused", r"""forall (enc : alg -> N -> bytes -> bytes) (a : alg) (level : N) (c : cresp) (b : bytes),
       cell_get a c = Some b -> get_alg enc a level c = (b, c)"""),
    ("lossless_partial", SV + r""" (dec : alg -> bytes -> bytes),
       (forall a level b, dec a (enc a level b) = b) -> (forall a level b, enc a level b <> []) ->
       forall pg reqs,
         Forall (fun r => r = NotAcceptable \/
                          exists l b ch, r = Sent l b ch /\ decode_label dec l b = Some (pg_body pg))
                (serve parse_q parse_mime enc pg None reqs)"""),
    ("not_acceptable_iff", SV + r""" (c : cresp) (ae : option bytes) (o : options),
       fst (clone_preferred parse_q parse_mime enc c ae o) = NotAcceptable <->
       cr_compress c = true /\ In (s_identity, QZero) (header_values parse_q ae) /\
       (compressible parse_mime c = false \/ forall a, contains (header_values parse_q ae) (alg_name a) = false)"""),
    ("preference_order", r"""forall p cz cb cg,
       pick p cz cb cg =
       match p with
       | PZstd => if cz then Some Zstd else if cb then Some Br else if cg then Some Gzip else None
       | PBr => if cb then Some Br else if cz then Some Zstd else if cg then Some Gzip else None
       | PGzip => if cg then Some Gzip else if cz then Some Zstd else if cb then Some Br else None
       | PNone => if cz then Some Zstd else if cb then Some Br else if cg then Some Gzip else None
       end"""),
    ("list_header_wf", r"""forall parse_q : bytes -> option qclass,
       (forall s c, parse_q s <> None -> In c s -> numberish c = true) ->
       forall ms, ms <> [] -> forallb member_ok ms = true ->
       list_header parse_q (members_text ms) = map (member_ref parse_q) ms"""),
    ("list_header_total", r"""forall (parse_q : bytes -> option qclass) (h : bytes),
       exists l, list_header parse_q h = l /\ (length l <= S (commas h))%nat"""),
    ("memo_invariant", r"""forall (P : bytes -> Prop) (vals : list bytes) (n : nat) (cell : option bytes) (sched : list nat),
       (forall i, (i < n)%nat -> P (nth i vals [])) -> (forall b, cell = Some b -> P b) ->
       let st := mrun vals (minit cell n) sched in
       (forall b, m_cell st = Some b -> P b) /\
       (forall i r, nth_error (m_pcs st) i = Some (PDone r) -> exists b, r = Ok b /\ P b)"""),
    ("memo_write_once", r"""forall vals sched st b, m_cell st = Some b -> m_cell (mrun vals st sched) = Some b"""),
    ("memo_completes", r"""forall vals cell n sched,
       (forall i, (i < n)%nat -> (4 <= count_occ Nat.eq_dec sched i)%nat) ->
       forallb pc_done (m_pcs (mrun vals (minit cell n) sched)) = true"""),
    ("list_header_ows_v0_refuted", r"""exists ms, ms <> [] /\ forallb member_ok ms = true /\
       list_header_gen parse_q_dec false (members_text ms) <> map (member_ref parse_q_dec) ms /\
       In (B "gzip", QOne) (list_header_gen parse_q_dec false (members_text ms))"""),
]

# ------------------------------------------------------------------------------------------
# reference readings, independent of the Coq model
# ------------------------------------------------------------------------------------------
PLAIN_DEC = re.compile(rb"(\d+\.?\d*|\.\d+)\Z")
# a tail of a list member that Rust's f32::from_str may accept but the model's decimal stand-in does not
EXOTIC_TAIL = re.compile(rb"(?i)(inf|infinity|nan|[0-9.][e][+-]?[0-9]+|[+-][0-9]*\.?[0-9]*)[ \t]*\Z")


def f32class(s):
    """0: parses to 0.0f32, 1: to 1.0f32, 2: another value, None: not a plain decimal."""
    if not PLAIN_DEC.match(s):
        return None
    try:
        v = struct.unpack("f", struct.pack("f", float(s)))[0]
    except OverflowError:
        return 2
    return 0 if v == 0.0 else (1 if v == 1.0 else 2)


def header_ood(h):
    """True if some list member ends in a number form outside the stand-in's domain (sign, exponent, inf, nan)."""
    if h is None:
        return False
    for seg in h.split(b","):
        m = EXOTIC_TAIL.search(seg)
        if m and re.search(rb"(?i)[0-9]|inf|nan", m.group(0)):
            return True
    return False


def ref_accept(ae):
    """Reference reading of Accept-Encoding (RFC 7231 5.3.4): coding -> list of qualities (f32 classes)."""
    out = {}
    for member in ae.split(b","):
        member = member.strip(b" \t")
        if not member:
            continue
        name, _, weight = member.partition(b";")
        k, _, v = weight.strip(b" \t").partition(b"=")
        q = f32class(v.strip(b" \t")) if k.strip(b" \t").lower() == b"q" else 1
        out.setdefault(name.strip(b" \t"), []).append(1 if q is None else q)
    return out


def label_acceptable(ae, label):
    """label in {gzip, br, zstd}: listed with some non-zero quality."""
    acc = ref_accept(ae)
    return any(q != 0 for q in acc.get(label, []))


def identity_refused(ae):
    acc = ref_accept(ae)
    if b"identity" in acc:
        return any(q == 0 for q in acc[b"identity"])
    return any(q == 0 for q in acc.get(b"*", []))


# ------------------------------------------------------------------------------------------
# generators
# ------------------------------------------------------------------------------------------
CODINGS = [b"gzip", b"br", b"zstd", b"identity", b"deflate", b"compress", b"*", b"x-gzip", b"foo", b"GZIP", b"zstd", b"gzip", b"br"]
QVALUES = [b"0", b"0.0", b"0.00", b"0.000", b"0.", b"0.5", b"0.001", b"0.999", b"1", b"1.0", b"1.000", b"1.", b".5", b".0",
           b"0.3", b"0.8", b"0.9", b"0.0000000000000000000000000000000000000000000001", b"0.99999999", b"1.00000001", b"2"]
ZERO_Q = [b"0", b"0.0", b"0.000", b"0."]


def grammar_header(rng, strict=False, codings=None):
    """A header from the RFC 7231 grammar (OWS = SP / HTAB); returns (text, [(coding, f32 class)])."""
    n = rng.choice([1, 1, 2, 2, 3, 4, 6])
    parts, exp = [], []
    ows = (lambda: b"") if strict else (lambda: rng.choice([b"", b"", b"", b" ", b"\t", b"  ", b" \t"]))
    for i in range(n):
        c = rng.choice(codings or CODINGS)
        t = c
        cls = 1
        if rng.random() < 0.65:
            qv = rng.choice(ZERO_Q) if rng.random() < 0.3 else rng.choice(QVALUES)
            t = c + ows() + b";" + (ows() if not strict else rng.choice([b"", b" "])) + rng.choice([b"q=", b"q=", b"q=", b"Q="]) + qv
            cls = f32class(qv)
        if i > 0:
            t = (rng.choice([b"", b" "]) if strict else ows()) + t
        parts.append(t + (b"" if strict else ows()))
        exp.append((c, cls))
    return b",".join(parts), exp


GARBAGE_ALPHABET = [bytes([c]) for c in b"gzipbrstdenty,,;;==qq  ..0015\t*-+eaf"] + ["å".encode(), "…".encode(), b"Q", b"9"]


def garbage_header(rng, ascii_only=False):
    r = rng.random()
    if r < 0.4:
        h, _ = grammar_header(rng)
        h = bytearray(h)
        for _ in range(rng.randrange(1, 4)):
            pos = rng.randrange(len(h) + 1)
            op = rng.randrange(3)
            ch = rng.choice(GARBAGE_ALPHABET)
            if ascii_only and ch[0] >= 0x80:
                ch = b";"
            if op == 0:
                h[pos:pos] = ch
            elif op == 1 and h:
                del h[min(pos, len(h) - 1)]
            elif h:
                p = min(pos, len(h) - 1)
                h[p:p + 1] = ch
        try:
            bytes(h).decode("utf-8")
        except UnicodeDecodeError:
            return b";q=0,gzip"
        return bytes(h)
    out = b""
    for _ in range(rng.randrange(0, 24)):
        ch = rng.choice(GARBAGE_ALPHABET)
        if ascii_only and ch[0] >= 0x80:
            continue
        out += ch
    return out


# content types: (text, expectation of the hand-written table: True compressible, False not, None unparsable)
CTYPES = [
    (b"text/html", True), (b"text/plain", True), (b"text/css", True), (b"TEXT/HTML", True), (b"text/html; charset=utf-8", True),
    (b"text/html;charset=utf-8", True), (b"application/json", True), (b"application/javascript", True), (b"application/xml", True),
    (b"application/graphql", True), (b"application/wasm", True), (b"application/octet-stream", True), (b"image/svg+xml", True),
    (b"image/svg", True), (b"multipart/form-data", True), (b"message/rfc822", True), (b"x-foo/bar", True), (b"model/gltf+json", True),
    (b"text/x.y+z+json", True), (b"Application/JSON", True),
    (b"image/png", False), (b"image/jpeg", False), (b"image/svgz", False), (b"font/woff2", False), (b"video/mp4", False),
    (b"audio/ogg", False), (b"*/*", False), (b"*/x", False), (b"application/pdf", False), (b"application/zip", False),
    (b"text/zip", False), (b"x/zstd", False), (b"application/zstd", False), (b"application/x-tar", False), (b"application/gzip", False),
    (b"application/xhtml+xml", False), (b"application/ld+json", False), (b"application/pdf; charset=utf-8", False),
    (b"image/+svg", False),
    (b"garbage", None), (b"/x", None), (b"a b/c", None), (b"tex@t/html", None), (b"", None), (b"text/html\xff", None),
    (b"text/ht ml", None),
]
PREFS = [0, 1, 2, 3]  # None, Gzip, Brotli, Zstd


def body_specs(tier):
    specs = [("0", xl(xn(0), xb(b""))), ("1", xl(xn(0), xb(b"x"))), ("49", xl(xn(1), xn(97), xn(49))), ("50", xl(xn(1), xn(97), xn(50))),
             ("51", xl(xn(2), xn(7), xn(51))), ("50r", xl(xn(2), xn(3), xn(50))), ("4Kz", xl(xn(1), xn(0), xn(4096))),
             ("4Kr", xl(xn(2), xn(1), xn(4096))), ("300t", xl(xn(0), xb(b"<html><body>" + b"lorem ipsum dolor " * 16 + b"</body></html>")))]
    return specs


BIG_BODIES = [("1Mz", xl(xn(1), xn(0), xn(1048576)), 1048576), ("1Mr", xl(xn(2), xn(5), xn(1048576)), 1048576),
              ("64Kr", xl(xn(2), xn(9), xn(65536)), 65536)]
BODY_LEN = {"1Mz": 1048576, "1Mr": 1048576, "64Kr": 65536, "0": 0, "1": 1, "49": 49, "50": 50, "51": 51, "50r": 50, "4Kz": 4096, "4Kr": 4096, "300t": 12 + 18 * 16 + 14}


def req1(ae):
    return xl(xn(0), xopt(None if ae is None else xb(ae)))


def reqn(ae, n):
    return xl(xn(1), xopt(None if ae is None else xb(ae)), xn(n))


def pipe_case(body, ctype, compress, cache, p1, p2, reqs, meta):
    """reqs: list of (ae, n) with n = 0 for a single request, n >= 2 for n concurrent ones."""
    bname, bspec = body
    x = xl(xl(bspec, xopt(None if ctype is None else xb(ctype[0])), xbool(compress), xbool(cache), xn(p1), xn(p2)),
           xlist([req1(ae) if n == 0 else reqn(ae, n) for ae, n in reqs]))
    m = dict(meta)
    m.update({"body": bname, "blen": BODY_LEN[bname], "ctype": ctype, "compress": compress, "cache": cache, "reqs": reqs, "prefs": (p1, p2)})
    if ctype is None and BODY_LEN.get(bname, 1) > 0:
        m["ood"] = True          # content type would be sniffed from the bytes (not modelled)
    if any(header_ood(ae) for ae, _ in reqs):
        m["ood"] = True
    return Case("neg.pipe", x, None, m)


def lh_case(h, meta, profile):
    m = dict(meta)
    m["header"] = h
    if header_ood(h):
        m["ood"] = True
    return Case("neg.list_header", xb(h), None, m, profile)


DIRECTED_AE = [
    None, b"", b"gzip", b"br", b"zstd", b"identity", b"gzip, br, zstd", b"gzip;q=0", b"gzip;q=0, br", b"gzip;q=0.0, br;q=0.000, zstd;q=0",
    b"identity;q=0", b"identity;q=0, gzip", b"identity;q=0, gzip;q=0", b"*;q=0", b"*;q=0, gzip", b"*", b"gzip;q=0.5, br;q=1.000",
    b"gzip;q=0 , br", b"gzip ;q=0", b"gzip;q=0\t,\tbr", b"identity ;q=0", b"identity; q=0", b"identity;q=1", b"identity;q=1.0",
    b"identity, gzip;q=0", b"gzip, gzip;q=0", b"gzip;q=0, gzip", b"deflate, compress", b"GZIP", b"gzip;Q=0", b"br;q=0.001", b"zstd;q=1.000",
    b"gzip\xff", b"0", b"0,gzip", b"gzip;q=0.0000000000000000000000000000000000000000000001", b"identity;q=0.0000000000000000000000000000000000000000000001",
    b"gzip;q= 0", b"gzip;q=0;x=1", b"gzip;x=1;q=0", b" gzip", b"gzip ", b",gzip", b"gzip,", b"gzip,,br", b"zstd;q=0,br;q=0,gzip;q=0,identity;q=0",
]


def generate(rng, tier):
    cases = []
    quick = tier == "quick"
    bodies = body_specs(tier)
    text = (b"text/html", True)
    # ---- pipeline: directed Accept-Encoding x sizes around the floor ------------------------------------------------------
    for ae in DIRECTED_AE:
        for b in bodies if not quick else [bodies[2], bodies[3], bodies[7]]:
            cases.append(pipe_case(b, text, True, True, 3, 3, [(ae, 0), (ae, 0)], {"kind": "pipe/directed", "grammar": False}))
    # every content type x a compressible-size body
    for ct in CTYPES:
        for ae in (b"gzip, br, zstd", b"identity;q=0, gzip"):
            cases.append(pipe_case(bodies[7], ct, True, rng.random() < 0.5, rng.choice(PREFS), rng.choice(PREFS), [(ae, 0)],
                                   {"kind": "pipe/ctype", "grammar": True}))
    # every preferred algorithm x every subset of codings
    for p in PREFS:
        for mask in range(8):
            ae = b", ".join(c for i, c in enumerate([b"gzip", b"br", b"zstd"]) if mask >> i & 1)
            for cache in (True, False):
                cases.append(pipe_case(bodies[6], text, True, cache, p, p, [(ae, 0), (ae, 0)], {"kind": "pipe/pref", "grammar": True}))
    # memoisation: an entry created by an identity-only request, then n concurrent first requests of one coding, then again
    for coding in (b"gzip", b"br", b"zstd"):
        for n in (2, 8, 32) if quick else (2, 3, 8, 32, 64):
            for b in (bodies[6], bodies[7]):
                cases.append(pipe_case(b, text, True, True, 3, 3, [(b"identity", 0), (coding, n), (coding, 0), (b"gzip, br, zstd", 2)],
                                       {"kind": "pipe/concurrent", "grammar": True}))
                cases.append(pipe_case(b, text, True, True, 0, 0, [(coding, n), (coding, n)], {"kind": "pipe/concurrent", "grammar": True}))
    # random scenarios
    nrand = 260 if quick else 6000
    for _ in range(nrand):
        b = rng.choice(bodies)
        ct = rng.choice(CTYPES) if rng.random() < 0.45 else rng.choice(CTYPES[:6])
        reqs = []
        grammar = True
        for _ in range(rng.choice([1, 2, 2, 3, 4])):
            r = rng.random()
            if r < 0.08:
                ae = None
            elif r < 0.70:
                ae, _ = grammar_header(rng, codings=[b"gzip", b"br", b"zstd", b"identity", b"*", b"deflate", b"gzip", b"br", b"zstd"])
            elif r < 0.80:
                ae = rng.choice(DIRECTED_AE)
                grammar = False
            else:
                ae = garbage_header(rng, ascii_only=rng.random() < 0.8)
                grammar = False
            reqs.append((ae, 0 if rng.random() < 0.85 else rng.choice([2, 3, 5])))
        cases.append(pipe_case(b, ct, rng.random() < 0.85, rng.random() < 0.6, rng.choice(PREFS), rng.choice(PREFS), reqs,
                               {"kind": "pipe/random", "grammar": grammar}))
    if not quick:
        for name, spec, n in BIG_BODIES:
            for p in PREFS:
                for cache in (True, False):
                    cases.append(pipe_case((name, spec), text, True, cache, p, p, [(b"gzip, br, zstd", 0), (b"gzip", 0), (b"br", 2), (b"zstd", 0)],
                                           {"kind": "pipe/big", "grammar": True}))
    # ---- mime / do_compress directly ----------------------------------------------------------------------------------------
    for ct, _ in CTYPES:
        cases.append(Case("neg.mime", xb(ct), None, {"kind": "mime/table", "ctype": ct}))
    toks = [b"text", b"image", b"font", b"video", b"audio", b"application", b"*", b"svg", b"zip", b"zstd", b"pdf", b"json", b"xml", b"wasm",
            b"javascript", b"graphql", b"octet-stream", b"x", b"PNG", b"Image", b"a.b", b"x-y_z", b""]
    for _ in range(300 if quick else 5000):
        t = rng.choice(toks) + b"/" + rng.choice(toks)
        if rng.random() < 0.3:
            t += b"+" + rng.choice(toks)
        if rng.random() < 0.2:
            t += rng.choice([b"; charset=utf-8", b";charset=utf-8", b"; Charset=UTF-8"])
        cases.append(Case("neg.mime", xb(t), None, {"kind": "mime/random", "ctype": t}))
    # ---- list_header directly, both profiles --------------------------------------------------------------------------------
    for h in DIRECTED_AE:
        if h is not None and b"\xff" not in h:
            for prof in PROFILES:
                cases.append(lh_case(h, {"kind": "lh/directed"}, prof))
    for _ in range(1500 if quick else 40000):
        h, exp = grammar_header(rng, strict=rng.random() < 0.3)
        cases.append(lh_case(h, {"kind": "lh/grammar", "expect": exp}, rng.choice(PROFILES)))
    for _ in range(1500 if quick else 40000):
        cases.append(lh_case(garbage_header(rng), {"kind": "lh/garbage"}, rng.choice(PROFILES)))
    return cases


TOKEN = rb"[!#$%&'*+\-.^_`|~0-9A-Za-z]+"
MEMBER = rb"[ \t]*" + TOKEN + rb"(?:[ \t]*;[ \t]*[qQ]=(?:\d+\.?\d*|\.\d+))?[ \t]*"
GRAMMAR = re.compile(MEMBER + rb"(?:," + MEMBER + rb")*\Z")


NUMBERISH = re.compile(rb"[0-9.+\-eEiInNfFaAtTyY]+\Z")


def in_grammar(h):
    """RFC 7231 #( codings [ weight ] ) with OWS, non-empty members, weights any plain decimal; coding names that
    consist only of characters of a number (digits . + - e and the letters of inf/nan/infinity) are excluded: a
    member without weight is given the f32 value of the text before it (list_header_wf states the same condition)."""
    if h is None or GRAMMAR.match(h) is None:
        return False
    return not any(NUMBERISH.match(m.strip(b" \t").partition(b";")[0].strip(b" \t")) for m in h.split(b","))


def ref_parse(h):
    out = []
    for member in h.split(b","):
        name, _, weight = member.strip(b" \t").partition(b";")
        q = 1 if not weight else f32class(weight.strip(b" \t")[2:])
        out.append((name.strip(b" \t"), q))
    return out


def fill_meta(c):
    """replay files carry only the input: recompute what the oracles need from it"""
    m = c.meta
    if c.comp == "neg.list_header" and "header" not in m:
        m["header"] = bytes(c.x[1])
        m["ood"] = header_ood(m["header"])
    if c.comp == "neg.pipe" and "reqs" not in m:
        cfg, reqs = c.x[1]
        body, ct, compress, cache, p1, p2 = cfg[1]
        kind = body[1][0][1]
        m["blen"] = len(body[1][1][1]) if kind == 0 else body[1][2][1]
        ctv = bytes(ct[1][0][1]) if ct[1] else None
        m["ctype"] = None if ctv is None else (ctv, dict(CTYPES).get(ctv, "unknown"))
        m["compress"] = bool(compress[1])
        m["reqs"] = [((bytes(r[1][1][1][0][1]) if r[1][1][1] else None), (r[1][2][1] if r[1][0][1] == 1 else 0)) for r in reqs[1]]
        m["ood"] = (ctv is None and m["blen"] > 0) or any(header_ood(ae) for ae, _ in m["reqs"])
    return m


def out_of_domain(c, i):
    return i.startswith("(L (N 96)") or bool(fill_meta(c).get("ood"))


# ------------------------------------------------------------------------------------------
# specification oracles on the implementation's output (independent of the model)
# ------------------------------------------------------------------------------------------
def _b(x):
    return x[1]


def extra_oracle(c, i):
    try:
        v = xparse(i)
    except Exception:
        return "unparsable harness output"
    if v == ("L", [("N", 2)]):
        return "panic"
    if c.comp == "neg.list_header":
        if v[0] != "L" or len(v[1]) != 2 or v[1][0] != ("N", 0):
            return "list_header did not return"
        got = [(bytes(_b(e[1][0])), e[1][1][1]) for e in v[1][1][1]]
        h = fill_meta(c)["header"]
        if len(got) > h.count(b",") + 1:
            return "more values than list members"
        for val, _ in got:
            if val not in h:
                return "value %r is not a substring of the header" % val
        exp = ref_parse(h) if in_grammar(h) else None
        if exp is not None and got != [(a, q) for a, q in exp]:
            return "RFC 7231 grammar header: reference parse %r, list_header returned %r" % (exp, got)
        return None
    if c.comp == "neg.mime":
        return None
    if c.comp != "neg.pipe":
        return None
    if v[0] != "L":
        return "bad output"
    m = fill_meta(c)
    blen = m["blen"]
    ct = m["ctype"]
    for (ae, n), grp in zip(m["reqs"], v[1]):
        for r in grp[1]:
            f = r[1]
            status = f[0][1]
            if status == 406:
                if ae is None or not identity_refused(ae):
                    if ae is None or in_grammar(ae):
                        return "406 although identity is not refused by %r" % (ae,)
                continue
            if status != 200 or len(f) != 7:
                return "unexpected status %r" % (status,)
            label = bytes(_b(f[1][1][0])) if f[1][1] else None
            decode_ok, decoded_eq, dlen, raw_is_identity, same = f[2][1], f[3][1], f[4][1], f[5][1], f[6][1]
            if not decode_ok:
                return "body labelled %r is not a complete stream for the standard decoder (Accept-Encoding %r)" % (label, ae)
            if not decoded_eq or dlen != blen:
                return "body labelled %r does not decode to the identity body (Accept-Encoding %r)" % (label, ae)
            if not same:
                return "a later reply labelled %r carries other bytes than the first one" % (label,)
            if label not in (None, b"identity", b"gzip", b"br", b"zstd"):
                return "unknown content-encoding %r" % (label,)
            if label in (None, b"identity"):
                if not raw_is_identity:
                    return "identity-labelled body is not the identity body"
                if (label is None) != (blen == 0):
                    return "content-encoding presence does not follow the empty-body rule"
                continue
            # compressed
            if ae is None:
                return "compressed (%r) without Accept-Encoding" % label
            if in_grammar(ae):
                if not label_acceptable(ae, label):
                    return "coding %r is not listed with non-zero quality in %r" % (label, ae)
            elif label not in ae:
                return "coding %r does not occur in %r" % (label, ae)
            if blen < 50:
                return "body of %d bytes (< 50) sent as %r" % (blen, label)
            if not m["compress"]:
                return "handler opted out of compression but the body was sent as %r" % label
            if ct is None or ct[1] not in (True, "unknown"):
                return "content type %r is not compressible but the body was sent as %r" % (ct, label)
    return None


def extra_coverage(cases, impl, model, spec):
    """what the run exercised: replies per label, 406s, decoded streams, concurrent groups, out-of-domain reasons"""
    labels, decoded, n406, groups, maxn, big = {}, 0, 0, 0, 0, 0
    ood_q, ood_ct = 0, 0
    for c in cases:
        i = impl.get(c.id)
        if i is None:
            continue
        m = fill_meta(c)
        if m.get("ood"):
            if c.comp == "neg.pipe" and m.get("ctype") is None:
                ood_ct += 1
            else:
                ood_q += 1
            continue
        if c.comp != "neg.pipe" or i.startswith("(L (N 96)") or i.startswith("(L (N 2)"):
            continue
        try:
            v = xparse(i)
        except Exception:
            continue
        big += m["blen"] >= 65536
        for (ae, n), grp in zip(m["reqs"], v[1]):
            if n:
                groups += 1
                maxn = max(maxn, n)
            for r in grp[1]:
                f = r[1]
                if f[0][1] == 406:
                    n406 += 1
                elif len(f) == 7:
                    lab = bytes(f[1][1][0][1]).decode() if f[1][1] else "(none)"
                    labels[lab] = labels.get(lab, 0) + 1
                    decoded += lab in ("gzip", "br", "zstd") and f[2][1] == 1 and f[3][1] == 1
    return {"replies_by_content_encoding": labels, "replies_406": n406, "compressed_replies_decoded_to_identity_body": decoded,
            "concurrent_groups": groups, "max_concurrent_requests": maxn, "cases_with_body_of_64KiB_or_more": big,
            "out_of_domain_exotic_quality_text": ood_q, "out_of_domain_sniffed_content_type": ood_ct}


def signature(c, m):
    if c.comp == "neg.pipe":
        if "(N 406)" in m or "(B 677a6970)" in m or "(B 6272)" in m or "(B 7a737464)" in m:
            return m[:200]
        return None
    if c.comp == "neg.list_header":
        return m[:60] if "(N 0))" in m or "(N 2))" in m else None
    return m[:40]


def directed(rng, mismatches):
    return generate(rng, "quick")


def describe(c):
    import kv
    d = {"component": c.comp, "kind": c.meta.get("kind"), "profile": c.profile, "input": kv.pretty(c.x, 300)}
    return d


RULE = ("(a) neg.pipe: the real kvarn::handle_cache, in process, on one page per case: body in {0, 1, 49, 50, 51 bytes, 300 bytes of text, 4 KiB zeros, "
        "4 KiB pseudo-random; thorough: + 64 KiB, 1 MiB zeros, 1 MiB pseudo-random} x 46 content types (every branch of do_compress, unparsable, "
        "non-ASCII) x handler opt-out x cached / one-shot option sets x the four preferred algorithms (independently for both sets) x 1-4 requests "
        "(single, or n = 2..64 concurrent ones joined on one thread) with Accept-Encoding from the RFC 7231 grammar (codings, q in {0, 0.0, 0.000, 0., "
        "0.5, 0.001, 0.999, 1, 1.0, 1.000, .5, 1e-46 written out, ...}, OWS, duplicates, unknown codings, *), mutated / random garbage, non-ASCII "
        "bytes, none.  The harness decodes every reply body with the standard decoder of the algorithm named in content-encoding (flate2 MultiGzDecoder, "
        "brotli BrotliDecompress, zstd decode_all) and reports status, label, complete-stream, decoded == identity body (also == CacheReply.identity_body), "
        "length, bytes == identity bytes, bytes == bytes of the first reply with this label; the extracted model predicts the same tuple (its encoders are "
        "stand-ins: only label / status / equalities are compared).  (b) neg.list_header: kvarn_utils::parse::list_header directly, dev and nochk profiles, "
        "on grammar, mutated and random UTF-8 text, compared with the byte-level model (qualities by class: == 0.0, == 1.0, other).  (c) neg.mime: "
        "Mime::from_str + comprash::do_compress vs the model's stand-in parser and do_compress.  Spec oracles independent of the model (extra_oracle): "
        "every 200 reply decodes as a complete stream to exactly the identity body; its label is identity / absent(empty body) or a coding listed with "
        "non-zero quality per a reference reading of Accept-Encoding (split on ',', strip OWS, weight after ';'); bodies < 50 bytes, opted-out handlers and "
        "content types marked not compressible in a hand-written table are sent as identity; 406 only if identity is refused per the reference reading; "
        "repeated replies with one label carry the same bytes; list_header on a grammar header equals the reference parse.  "
        "distinct_nontrivial = distinct (input, model outcome) with a compressed label or a 406 (pipe), a zero / other quality (list_header), any (mime)")
ASSUMPTIONS = [
    "encoders (flate2 GzEncoder, brotli CompressorWriter, zstd Encoder) are a Section variable; lossless_partial assumes a decoder inverts them and "
    "that their output is non-empty; this is validated on every run by the standard decoders on the bytes kvarn sends, not proved (DEFLATE / Brotli / "
    "Zstandard have no Gallina model here)",
    "f32::from_str and Mime::from_str are Section variables in every theorem; the correspondence run instantiates them with stand-ins exact on plain "
    "decimals (digits with at most one '.', compared exactly against the binary32 rounding thresholds) and on 'type/subtype[+suffix][; charset=utf-8]'; "
    "list members ending in a signed / exponent / inf / nan form and a sniffed (absent) content type on a non-empty body are out of domain and counted",
    "memo cell: sequentially consistent interleavings only; the unsynchronised UnsafeCell write is a data race in Rust's memory model and nothing is "
    "claimed about it; the run exercises the interleavings that n futures joined on one thread produce (all check, all compute, first writes)",
    "the handler sets no content-encoding of its own; check_content_type only appends a charset parameter (type / subtype unchanged); GET, status 200, "
    "no vary rules; admission to the response cache is C04's subject (here: ServerCachePreference::Full => cached, None => not cached)",
    "list_header_wf: names made only of number characters (0-9 . + - e E and the letters of inf / nan / infinity) are excluded, a member without weight "
    "is given the f32 value of the text in front of it (Accept-Encoding: 0 yields quality 0.0 for the coding '0'); no registered coding has such a name",
    "not interpreted by the code and stated as such (examples star_is_not_interpreted, floor_beats_refusal): '*' (also '*;q=0'), case-insensitive coding "
    "names, and identity;q=0 on bodies under the floor / opted-out handlers (RFC 7231 5.3.4 lets a server answer without content-coding there)",
]
TRUSTED = ["modelled: utils/src/parse.rs list_header (+ trim_ows); src/comprash.rs do_compress, CompressionOptions, CompressedResponse::{new (floor), "
           "clone_preferred, clone_identity_set_compression, get_gzip/get_br/get_zstd}; src/lib.rs handle_cache 406 mapping and the cached / one-shot "
           "option choice; http::HeaderValue::to_str as visible-ASCII-or-TAB",
           "standard decoders in the harness: flate2 1.x MultiGzDecoder, brotli 7 BrotliDecompress, zstd 0.13 decode_all (harness/src/c00pipe.rs decode_body)"]
LEVEL_TEXT = ("Coq theorems about a byte-level model of list_header and a transcription of clone_preferred, for every header value, body, content type, "
              "option set and (memo cell) every interleaving: chosen coding is identity or listed with quality != 0.0 (chosen_is_listed, never_refused; for arbitrary text its name occurs in the header: chosen_occurs_in_header); "
              "identity;q=0 is honoured past the floor (identity_refusal_honoured); < 50 bytes / opt-out / uncompressible content type => identity "
              "(floors, floors_content_type); the label names exactly the encoder whose output is sent and the memo cell keeps it (label_matches_body, "
              "memoised_bytes_reused); 406 <=> identity refused and nothing else applies (not_acceptable_iff); preferred-then-zstd-br-gzip order "
              "(preference_order); list_header = reference parse on the RFC 7231 grammar with OWS (list_header_wf) and total with at most commas+1 values "
              "(list_header_total); memo cell invariant, write-once and completion under all SC interleavings of n tasks (memo_invariant, memo_write_once, "
              "memo_completes).  PARTIAL: lossless_partial (every reply of every history decodes to the identity body) is relative to the hypothesis that a "
              "decoder inverts the encoder; that hypothesis is validated, not proved, by decoding every reply of the run with the standard decoders.  "
              "list_header_ows_v0_refuted: the grammar header on which kvarn 0.6.3's list_header was not the reference parse (repaired by fix: 7270dfd).")
LEVEL_NOTE = ("Trusted: Coq kernel; extraction (sample re-checked in-kernel); hand transcription of the anchored code validated by the differential run on "
              "handle_cache / list_header / do_compress; the three decoder crates as the definition of 'standard decoder'; SC memory for the memo cell. "
              "No axioms. Encoder losslessness: validated per run, not proved.")
TECHNIQUE = ("Coq proof (state-machine invariant for list_header, case analysis of clone_preferred, inductive invariant over all schedules for the memo "
             "cell) + differential correspondence on kvarn::handle_cache with standard decoders as spec oracle")
