"""C06 — compression is lossless, correctly labelled and only what the client accepts."""
import re
import resource
from fractions import Fraction

from kv import Case, xn, xb, xl, xlist, xbool, xopt, xparse

ID = "C06"
MODULE = "C06"
IMPORTS = "Bytes RustInt Range Negotiate NegotiateProofs ListHeaderProofs"
PROFILES = ("dev", "nochk")
KERNEL_SAMPLE = 30
# the extracted model recurses over the body (1 MiB in the thorough tier): give the model driver, a child of this
# process, the stack the hard limit allows (the soft default of 8 MiB is too small for a million-element list)
try:
    _soft, _hard = resource.getrlimit(resource.RLIMIT_STACK)
    resource.setrlimit(resource.RLIMIT_STACK, (_hard, _hard))
except (ValueError, OSError):
    pass
SV = "forall (parse_q : bytes -> option qclass) (parse_mime : bytes -> option mime) (enc : alg -> N -> bytes -> bytes)"
THEOREMS = [
    ("chosen_is_listed", SV + r""" (c : cresp) (ae : option bytes) (o : options) (l : option bytes) (b : bytes) (ch : coding) (c' : cresp),
       clone_preferred parse_q parse_mime enc c ae o = (Sent l b ch, c') ->
       ch = Identity \/ (exists (a : alg) (h : bytes) (q : qclass), ch = Alg a /\ ae = Some h /\ to_str_ok h = true /\
                         In (alg_name a, q) (list_header parse_q h) /\ q <> QZero)"""),
    ("chosen_occurs_in_header", SV + r""" (c : cresp) (ae : option bytes) (o : options) (l : option bytes) (b : bytes) (a : alg) (c' : cresp),
       clone_preferred parse_q parse_mime enc c ae o = (Sent l b (Alg a), c') -> exists h, ae = Some h /\ substr (alg_name a) h"""),
    ("never_refused", SV + r""" (c : cresp) (ae : option bytes) (o : options) (l : option bytes) (b : bytes) (a : alg) (c' : cresp),
       clone_preferred parse_q parse_mime enc c ae o = (Sent l b (Alg a), c') ->
       ~ (forall q : qclass, In (alg_name a, q) (header_values parse_q ae) -> q = QZero)"""),
    ("refuses_identity_iff", r"""forall values : list (bytes * qclass),
       disable_identity values = true <->
       ((exists v, In (v, QZero) values /\ lower v = s_identity) \/
        (In (s_star, QZero) values /\ forall v q, In (v, q) values -> lower v <> s_identity))"""),
    ("identity_refusal_honoured", SV + r""" (c : cresp) (ae : option bytes) (o : options) (r : reply) (c' : cresp),
       disable_identity (header_values parse_q ae) = true ->
       clone_preferred parse_q parse_mime enc c ae o = (r, c') -> forall (l : option bytes) (b : bytes), r <> Sent l b Identity"""),
    ("floors", SV + r""" (body : bytes) (ct hce : option bytes) (compress : bool) (ae : option bytes) (o : options),
       (length body < 50)%nat \/ compress = false ->
       clone_preferred parse_q parse_mime enc (cresp_new body ct hce compress) ae o =
       (if disable_identity (header_values parse_q ae) then NotAcceptable
        else Sent (match body with [] => hce | _ => Some s_identity end) body Identity,
        cresp_new body ct hce compress)"""),
    ("floors_content_type", SV + r""" (c : cresp) (ae : option bytes) (o : options) (r : reply) (c' : cresp),
       compressible parse_mime c = false -> clone_preferred parse_q parse_mime enc c ae o = (r, c') ->
       c' = c /\ (r = NotAcceptable \/
                  r = Sent (match cr_body c with [] => cr_hce c | _ => Some s_identity end) (cr_body c) Identity)"""),
    ("label_matches_body", SV + r""" (c : cresp) (ae : option bytes) (o : options) (l : option bytes) (b : bytes) (ch : coding) (c' : cresp),
       cells_ok enc c -> clone_preferred parse_q parse_mime enc c ae o = (Sent l b ch, c') ->
       l = match b with [] => cr_hce c | _ => Some (coding_name ch) end /\
       match ch with
       | Identity => b = cr_body c /\ c' = c
       | Alg a => (exists level, b = enc a level (cr_body c)) /\ cell_get a c' = Some b
       end /\
       cells_ok enc c' /\ cr_body c' = cr_body c /\ cr_compress c' = cr_compress c /\ cr_ctype c' = cr_ctype c /\
       cr_hce c' = cr_hce c"""),
    ("handler_coding_overwritten", SV + r""" (c : cresp) (ae : option bytes) (o : options) (l : option bytes) (b : bytes) (ch : coding) (c' : cresp),
       clone_preferred parse_q parse_mime enc c ae o = (Sent l b ch, c') -> b <> [] -> l = Some (coding_name ch)"""),
    ("memoised_bytes_reused", r"""forall (enc : alg -> N -> bytes -> bytes) (a : alg) (level : N) (c : cresp) (b : bytes),
       cell_get a c = Some b -> get_alg enc a level c = (b, c)"""),
    ("memoised_reply", SV + r""" (pg : page) (e : option cresp) (rq : meth * option bytes) (r : reply) (e' : option cresp),
       handle parse_q parse_mime enc pg e rq = (r, e') -> was_memoised e rq r = true ->
       exists c a l b, visible e (fst rq) = Some c /\ r = Sent l b (Alg a) /\ cell_get a c = Some b /\
                       exists c', e' = Some c' /\ cell_get a c' = Some b"""),
    ("serve_meets_spec", SV + r""" (pg : page) (groups : list (meth * option bytes * nat)),
       Forall2 (fun g rs => Forall (fun r => reply_allowed (spec_verdict parse_q parse_mime pg (snd (fst g))) r = true) (map fst rs))
               groups (serve_groups parse_q parse_mime enc pg None groups)"""),
    ("lossless_partial", SV + r""" (dec : alg -> bytes -> bytes),
       (forall a level b, dec a (enc a level b) = b) -> (forall a level b, enc a level b <> []) ->
       forall (pg : page) (groups : list (meth * option bytes * nat)),
         (pg_body pg <> [] \/ pg_hce pg = None \/ pg_hce pg = Some s_identity) ->
         Forall (fun rs => Forall (fun r => r = NotAcceptable \/
                                            exists l b ch, r = Sent l b ch /\ decode_label dec l b = Some (pg_body pg))
                                  (map fst rs))
                (serve_groups parse_q parse_mime enc pg None groups)"""),
    ("not_acceptable_iff", SV + r""" (c : cresp) (ae : option bytes) (o : options),
       fst (clone_preferred parse_q parse_mime enc c ae o) = NotAcceptable <->
       disable_identity (header_values parse_q ae) = true /\
       (cr_compress c = false \/ compressible parse_mime c = false \/
        forall a, contains (header_values parse_q ae) (alg_name a) = false)"""),
    ("preference_order", r"""forall p cz cb cg,
       pick p cz cb cg =
       match p with
       | PZstd => if cz then Some Zstd else if cb then Some Br else if cg then Some Gzip else None
       | PBr => if cb then Some Br else if cz then Some Zstd else if cg then Some Gzip else None
       | PGzip => if cg then Some Gzip else if cz then Some Zstd else if cb then Some Br else None
       | PNone => if cz then Some Zstd else if cb then Some Br else if cg then Some Gzip else None
       end"""),
    ("list_header_wf", r"""forall parse_q : bytes -> option qclass,
       (forall s c, parse_q s <> None -> In c s -> numberish c = true) ->
       forall ms, ms <> [] -> forallb member_ok ms = true ->
       list_header parse_q (members_text ms) = map (member_ref parse_q) ms"""),
    ("list_header_total", r"""forall (parse_q : bytes -> option qclass) (h : bytes),
       exists l, list_header parse_q h = l /\ (length l <= S (commas h))%nat"""),
    ("memo_invariant", r"""forall (P : bytes -> Prop) (vals : list bytes) (n : nat) (cell : option bytes) (sched : list nat),
       (forall i, (i < n)%nat -> P (nth i vals [])) -> (forall b, cell = Some b -> P b) ->
       let st := mrun vals (minit cell n) sched in
       (forall b, m_cell st = Some b -> P b) /\
       (forall i r, nth_error (m_pcs st) i = Some (PDone r) -> exists b, r = Ok b /\ P b)"""),
    ("memo_write_once", r"""forall vals n cell sched1 sched2 b,
       m_cell (mrun vals (minit cell n) sched1) = Some b -> m_cell (mrun vals (minit cell n) (sched1 ++ sched2)) = Some b"""),
    ("memo_completes", r"""forall vals cell n sched,
       let st := mrun vals (minit cell n) sched in
       (total_left (minit cell n) = 4 * n)%nat /\
       (forallb pc_done (m_pcs st) = true \/
        exists i st', mstep vals st i = Some st' /\ (total_left st' < total_left st)%nat)"""),
    ("memo_double_write_v0_refuted", r"""exists vals sched1 sched2 b b',
       b <> b' /\
       m0_cell (mrun0 vals (minit0 2) sched1) = Some b /\
       nth_error (m0_pcs (mrun0 vals (minit0 2) sched1)) 0 = Some (P0Done (Ok b)) /\
       m0_cell (mrun0 vals (minit0 2) (sched1 ++ sched2)) = Some b'"""),
    ("list_header_ows_v0_refuted", r"""exists ms, ms <> [] /\ forallb member_ok ms = true /\
       list_header_gen parse_q_dec false (members_text ms) <> map (member_ref parse_q_dec) ms /\
       In (B "gzip", QOne) (list_header_gen parse_q_dec false (members_text ms))"""),
    ("identity_refusal_floor_v0_refuted", r"""exists c ae o l b, disable_identity (header_values parse_q_dec ae) = true /\
       fst (clone_preferred_gen parse_q_dec parse_mime_std enc_tag (mkFixes false true true) c ae o) = Sent l b Identity"""),
    ("identity_refusal_optout_v0_refuted", r"""exists body ae o l b, (50 <= length body)%nat /\ disable_identity (header_values parse_q_dec ae) = true /\
       fst (clone_preferred_gen parse_q_dec parse_mime_std enc_tag (mkFixes false true true)
              (cresp_new body (Some (B "text/html")) None false) ae o) = Sent l b Identity"""),
    ("identity_refusal_star_v0_refuted", r"""exists c ae o l b, disable_identity (header_values parse_q_dec ae) = true /\
       fst (clone_preferred_gen parse_q_dec parse_mime_std enc_tag (mkFixes true false true) c ae o) = Sent l b Identity"""),
    ("identity_refusal_case_v0_refuted", r"""exists c ae o l b, disable_identity (header_values parse_q_dec ae) = true /\
       fst (clone_preferred_gen parse_q_dec parse_mime_std enc_tag (mkFixes true true false) c ae o) = Sent l b Identity"""),
]

# ------------------------------------------------------------------------------------------
# reference readings, independent of the Coq model
# ------------------------------------------------------------------------------------------
# the texts <f32 as FromStr>::from_str accepts (core::num::dec2flt)
F32_TEXT = re.compile(rb"(?i)[+-]?(?:inf|infinity|nan|(?:\d+\.?\d*|\.\d+)(?:e[+-]?\d+)?)\Z")
F32_NUM = re.compile(rb"(?i)([+-]?)(\d*)\.?(\d*)(?:e([+-]?\d+))?\Z")
TWO_M150 = Fraction(1, 2 ** 150)
ONE_LO = Fraction(2 ** 25 - 1, 2 ** 25)
ONE_HI = Fraction(2 ** 24 + 1, 2 ** 24)


def f32class(s):
    """0: parses to (+-)0.0f32, 1: to 1.0f32, 2: another value (also inf / nan), None: f32::from_str rejects the text.
    Exact: the decimal value is compared with the binary32 rounding boundaries (correctly rounded parse, ties to even)."""
    if not F32_TEXT.match(s):
        return None
    m = F32_NUM.match(s)
    if m is None or s.lower().lstrip(b"+-") in (b"inf", b"infinity", b"nan"):
        return 2
    sign, ip, fp, ex = m.groups()
    digits = (ip + fp).lstrip(b"0")
    if not digits:
        return 0
    e = int(ex) if ex else 0
    mag = len(digits) + e - len(fp)          # 10^(mag-1) <= value < 10^mag
    if mag > 3:
        return 2
    if mag < -50:
        return 0
    v = Fraction(int(digits)) * Fraction(10) ** (e - len(fp))
    if v <= TWO_M150:
        return 0
    if sign == b"-":
        return 2
    return 1 if ONE_LO <= v <= ONE_HI else 2


def ref_accept(ae):
    """Reference reading of Accept-Encoding (RFC 7231 5.3.4): list of (coding as written, f32 class of its weight)."""
    out = []
    for member in ae.split(b","):
        member = member.strip(b" \t")
        if not member:
            continue
        name, _, weight = member.partition(b";")
        k, _, v = weight.strip(b" \t").partition(b"=")
        q = f32class(v.strip(b" \t")) if k.strip(b" \t").lower() == b"q" else 1
        out.append((name.strip(b" \t"), 1 if q is None else q))
    return out


def label_acceptable(ae, label):
    """label in {gzip, br, zstd}: listed with some non-zero quality."""
    return any(n == label and q != 0 for n, q in ref_accept(ae))


def identity_refused(ae):
    """identity (any case) listed with quality 0, or not listed at all while '*' is listed with quality 0"""
    acc = ref_accept(ae)
    ident = [q for n, q in acc if n.lower() == b"identity"]
    if ident:
        return any(q == 0 for q in ident)
    return any(n == b"*" and q == 0 for n, q in acc)


# ------------------------------------------------------------------------------------------
# generators
# ------------------------------------------------------------------------------------------
CODINGS = [b"gzip", b"br", b"zstd", b"identity", b"deflate", b"compress", b"*", b"x-gzip", b"foo", b"GZIP", b"zstd", b"gzip", b"br", b"Identity"]
QVALUES = [b"0", b"0.0", b"0.00", b"0.000", b"0.", b"0.5", b"0.001", b"0.999", b"1", b"1.0", b"1.000", b"1.", b".5", b".0",
           b"0.3", b"0.8", b"0.9", b"0.0000000000000000000000000000000000000000000001", b"0.99999999", b"1.00000001", b"2"]
ZERO_Q = [b"0", b"0.0", b"0.000", b"0."]
# texts outside the RFC's qvalue that f32::from_str accepts all the same (or just not)
EXOTIC_Q = [b"0e0", b"-0", b"+0.0", b"1e-50", b"0e5", b"-0.0e-3", b"1e0", b"10e-1", b"+1", b"1e-3", b"5e-1", b"-1", b"inf", b"-inf",
            b"NaN", b"Infinity", b"1e", b"e5", b"1e+", b"0x0", b"1_0", b"7e-46", b"8e-46", b"1e-999999999999", b"1e999999999999",
            b"0.e0", b".e0", b"+.0", b"-.0e0", b"00", b"0000.0000e-0000"]


def grammar_header(rng, strict=False, codings=None, exotic=0.0):
    """A header from the RFC 7231 grammar (OWS = SP / HTAB); returns (text, [(coding, f32 class)])."""
    n = rng.choice([1, 1, 2, 2, 3, 4, 6])
    parts, exp = [], []
    ows = (lambda: b"") if strict else (lambda: rng.choice([b"", b"", b"", b" ", b"\t", b"  ", b" \t"]))
    for i in range(n):
        c = rng.choice(codings or CODINGS)
        t = c
        cls = 1
        if rng.random() < 0.65:
            r = rng.random()
            qv = rng.choice(EXOTIC_Q) if r < exotic else rng.choice(ZERO_Q) if r < exotic + 0.3 else rng.choice(QVALUES)
            t = c + ows() + b";" + (ows() if not strict else rng.choice([b"", b" "])) + rng.choice([b"q=", b"q=", b"q=", b"Q="]) + qv
            cls = f32class(qv)
            cls = 1 if cls is None else cls
        if i > 0:
            t = (rng.choice([b"", b" "]) if strict else ows()) + t
        parts.append(t + (b"" if strict else ows()))
        exp.append((c, cls))
    return b",".join(parts), exp


GARBAGE_ALPHABET = [bytes([c]) for c in b"gzipbrstdenty,,;;==qq  ..0015\t*-+eaf"] + ["å".encode(), "…".encode(), b"Q", b"9", b"I", b"*"]


def garbage_header(rng, ascii_only=False):
    r = rng.random()
    if r < 0.4:
        h, _ = grammar_header(rng, exotic=0.1)
        h = bytearray(h)
        for _ in range(rng.randrange(1, 4)):
            pos = rng.randrange(len(h) + 1)
            op = rng.randrange(3)
            ch = rng.choice(GARBAGE_ALPHABET)
            if ascii_only and ch[0] >= 0x80:
                ch = b";"
            if op == 0:
                h[pos:pos] = ch
            elif op == 1 and h:
                del h[min(pos, len(h) - 1)]
            elif h:
                p = min(pos, len(h) - 1)
                h[p:p + 1] = ch
        try:
            bytes(h).decode("utf-8")
        except UnicodeDecodeError:
            return b";q=0,gzip"
        return bytes(h)
    out = b""
    for _ in range(rng.randrange(0, 24)):
        ch = rng.choice(GARBAGE_ALPHABET)
        if ascii_only and ch[0] >= 0x80:
            continue
        out += ch
    return out


# content types: (text, what do_compress says of it today: True compressible, False not, None unparsable).  The table is
# there to aim the generator at every branch; the spec oracle only uses ALREADY_COMPRESSED below
CTYPES = [
    (b"text/html", True), (b"text/plain", True), (b"text/css", True), (b"TEXT/HTML", True), (b"text/html; charset=utf-8", True),
    (b"text/html;charset=utf-8", True), (b"application/json", True), (b"application/javascript", True), (b"application/xml", True),
    (b"application/graphql", True), (b"application/wasm", True), (b"application/octet-stream", True), (b"image/svg+xml", True),
    (b"image/svg", True), (b"multipart/form-data", True), (b"message/rfc822", True), (b"x-foo/bar", True), (b"model/gltf+json", True),
    (b"text/x.y+z+json", True), (b"Application/JSON", True),
    (b"image/png", False), (b"image/jpeg", False), (b"image/svgz", False), (b"font/woff2", False), (b"video/mp4", False),
    (b"audio/ogg", False), (b"*/*", False), (b"*/x", False), (b"application/pdf", False), (b"application/zip", False),
    (b"text/zip", False), (b"x/zstd", False), (b"application/zstd", False), (b"application/x-tar", False), (b"application/gzip", False),
    (b"application/xhtml+xml", False), (b"application/ld+json", False), (b"application/pdf; charset=utf-8", False),
    (b"image/+svg", False),
    (b"garbage", None), (b"/x", None), (b"a b/c", None), (b"tex@t/html", None), (b"", None), (b"text/html\xff", None),
    (b"text/ht ml", None),
]
# "already-compressed media types" of the property text: sending these compressed is a violation whatever do_compress says
ALREADY_COMPRESSED = {b"image/png", b"image/jpeg", b"font/woff2", b"video/mp4", b"audio/ogg", b"application/pdf", b"application/zip",
                      b"application/zstd", b"application/gzip"}
# plainly compressible text types: a 406 for these although a listed coding applies is a violation
PLAIN_TEXT = {b"text/html", b"text/plain", b"text/css", b"application/json", b"application/javascript", b"application/xml", b"image/svg+xml"}
PREFS = [0, 1, 2, 3]  # None, Gzip, Brotli, Zstd
DEFAULT_LEVELS = ((1, 3, 1), (4, 4, 2))   # (zstd, brotli, gzip) of CompressionOptions::oneshot() / cached()
GET, HEAD, POST = 0, 1, 2


def body_specs():
    return [("0", xl(xn(0), xb(b""))), ("1", xl(xn(0), xb(b"x"))), ("49", xl(xn(1), xn(97), xn(49))), ("50", xl(xn(1), xn(97), xn(50))),
            ("51", xl(xn(2), xn(7), xn(51))), ("50r", xl(xn(2), xn(3), xn(50))), ("4Kz", xl(xn(1), xn(0), xn(4096))),
            ("600r", xl(xn(2), xn(1), xn(600))), ("300t", xl(xn(0), xb(b"<html><body>" + b"lorem ipsum dolor " * 16 + b"</body></html>"))),
            ("4Kr", xl(xn(2), xn(1), xn(4096)))]


# incompressible ones: a pseudo-random block doubled d times under xor masks (cheap for the model: no per-byte arithmetic)
BIG_BODIES = [("64K+r", xl(xn(3), xn(11), xn(4097), xn(4))), ("64Kz", xl(xn(1), xn(97), xn(65536))), ("1M+z", xl(xn(1), xn(0), xn(1048593))),
              ("1M+r", xl(xn(3), xn(5), xn(4099), xn(8))), ("200Kr", xl(xn(3), xn(13), xn(3200), xn(6))), ("64Kr", xl(xn(3), xn(9), xn(4096), xn(4)))]
BODY_LEN = {"1M+z": 1048593, "1M+r": 4099 * 256, "64Kr": 65536, "64Kz": 65536, "64K+r": 4097 * 16, "200Kr": 3200 * 64, "0": 0, "1": 1, "49": 49,
            "50": 50, "51": 51, "50r": 50, "4Kz": 4096, "4Kr": 4096, "600r": 600, "300t": 12 + 18 * 16 + 14}


def xsigned(v):
    return xl(xn(1 if v < 0 else 0), xn(abs(v)))


def random_levels(rng, big=False):
    """(zstd, brotli, gzip): every level the three encoders define (moderate ones on big bodies: the harness is a debug build)"""
    if big:
        return (rng.randrange(-3, 7), rng.randrange(0, 6), rng.randrange(0, 7))
    return (rng.randrange(-7, 20), rng.randrange(0, 12), rng.randrange(0, 10))


def pipe_case(body, ctype, compress, cache, p1, p2, reqs, meta, hce=None, status=200, levels=DEFAULT_LEVELS):
    """reqs: list of (ae, n[, method[, kind[, more field lines]]]): n = 0 a single request; n >= 2 that many concurrent ones (kind 1: joined on one
    thread, kind 2: spawned on a multi-thread runtime)."""
    bname, bspec = body
    norm = []
    xreqs = []
    for r in reqs:
        ae, n = r[0], r[1]
        method = r[2] if len(r) > 2 else GET
        kind = (r[3] if len(r) > 3 else 1) if n else 0
        more = r[4] if len(r) > 4 else []          # further Accept-Encoding field lines (only with a first one)
        norm.append((ae, n, method, kind))
        xreqs.append(xl(xn(kind), xopt(None if ae is None else xb(ae)), xn(method), xn(n if n else 1), xlist([xb(v) for v in more])))
    lv = xl(xsigned(levels[0][0]), xn(levels[0][1]), xn(levels[0][2]), xsigned(levels[1][0]), xn(levels[1][1]), xn(levels[1][2]))
    x = xl(xl(bspec, xopt(None if ctype is None else xb(ctype[0])), xbool(compress), xbool(cache), xn(p1), xn(p2),
              xopt(None if hce is None else xb(hce)), xn(status), lv), xlist(xreqs))
    m = dict(meta)
    m.update({"body": bname, "blen": BODY_LEN[bname], "ctype": ctype, "compress": compress, "cache": cache, "reqs": norm, "prefs": (p1, p2),
              "hce": hce, "status": status, "levels": levels})
    if ctype is None and BODY_LEN.get(bname, 1) > 0:
        m["ood"] = True          # content type would be sniffed from the bytes (not modelled; the spec oracles still run)
    return Case("neg.pipe", x, "neg.spec", m)


def lh_case(h, meta, profile):
    m = dict(meta)
    m["header"] = h
    return Case("neg.list_header", xb(h), None, m, profile)


DIRECTED_AE = [
    None, b"", b"gzip", b"br", b"zstd", b"identity", b"gzip, br, zstd", b"gzip;q=0", b"gzip;q=0, br", b"gzip;q=0.0, br;q=0.000, zstd;q=0",
    b"identity;q=0", b"identity;q=0, gzip", b"identity;q=0, gzip;q=0", b"*;q=0", b"*;q=0, gzip", b"*", b"gzip;q=0.5, br;q=1.000",
    b"gzip;q=0 , br", b"gzip ;q=0", b"gzip;q=0\t,\tbr", b"identity ;q=0", b"identity; q=0", b"identity;q=1", b"identity;q=1.0",
    b"identity, gzip;q=0", b"gzip, gzip;q=0", b"gzip;q=0, gzip", b"deflate, compress", b"GZIP", b"gzip;Q=0", b"br;q=0.001", b"zstd;q=1.000",
    b"gzip\xff", b"0", b"0,gzip", b"gzip;q=0.0000000000000000000000000000000000000000000001", b"identity;q=0.0000000000000000000000000000000000000000000001",
    b"gzip;q= 0", b"gzip;q=0;x=1", b"gzip;x=1;q=0", b" gzip", b"gzip ", b",gzip", b"gzip,", b"gzip,,br", b"zstd;q=0,br;q=0,gzip;q=0,identity;q=0",
    # refusal of identity in its other spellings
    b"Identity;q=0", b"IDENTITY;q=0, br", b"*;q=0, identity", b"*;q=0, identity;q=0.5", b"*;q=0, Identity;q=1", b"*;q=0.0, deflate",
    b"identity;q=0, identity", b"*;q=0, zstd;q=0, br", b"*;q=1, identity;q=0",
    # quality texts outside the RFC's qvalue that f32::from_str accepts
    b"gzip;q=0e0", b"gzip;q=-0, br", b"identity;q=-0", b"identity;q=0e0, gzip;q=+0.0", b"gzip;q=1e-50, br;q=1e-3", b"identity;q=1e-50",
    b"gzip;q=inf", b"gzip;q=-1", b"gzip;q=NaN", b"identity;q=nan", b"gzip;q=1e", b"gzip;q=7e-46, br;q=8e-46",
]


def generate(rng, tier):
    cases = []
    quick = tier == "quick"
    bodies = body_specs()
    B49, B50, B4Kz, B600r, B300, B4Kr = bodies[2], bodies[3], bodies[6], bodies[7], bodies[8], bodies[9]
    text = (b"text/html", True)
    # ---- pipeline: directed Accept-Encoding x sizes around the floor, handler opted in / out -------------------------------
    for ae in DIRECTED_AE:
        for b in bodies if not quick else [B49, B50, B600r]:
            cases.append(pipe_case(b, text, True, True, 3, 3, [(ae, 0), (ae, 0)], {"kind": "pipe/directed", "grammar": False}))
        cases.append(pipe_case(B300, text, False, rng.random() < 0.5, 3, 3, [(ae, 0)], {"kind": "pipe/directed-optout", "grammar": False}))
    # every content type x a compressible-size body
    for ct in CTYPES:
        for ae in (b"gzip, br, zstd", b"identity;q=0, gzip", b"*;q=0, br"):
            cases.append(pipe_case(B600r, ct, True, rng.random() < 0.5, rng.choice(PREFS), rng.choice(PREFS), [(ae, 0)],
                                   {"kind": "pipe/ctype", "grammar": True}))
    # every preferred algorithm x every subset of codings
    for p in PREFS:
        for mask in range(8):
            ae = b", ".join(c for i, c in enumerate([b"gzip", b"br", b"zstd"]) if mask >> i & 1)
            for cache in (True, False):
                cases.append(pipe_case(B4Kz, text, True, cache, p, p, [(ae, 0), (ae, 0)], {"kind": "pipe/pref", "grammar": True}))
                if mask:
                    cases.append(pipe_case(B300, text, True, cache, p, p, [(b"identity;q=0, " + ae, 0)], {"kind": "pipe/pref", "grammar": True}))
    # every level of every encoder (cached and one-shot option sets), decoded by the standard decoder
    levels = [(z, b, g) for z, b, g in zip(list(range(-7, 23)), [i % 12 for i in range(30)], [i % 10 for i in range(30)])]
    for i, lv in enumerate(levels if not quick else levels[::2] + [levels[-1]]):
        cache = i % 2 == 0
        # levels above 19 only on the small bodies (zstd's ultra levels allocate a lot)
        b = B300 if lv[0] > 19 else rng.choice([B4Kz, B4Kr, B300])
        cases.append(pipe_case(b, text, True, cache, 0, 0, [(b"zstd", 0), (b"br", 0), (b"gzip", 0), (b"gzip, br, zstd", 0)],
                               {"kind": "pipe/levels", "grammar": True}, levels=(lv, lv)))
    # memoisation: an entry created by an identity-only request, then n concurrent first requests of one coding (the memo
    # cell is cold, the entry is not), then again; joined on one thread and spawned on a multi-thread runtime
    for coding in (b"gzip", b"br", b"zstd"):
        for n in (2, 8, 32) if quick else (2, 3, 8, 32, 64):
            for b in (B4Kz, B600r if quick else B4Kr):
                for kind in (1, 2):
                    cases.append(pipe_case(b, text, True, True, 3, 3,
                                           [(b"identity", 0), (coding, n, GET, kind), (coding, 0), (b"gzip, br, zstd", 2, GET, kind)],
                                           {"kind": "pipe/concurrent" + ("-threads" if kind == 2 else ""), "grammar": True}))
                # no entry yet: every one of the n requests misses the cache
                cases.append(pipe_case(b, text, True, True, 0, 0, [(coding, n), (coding, n)], {"kind": "pipe/concurrent", "grammar": True}))
    # methods, statuses, a content-encoding header of the handler's own
    for status in (200, 404, 403, 500):
        for hce in (None, b"identity", b"gzip"):
            for b in (B600r, bodies[0]):
                cases.append(pipe_case(b, text, True, True, 3, 3,
                                       [(b"gzip", 0, HEAD), (b"gzip", 0, GET), (b"br", 0, POST), (b"gzip, br", 0, GET), (None, 0, HEAD),
                                        (b"identity;q=0", 0, HEAD)],
                                       {"kind": "pipe/method-status", "grammar": True}, hce=hce, status=status))
    # a second (third) Accept-Encoding field line: the code reads the first one only, and so do model and oracles
    for first, more in ((b"gzip", [b"gzip;q=0"]), (b"gzip;q=0", [b"gzip"]), (b"br", [b"identity;q=0"]), (b"identity;q=0", [b"br"]),
                        (b"deflate", [b"zstd", b"br"]), (b"identity;q=0, zstd", [b"zstd;q=0", b"*;q=0"])):
        for cache in (True, False):
            cases.append(pipe_case(B300, text, True, cache, 3, 3, [(first, 0, GET, 0, more), (first, 0, GET, 0, more)],
                                   {"kind": "pipe/field-lines", "grammar": True}))
    # big bodies: every coding, incompressible and highly compressible, cached and one-shot
    big = BIG_BODIES if not quick else BIG_BODIES[:5]
    for i, b in enumerate(big):
        for cache in (True, False) if not quick else (i % 2 == 0,):
            cases.append(pipe_case(b, text, True, cache, 0, 0, [(b"gzip", 0), (b"br", 2), (b"zstd", 0), (b"gzip", 0, HEAD)],
                                   {"kind": "pipe/big", "grammar": True}, levels=(random_levels(rng, True), random_levels(rng, True))))
    # random scenarios
    nrand = 260 if quick else 6000
    for _ in range(nrand):
        b = rng.choice(bodies[:9] if quick or rng.random() < 0.9 else bodies)
        ct = rng.choice(CTYPES) if rng.random() < 0.45 else rng.choice(CTYPES[:6])
        if rng.random() < 0.04:
            ct = None            # sniffed from the bytes: outside the model, judged by the spec oracles only
        reqs = []
        grammar = True
        for _ in range(rng.choice([1, 2, 2, 3, 4])):
            r = rng.random()
            if r < 0.08:
                ae = None
            elif r < 0.70:
                ae, _ = grammar_header(rng, codings=[b"gzip", b"br", b"zstd", b"identity", b"*", b"deflate", b"gzip", b"br", b"zstd", b"Identity"],
                                       exotic=0.15)
            elif r < 0.80:
                ae = rng.choice(DIRECTED_AE)
                grammar = False
            else:
                ae = garbage_header(rng, ascii_only=rng.random() < 0.8)
                grammar = False
            method = rng.choice([GET, GET, GET, HEAD, POST])
            if rng.random() < 0.85:
                reqs.append((ae, 0, method))
            else:
                # spawned groups only once the page has its entry (whether a late task finds the entry another one has just
                # inserted is a race the model does not resolve)
                reqs.append((ae, rng.choice([2, 3, 5]), method, 2 if reqs and rng.random() < 0.5 else 1))
        cases.append(pipe_case(b, ct, rng.random() < 0.85, rng.random() < 0.6, rng.choice(PREFS), rng.choice(PREFS), reqs,
                               {"kind": "pipe/random", "grammar": grammar},
                               hce=rng.choice([None, None, None, None, b"identity", b"gzip", b"br"]),
                               status=rng.choice([200, 200, 200, 200, 404, 403, 500, 201, 410]),
                               levels=(random_levels(rng), random_levels(rng)) if rng.random() < 0.5 else DEFAULT_LEVELS))
    # ---- the memo cell under real parallelism: many rounds of n tasks released together on worker threads ----------------------
    for coding in (0, 1, 2):
        for rounds, n, blen in ((400, 8, 64), (100, 16, 3000)) if quick else ((60000 if coding == 2 else 20000, 16, 50), (3000, 8, 64), (500, 16, 20000)):
            cases.append(Case("neg.stress", xl(xn(rounds), xn(n), xn(blen), xn(coding)), None, {"kind": "stress/memo-cell"}))
    # ---- streaming responses (a future attached): never a 406, the future is kept -------------------------------------------------
    for ae in (None, b"gzip", b"identity;q=0", b"*;q=0", b"Identity;q=0, gzip", b"identity;q=0.5", b"br, identity;q=0"):
        for with_len in (False, True):
            cases.append(Case("neg.stream", xl(xopt(None if ae is None else xb(ae)), xbool(with_len)), None, {"kind": "stream"}))
    # ---- mime / do_compress directly ----------------------------------------------------------------------------------------
    for ct, _ in CTYPES:
        cases.append(Case("neg.mime", xb(ct), None, {"kind": "mime/table", "ctype": ct}))
    toks = [b"text", b"image", b"font", b"video", b"audio", b"application", b"*", b"svg", b"zip", b"zstd", b"pdf", b"json", b"xml", b"wasm",
            b"javascript", b"graphql", b"octet-stream", b"x", b"PNG", b"Image", b"a.b", b"x-y_z", b""]
    for _ in range(300 if quick else 5000):
        t = rng.choice(toks) + b"/" + rng.choice(toks)
        if rng.random() < 0.3:
            t += b"+" + rng.choice(toks)
        if rng.random() < 0.2:
            t += rng.choice([b"; charset=utf-8", b";charset=utf-8", b"; Charset=UTF-8"])
        cases.append(Case("neg.mime", xb(t), None, {"kind": "mime/random", "ctype": t}))
    # ---- list_header directly, both profiles --------------------------------------------------------------------------------
    for h in DIRECTED_AE:
        if h is not None and b"\xff" not in h:
            for prof in PROFILES:
                cases.append(lh_case(h, {"kind": "lh/directed"}, prof))
    for qv in EXOTIC_Q + QVALUES:
        cases.append(lh_case(b"gzip;q=" + qv + b", br", {"kind": "lh/quality-text"}, rng.choice(PROFILES)))
    for _ in range(1500 if quick else 40000):
        h, exp = grammar_header(rng, strict=rng.random() < 0.3, exotic=0.15)
        cases.append(lh_case(h, {"kind": "lh/grammar", "expect": exp}, rng.choice(PROFILES)))
    for _ in range(1500 if quick else 40000):
        cases.append(lh_case(garbage_header(rng), {"kind": "lh/garbage"}, rng.choice(PROFILES)))
    return cases


TOKEN = rb"[!#$%&'*+\-.^_`|~0-9A-Za-z]+"
F32_INNER = rb"(?i:[+-]?(?:inf|infinity|nan|(?:\d+\.?\d*|\.\d+)(?:e[+-]?\d+)?))"
# weights: the RFC's qvalue and every other text f32::from_str accepts
# ("Q=" is read differently from "q=" by list_header: the weight then starts at the first digit or '.'; with a plain decimal
# that is the same thing, so the reference grammar has "Q=" with plain decimals only)
MEMBER = rb"[ \t]*" + TOKEN + rb"(?:[ \t]*;[ \t]*(?:q=" + F32_INNER + rb"|Q=(?:\d+\.?\d*|\.\d+)))?[ \t]*"
GRAMMAR = re.compile(MEMBER + rb"(?:," + MEMBER + rb")*\Z")


NUMBERISH = re.compile(rb"[0-9.+\-eEiInNfFaAtTyY]+\Z")


def in_grammar(h):
    """RFC 7231 #( codings [ weight ] ) with OWS, non-empty members, weights any text f32::from_str accepts; coding names that
    consist only of characters of a number (digits . + - e and the letters of inf/nan/infinity) are excluded: a
    member without weight is given the f32 value of the text before it (list_header_wf states the same condition)."""
    if h is None or GRAMMAR.match(h) is None:
        return False
    return not any(NUMBERISH.match(m.strip(b" \t").partition(b";")[0].strip(b" \t")) for m in h.split(b","))


def ref_parse(h):
    out = []
    for member in h.split(b","):
        name, _, weight = member.strip(b" \t").partition(b";")
        q = 1 if not weight else f32class(weight.strip(b" \t")[2:])
        out.append((name.strip(b" \t"), q))
    return out


def fill_meta(c):
    """replay files carry only the input: recompute what the oracles need from it"""
    m = c.meta
    if c.comp == "neg.list_header" and "header" not in m:
        m["header"] = bytes(c.x[1])
    if c.comp == "neg.pipe" and "reqs" not in m:
        cfg, reqs = c.x[1]
        body, ct, compress, cache, p1, p2, hce, status, lv = cfg[1]
        kind = body[1][0][1]
        m["blen"] = len(body[1][1][1]) if kind == 0 else body[1][2][1] * (2 ** body[1][3][1] if kind == 3 else 1)
        ctv = bytes(ct[1][0][1]) if ct[1] else None
        m["ctype"] = None if ctv is None else (ctv, dict(CTYPES).get(ctv, "unknown"))
        m["compress"] = bool(compress[1])
        m["cache"] = bool(cache[1])
        m["hce"] = bytes(hce[1][0][1]) if hce[1] else None
        m["status"] = status[1]
        m["reqs"] = [((bytes(r[1][1][1][0][1]) if r[1][1][1] else None), (r[1][3][1] if r[1][0][1] else 0), r[1][2][1], r[1][0][1]) for r in reqs[1]]
        m["ood"] = ctv is None and m["blen"] > 0
    return m


def out_of_domain(c, i):
    return i.startswith("(L (N 96)") or bool(fill_meta(c).get("ood"))


ORACLE_ON_OOD = True      # the spec oracles need no model: they also judge the cases the model does not cover


# ------------------------------------------------------------------------------------------
# correspondence: compared by what the property can see where it does not fix the text
# ------------------------------------------------------------------------------------------
RELEVANT = (b"gzip", b"br", b"zstd", b"*")


def _lh_view(s, header):
    """list_header's result; outside the grammar only what clone_preferred can tell apart: how many values there are and, in
    order, those naming a coding the negotiation knows (gzip, br, zstd, identity in any case, *) with their quality class"""
    v = xparse(s)
    if v[0] != "L" or len(v[1]) != 2 or v[1][0] != ("N", 0):
        return s
    got = [(bytes(e[1][0][1]), e[1][1][1]) for e in v[1][1][1]]
    if in_grammar(header):
        return got
    return (len(got), [(n, q) for n, q in got if n in RELEVANT or n.lower() == b"identity"])


def _pipe_view(c, s):
    """the replies; `reused` is left out for a concurrent group that arrives before the page has a cache entry: whether a late
    request of the group already finds the entry an early one has inserted (and with it that one's compressed bytes) depends on
    the scheduling of the group (tokio's cooperative budget can suspend a request before its cache lookup); the model takes the
    schedule in which they all miss"""
    m = fill_meta(c)
    groups = _replies(xparse(s))
    has_entry = False
    out = []
    for (ae, n, method, kind), grp in zip(m["reqs"], groups):
        on_entry = m["cache"] and cacheable_status(m["status"]) and method in (GET, HEAD)
        if n >= 2 and on_entry and not has_entry:
            grp = [r if len(r) == 1 else r[:6] + (None,) for r in grp]
        has_entry = has_entry or on_entry
        out.append(grp)
    return out


def compare(c, i, m):
    if i == m:
        return True
    try:
        if c.comp == "neg.list_header":
            h = fill_meta(c)["header"]
            return _lh_view(i, h) == _lh_view(m, h)
        if c.comp == "neg.pipe":
            return _pipe_view(c, i) == _pipe_view(c, m)
    except Exception:
        return False
    return False


# ------------------------------------------------------------------------------------------
# specification oracles on the implementation's output
# ------------------------------------------------------------------------------------------
def _b(x):
    return x[1]


def _replies(v):
    """[[(status, label, decode_ok, decoded_eq, dlen, raw_is_identity, reused) | (406,)]]"""
    out = []
    for grp in v[1]:
        rs = []
        for r in grp[1]:
            f = r[1]
            if len(f) == 1:
                rs.append((f[0][1],))
            elif len(f) == 7:
                rs.append((f[0][1], bytes(_b(f[1][1][0])) if f[1][1] else None) + tuple(x[1] for x in f[2:]))
            else:
                raise ValueError("bad reply")
        out.append(rs)
    return out


def spec_ok(c, i, s):
    """the executable Coq specification (spec_verdict, tied to the model by serve_meets_spec) on the implementation's replies"""
    if c.comp != "neg.pipe":
        return i == s
    try:
        vi, vs = xparse(i), xparse(s)
        if vi == ("L", [("N", 2)]):
            return False
        groups = _replies(vi)
        verdicts = [(g[1][0][1], g[1][1][1], [bytes(a[1]) for a in g[1][2][1]]) for g in vs[1]]
    except Exception:
        return False
    if len(groups) != len(verdicts):
        return False
    for rs, (must406, identity_ok, algs) in zip(groups, verdicts):
        for r in rs:
            if r[0] == 406:
                if not must406:
                    c.meta.setdefault("why", "406 although the specification allows identity=%r codings=%r" % (bool(identity_ok), algs))
                    return False
            elif must406:
                c.meta.setdefault("why", "the specification demands 406 (identity forbidden, nothing else applies); sent %r" % (r[1],))
                return False
            elif r[5] or r[1] not in (b"gzip", b"br", b"zstd"):
                # the identity bytes were sent: no coding applied (an empty body keeps whatever label the handler set)
                if not identity_ok:
                    c.meta.setdefault("why", "identity sent although the client forbids it")
                    return False
            elif r[1] not in algs:
                c.meta.setdefault("why", "coding %r sent, the specification allows %r" % (r[1], algs))
                return False
    return True


def cacheable_status(s):
    return not (400 <= s <= 403 or 405 <= s <= 409 or 411 <= s <= 499 or 100 <= s <= 199 or s == 304)


def extra_oracle(c, i):
    try:
        v = xparse(i)
    except Exception:
        return "unparsable harness output"
    if v == ("L", [("N", 2)]):
        return "panic"
    if i.startswith("(L (N 96)") or i.startswith("(L (N 99)"):
        return None
    if c.comp == "neg.list_header":
        if v[0] != "L" or len(v[1]) != 2 or v[1][0] != ("N", 0):
            return "list_header did not return"
        got = [(bytes(_b(e[1][0])), e[1][1][1]) for e in v[1][1][1]]
        h = fill_meta(c)["header"]
        if len(got) > h.count(b",") + 1:
            return "more values than list members"
        for val, _ in got:
            if val not in h:
                return "value %r is not a substring of the header" % val
        exp = ref_parse(h) if in_grammar(h) else None
        if exp is not None and got != [(a, q) for a, q in exp]:
            return "RFC 7231 grammar header: reference parse %r, list_header returned %r" % (exp, got)
        return None
    if c.comp == "neg.mime":
        return None
    if c.comp == "neg.stream":
        if v[0] != "L" or len(v[1]) != 4 or v[1][0] != ("N", 200) or v[1][1] != ("N", 1):
            return "a streaming response was not passed on as it is (status 200, future attached): %s" % i
        return None
    if c.comp == "neg.stress":
        try:
            anomalies, total, wrong = (x[1] for x in v[1])
        except Exception:
            return "bad output"
        if wrong:
            return "%d of %d replies to concurrent requests for a cold memo cell are not 200 / mislabelled / do not decode to the body" % (wrong, total)
        if anomalies:
            return ("%d of %d replies to concurrent requests for a cold memo cell carry another buffer than the first reply: "
                    "the cell was written more than once" % (anomalies, total))
        return None
    if c.comp != "neg.pipe":
        return None
    if v[0] != "L":
        return "bad output"
    m = fill_meta(c)
    blen = m["blen"]
    ct = m["ctype"]
    hce = m["hce"]
    try:
        groups = _replies(v)
    except Exception:
        return "bad output"
    if len(groups) != len(m["reqs"]):
        return "bad output"
    memoised = set()        # codings an earlier request of this page has left in its cache entry
    for (ae, n, method, kind), grp in zip(m["reqs"], groups):
        if len(grp) != (n or 1):
            return "%d replies to %d requests" % (len(grp), n or 1)
        on_entry = m["cache"] and cacheable_status(m["status"]) and method in (GET, HEAD)
        wf = ae is None or in_grammar(ae)
        refused = ae is not None and identity_refused(ae)
        applies = [a for a in (b"zstd", b"br", b"gzip") if ae is not None and label_acceptable(ae, a)]
        sent = set()
        for r in grp:
            if r[0] == 406:
                if wf and not refused:
                    return "406 although identity is not refused by %r" % (ae,)
                if wf and applies and blen >= 50 and m["compress"] and ct is not None and ct[0] in PLAIN_TEXT:
                    return "406 although %r applies (Accept-Encoding %r, %d bytes of %s)" % (applies, ae, blen, ct[0].decode())
                continue
            if r[0] != m["status"]:
                return "status %r, the handler's is %r" % (r[0], m["status"])
            _, label, decode_ok, decoded_eq, dlen, raw_is_identity, reused = r
            if not decode_ok:
                return "body labelled %r is not a complete stream for the standard decoder (Accept-Encoding %r)" % (label, ae)
            if not decoded_eq or dlen != blen:
                return "body labelled %r does not decode to the identity body (Accept-Encoding %r)" % (label, ae)
            if blen == 0:
                if label != hce:
                    return "empty body: content-encoding %r, the handler set %r" % (label, hce)
                continue
            if label not in (b"identity", b"gzip", b"br", b"zstd"):
                return "content-encoding %r on a non-empty body" % (label,)
            if label == b"identity":
                if not raw_is_identity:
                    return "identity-labelled body is not the identity body"
                if wf and refused:
                    return "identity sent although %r forbids it" % (ae,)
                continue
            # compressed
            if ae is None:
                return "compressed (%r) without Accept-Encoding" % label
            if wf:
                if not label_acceptable(ae, label):
                    return "coding %r is not listed with non-zero quality in %r" % (label, ae)
            elif label not in ae:
                return "coding %r does not occur in %r" % (label, ae)
            if blen < 50:
                return "body of %d bytes (< 50) sent as %r" % (blen, label)
            if not m["compress"]:
                return "handler opted out of compression but the body was sent as %r" % label
            if ct is not None and ct[0].split(b";")[0].strip().lower() in ALREADY_COMPRESSED:
                return "already-compressed media type %r sent as %r" % (ct[0], label)
            if on_entry and label in memoised and not reused:
                return ("a later request of the cached page was sent %r bytes that are not the ones memoised in the cache entry "
                        "by an earlier request" % label)
            if on_entry:
                sent.add(label)
        memoised |= sent
    return None


def extra_coverage(cases, impl, model, spec):
    """what the run exercised: replies per label, 406s, decoded streams, concurrent groups, big bodies, levels"""
    labels, decoded, n406, groups, tgroups, maxn, big, reused = {}, 0, 0, 0, 0, 0, 0, 0
    statuses, methods, lvls, hces, ood_ct = {}, {}, set(), 0, 0
    for c in cases:
        i = impl.get(c.id)
        if i is None or c.comp != "neg.pipe" or i.startswith("(L (N 9") or i.startswith("(L (N 2)"):
            continue
        m = fill_meta(c)
        ood_ct += bool(m.get("ood"))
        try:
            gs = _replies(xparse(i))
        except Exception:
            continue
        big += m["blen"] >= 65536
        hces += m["hce"] is not None
        if "levels" in m:
            lvls.add(m["levels"])
        for (ae, n, method, kind), grp in zip(m["reqs"], gs):
            methods[("GET", "HEAD", "POST")[method]] = methods.get(("GET", "HEAD", "POST")[method], 0) + len(grp)
            if n:
                groups += 1
                tgroups += kind == 2
                maxn = max(maxn, n)
            for r in grp:
                statuses[str(r[0])] = statuses.get(str(r[0]), 0) + 1
                if r[0] == 406:
                    n406 += 1
                else:
                    lab = r[1].decode("latin-1") if r[1] is not None else "(none)"
                    labels[lab] = labels.get(lab, 0) + 1
                    decoded += lab in ("gzip", "br", "zstd") and r[2] == 1 and r[3] == 1
                    reused += r[6]
    return {"replies_by_content_encoding": labels, "replies_406": n406, "replies_by_status": statuses, "replies_by_method": methods,
            "compressed_replies_decoded_to_identity_body": decoded, "replies_carrying_the_memoised_buffer": reused,
            "concurrent_groups": groups, "concurrent_groups_on_worker_threads": tgroups, "max_concurrent_requests": maxn,
            "cases_with_body_of_64KiB_or_more": big, "distinct_level_settings": len(lvls), "cases_with_handler_content_encoding": hces,
            "out_of_domain_sniffed_content_type": ood_ct}


def signature(c, m):
    if c.comp == "neg.pipe":
        if "(N 406)" in m or "(B 677a6970)" in m or "(B 6272)" in m or "(B 7a737464)" in m:
            return m[:200]
        return None
    if c.comp == "neg.list_header":
        return m[:60] if "(N 0))" in m or "(N 2))" in m else None
    if c.comp in ("neg.stress", "neg.stream"):
        return None
    return m[:40]


def directed(rng, mismatches):
    """after a broken proof / correspondence: the pages of the disagreeing cases under every directed Accept-Encoding value, then a
    fresh quick stream; every pipe case carries the Coq specification, so a failing input is reported as such"""
    more = []
    bodies = body_specs()
    seen = set()
    for c in mismatches:
        if c.comp != "neg.pipe":
            continue
        m = fill_meta(c)
        key = (m["blen"], m["ctype"], m["compress"], m["cache"])
        if key in seen or len(seen) >= 6:
            continue
        seen.add(key)
        body = next((b for b in bodies if BODY_LEN[b[0]] == m["blen"]), bodies[7])
        aes = [r[0] for r in m["reqs"]]
        for ae in aes + DIRECTED_AE:
            more.append(pipe_case(body, m["ctype"], m["compress"], m["cache"], rng.choice(PREFS), rng.choice(PREFS),
                                  [(b"gzip, br, zstd", 0), (ae, 0), (ae, 0)], {"kind": "pipe/directed-search", "grammar": False},
                                  hce=m["hce"], status=m["status"]))
    return more + generate(rng, "quick")


def describe(c):
    import kv
    d = {"component": c.comp, "kind": c.meta.get("kind"), "profile": c.profile, "input": kv.pretty(c.x, 300)}
    return d


RULE = ("(a) neg.pipe: the real kvarn::handle_cache, in process, on one page per case: body in {0, 1, 49, 50, 51 bytes, 300 bytes of text, 600 "
        "pseudo-random bytes, 4 KiB zeros / pseudo-random; 64 KiB + 16 and 1 MiB + 768 incompressible (a pseudo-random block under 2^d xor masks), "
        "64 KiB and 1 MiB + 17 of one byte; thorough: + 200 KiB, 64 KiB exactly} x 46 content types (every branch of do_compress, unparsable, non-ASCII, "
        "absent = sniffed) x handler opt-out x a content-encoding header of the handler's own (identity / gzip / br) x status (200, 201, 403, 404, 410, "
        "500: admitted to the cache or not) x cached / one-shot option sets x the four preferred algorithms x every compression level (zstd -7..22, "
        "brotli 0..11, gzip 0..9, independently for both option sets) x 1-6 request groups (GET / HEAD / POST; single, n = 2..64 concurrent futures "
        "joined on one thread, or n tasks spawned behind a barrier on a 4-worker multi-thread runtime; a second and third Accept-Encoding field line) "
        "with Accept-Encoding from the RFC 7231 grammar (codings in any case, *, q in {0, 0.0, 0.000, 0., 0.5, 0.001, 0.999, 1, 1.0, 1.000, .5, 1e-46 "
        "written out, ...} and every other text f32::from_str accepts or just not: 0e0, -0, +0.0, 1e-50, 7e-46 / 8e-46 (the binary32 rounding "
        "boundary), inf, NaN, 1e, ...; OWS, duplicates, unknown codings), mutated / random garbage, non-ASCII bytes, none.  The harness decodes every "
        "reply body with the standard decoder of the algorithm named in content-encoding (flate2 MultiGzDecoder, brotli BrotliDecompress, zstd "
        "decode_all) and reports status, label, complete-stream, decoded == identity body (also == CacheReply.identity_body), length, bytes == identity "
        "bytes, and whether the buffer sent is the very allocation an earlier reply carried (the memoised bytes: pointer identity, all replies kept "
        "alive); the extracted model predicts the same tuple (its encoders are stand-ins: label / status / equalities / reuse are compared).  "
        "(b) neg.spec: the executable Coq specification spec_verdict (must-be-406, identity allowed, codings allowed) evaluated on the same input and "
        "checked against every reply of the implementation.  (c) neg.list_header: kvarn_utils::parse::list_header directly, dev and nochk profiles, on "
        "grammar, mutated and random UTF-8 text, compared with the byte-level model (qualities by class: == 0.0, == 1.0, other; outside the grammar "
        "compared by what the negotiation can see: the number of values and those naming gzip / br / zstd / identity / *).  (d) neg.mime: "
        "Mime::from_str + comprash::do_compress vs the model's stand-in parser and do_compress.  Spec oracles independent of the model (extra_oracle, "
        "also on the cases the model does not cover): every non-406 reply has the handler's status and decodes as a complete stream to exactly the "
        "identity body; its label is identity / the handler's own (empty body) or a coding listed with non-zero quality per a reference reading of "
        "Accept-Encoding (split on ',', strip OWS, weight after ';', exact binary32 class of the weight by rational arithmetic); identity is never sent "
        "to a client whose header forbids it (identity;q=0 in any case, or *;q=0 without an identity member); bodies < 50 bytes, opted-out handlers and "
        "already-compressed media types (png, jpeg, woff2, mp4, ogg, pdf, zip, zstd, gzip) are never sent compressed; 406 only if identity is "
        "forbidden, and never when a listed coding applies to a plain text type of >= 50 bytes; a later GET / HEAD of a cached page that is sent a "
        "coding an earlier one was sent carries the memoised buffer; list_header on a grammar header equals the reference parse.  "
        "distinct_nontrivial = distinct (input, model outcome) with a compressed label or a 406 (pipe), a zero / other quality (list_header), any (mime)")
ASSUMPTIONS = [
    "encoders (flate2 GzEncoder, brotli CompressorWriter, zstd Encoder) are a Section variable; lossless_partial assumes a decoder inverts them and "
    "that their output is non-empty; this is validated on every run by the standard decoders on the bytes kvarn sends (every level, bodies up to "
    "1 MiB, compressible and not), not proved (DEFLATE / Brotli / Zstandard have no Gallina model here)",
    "f32::from_str and Mime::from_str are Section variables in every theorem; the correspondence run instantiates them with stand-ins: the full "
    "grammar of f32::from_str (sign, exponent, inf / nan) classified exactly against the binary32 rounding boundaries, and "
    "'type/subtype[+suffix][; charset=utf-8]'; a sniffed (absent) content type on a non-empty body is out of the model's domain (counted; the spec "
    "oracles still judge those replies)",
    "memo cell: the model is the protocol of tokio::sync::OnceCell::get_or_init (fast-path check, one permit, store, read) under all "
    "interleavings of its steps; OnceCell's own implementation (semaphore, Acquire / Release on the flag) is trusted; the run exercises n futures "
    "joined on one thread, n tasks released together on a 4-worker runtime, and (neg.stress) hundreds to tens of thousands of such rounds: every "
    "reply decoded and all carrying one buffer",
    "n concurrent requests that arrive before the page has a cache entry: the model takes the schedule in which all of them miss the cache (each "
    "compresses for itself); on the real code a late one may find the entry an early one inserted, so the 'memoised buffer' flag of that one group "
    "is not compared (everything else is)",
    "a content-encoding header set by the handler is modelled as the code treats it: the handler's bytes are the identity body, the header is "
    "replaced for a non-empty body (handler_coding_overwritten) and kept on an empty one (lossless_partial excludes a non-identity one there); "
    "check_content_type only appends a charset parameter (type / subtype unchanged); no vary rules; admission to the response cache follows "
    "ServerCachePreference::Full / None, default_status_code_cache_filter and GET / HEAD (C04's subject otherwise); Range is applied later, in "
    "SendKind::send, to the coded body (C09's subject)",
    "only the first Accept-Encoding field line is read (headers().get): modelled, generated and judged as such",
    "list_header_wf: names made only of number characters (0-9 . + - e E and the letters of inf / nan / infinity) are excluded, a member without weight "
    "is given the f32 value of the text in front of it (Accept-Encoding: 0 yields quality 0.0 for the coding '0'); no registered coding has such a name; "
    "a weight written 'Q=' (capital) starts at the first digit or '.', so it is in the reference grammar with plain decimals only",
    "not interpreted by the code and stated as such: '*' with a non-zero quality makes no coding acceptable (the property asks for a LISTED coding), "
    "coding names other than identity are compared case-sensitively ('GZIP' is an unknown coding: identity is sent)",
]
TRUSTED = ["modelled: utils/src/parse.rs list_header (+ trim_ows); src/comprash.rs do_compress, CompressionOptions, CompressedResponse::{new (floor), "
           "clone_preferred, clone_identity_set_compression, get_gzip/get_br/get_zstd}; src/lib.rs handle_cache 406 mapping, the cached / one-shot "
           "option choice, get_cache (status filter, method) and the cache lookup for GET / HEAD; http::HeaderValue::to_str as visible-ASCII-or-TAB",
           "standard decoders in the harness: flate2 1.x MultiGzDecoder, brotli 7 BrotliDecompress, zstd 0.13 decode_all (harness/src/c00pipe.rs decode_body)",
           "Bytes::as_ptr equality of two live buffers as 'the same allocation' (memoised-buffer observation)"]
LEVEL_TEXT = ("Coq theorems about a byte-level model of list_header and a transcription of clone_preferred / handle_cache's use of it, for every header "
              "value, body, content type, handler content-encoding, status, method, option set and (memo cell) every interleaving: chosen coding is identity "
              "or listed with quality != 0.0 (chosen_is_listed, never_refused; for arbitrary text its name occurs in the header: chosen_occurs_in_header); "
              "'the client forbids identity' = identity;q=0 in any case, or *;q=0 without an identity member (refuses_identity_iff), and then identity is "
              "NEVER sent, whatever the body size, opt-out or content type (identity_refusal_honoured, no side condition any more); < 50 bytes / opt-out "
              "=> identity or, if forbidden, 406, no memo cell touched (floors); uncompressible content type likewise (floors_content_type); 406 <=> "
              "identity forbidden and nothing else applies, i.e. not compressed at all or no coding listed (not_acceptable_iff, full equivalence); the "
              "label names exactly the encoder whose output is sent, the memo cell keeps it, a handler's own content-encoding never survives on a "
              "non-empty body (label_matches_body, handler_coding_overwritten, memoised_bytes_reused, memoised_reply: a reply flagged memoised carries "
              "the cell's bytes and leaves them there); every reply of every history of a page — any status, GET / HEAD / other methods, cached or not, "
              "groups of concurrent requests, from a cold cache — is allowed by the executable specification spec_verdict (serve_meets_spec; the same "
              "spec_verdict judges every reply of the real code on each run); preferred-then-zstd-br-gzip order (preference_order); list_header = "
              "reference parse on the RFC 7231 grammar with OWS (list_header_wf) and total with at most commas+1 values (list_header_total); memo cell "
              "(OnceCell::get_or_init protocol) under all interleavings of n tasks: only encoder outputs are ever stored or returned, never a panic "
              "(memo_invariant), written once (memo_write_once), never stuck and at most 4n steps (memo_completes).  PARTIAL: "
              "lossless_partial (every reply of every such history decodes to the identity body) is relative to the hypothesis that a decoder inverts "
              "the encoder; that hypothesis is validated, not proved, by decoding every reply of the run with the standard decoders.  Refuted for kvarn "
              "0.6.3 and repaired: list_header_ows_v0_refuted (7270dfd), identity_refusal_floor_v0_refuted / identity_refusal_optout_v0_refuted "
              "(identity;q=0 ignored under the floor / for opted-out handlers: 0cd8927), identity_refusal_star_v0_refuted (*;q=0: cb78127), "
              "identity_refusal_case_v0_refuted (Identity;q=0: 644c245), memo_double_write_v0_refuted (the UnsafeCell memo cell was written twice when two "
              "worker threads raced between its second check and its write: 37d7eb3).")
LEVEL_NOTE = ("Trusted: Coq kernel; extraction (sample re-checked in-kernel); hand transcription of the anchored code validated by the differential run on "
              "handle_cache / list_header / do_compress; the three decoder crates as the definition of 'standard decoder'; SC memory for the memo cell. "
              "No axioms. Encoder losslessness: validated per run, not proved. Not covered: streaming responses (compress is forced off for them and, "
              "since 0cd8927, a forbidden identity does not turn them into a 406), Range over coded bodies (C09), more than one Accept-Encoding field "
              "line (first one only, as the code reads it).")
TECHNIQUE = ("Coq proof (state-machine invariant for list_header, case analysis of clone_preferred, lifting over all histories of a page, inductive "
             "invariant over all schedules for the memo cell) + differential correspondence on kvarn::handle_cache with the Coq specification and "
             "standard decoders as spec oracles")
