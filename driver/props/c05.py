"""C05 — Vary: a stored variant is only served to requests that select it."""
import itertools

from kv import Case, xn, xb, xl, xlist, xbool, xparse, xtext
import kv
import pipe

ID = "C05"
MODULE = "C05"
IMPORTS = "Bytes RustInt Range CacheControl Cache CacheProofs Fixture RustStd Vary VaryProofs"
PROFILES = ("dev",)

RULE = ("histories through the real kvarn::handle_cache in process (harness/src/c05.rs on top of c00pipe.rs): hosts with 1-3 pages, each page "
        "with a vary rule set of 0-3 rules (header name incl. mixed-case and non-token names, transformation from the many-to-few menu "
        "{lower-case, first-byte class lo/hi/none, length mod 3, constant} implemented in Rust and in Gallina, default incl. defaults equal to a class), "
        "served by a counting handler that echoes its own transformed tuple; requests GET/HEAD(/POST) whose rule headers are absent, present "
        "(same class / different class), empty, repeated, or not text (obs-text bytes); every history = first pass in some arrival order, dump of the "
        "stored variant vector, second pass, dump; thorough: all arrival orders of every chosen request multiset of size <= 5, random orders beyond; "
        "quick: all orders of size <= 4 for a few sets + random. Compared per request: status, vary header, last-modified presence, decoded body, identity "
        "body, handler invocation log; per dump: the stored header lists in vector order (model side: the Coq vector model). "
        "Spec oracle (component vary.spec = finite map (page, transformed tuple) -> response): body is the rendering of the request's own transformed tuple, "
        "exactly one handler invocation per distinct tuple per page between clears, vary header equation, and every dumped vector holds exactly the "
        "tuples seen, each once (its ascending order for Rust's Ord on [Header] is compared with the model's vector by the correspondence). distinct_nontrivial = histories that stored >= 3 variants on one page")
ASSUMPTIONS = [
    "sequential histories in the theorems about serveV (one request at a time); the one suspension point of handle_cache (the await on the handler in "
    "the miss arm / in handle_vary_missing) is modelled as two phases, and interleavings at that point are exercised by the park/release operations "
    "of the harness and covered by the theorems stale_position_* only",
    "moka is a finite map with read-your-writes; its capacity (1024 entries) is never reached",
    "vary_refines_map / computed_once_per_tuple: every GET/HEAD response of the handler is cacheable under the path key and never expires, requests pass "
    "sanitize and carry no If-Modified-Since (theorem hypotheses; fixture pages are ServerCachePreference::Full without max-age)",
    "rule sets are looked up by exact path in the fixture (extensions::RuleSet::get with patterns is C14's subject); internal '/./' override URIs of Prime "
    "extensions are not modelled",
    "HeaderMap::get(&str) for rule names longer than 64 bytes is modelled by the same normalisation as for shorter ones (not generated)",
    "content negotiation is abstract (C06): bodies are compared after decoding content-encoding with standard decoders; streaming responses are not modelled "
    "(apply_header's no_range branch is in the model but unreachable from serveV)",
]
TRUSTED = ["modelled: src/vary.rs (Settings::add_rule's assertion, VariedResponse::{new,push_response,get,get_headers_for_request,get_by_request,first}, "
           "get_header, apply_header, derived Ord of Header and Ord of slices), src/lib.rs handle_cache + handle_cache_helpers::{maybe_cache, "
           "handle_vary_missing} (as in Model/Cache.v, with the variant vector instead of an association list), rustc 1.95 slice::binary_search_by "
           "(Model/RustStd.v), http 1.5.0 HeaderMap::get(&str) name normalisation (HEADER_CHARS), HeaderValue::to_str; "
           "handlers/transformations are the fixture menu (harness/src/c00pipe.rs = Model/Fixture.v); the dump reads VariedResponse's derived Debug output"]
LEVEL_TEXT = ("Coq theorems, for all rule sets (any number of rules, names, transformations, defaults), all header values and all histories "
              "(requests, page clears, clear-all, waits/expiry): vary_served_for_equal_tuple — by an inductive invariant on the cache (every variant "
              "vector strictly sorted for Rust's Ord on [Header], built with the page's rules, every stored response computed for a request of that page "
              "with exactly the stored transformed list) no step panics and every reply is a 304, a stored response computed for a request with the same "
              "path and an equal transformed list, or the response computed now for this very request; variants_sorted (no two entries with equal lists); "
              "lookup_refines_map / insert_refines_map / lookup_never_wrong_variant (rustc 1.95 binary_search_by on the vector = finite map; exact match "
              "even on an unsorted vector); vary_refines_map — the server's observations and handler invocations equal those of a finite-map server "
              "(page, transformed list) -> response for every history when GET/HEAD responses are cacheable under the path key without expiry; "
              "computed_once_per_tuple; default_applied; vary_header_eq (exact equation, rule order); stale_position_safe for the repaired "
              "handle_vary_missing (second half of a request against any invariant-satisfying cache) with stale_position_v0_refuted for the code before "
              "the repair (panic / unsorted vector, reproduced on the real code); vector_refines_assoc_list + vary_cache_transparent connect the vector "
              "model to Model/Cache.v and C03's transparency. Tied to the repo by the differential run of the real kvarn::handle_cache against the "
              "extracted model (incl. the order of the stored vector read from VariedResponse's Debug output) and the finite-map spec oracle.")
LEVEL_NOTE = ("Trusted: Coq kernel; extraction (sample re-checked in-kernel); hand transcription of vary.rs / handle_cache into Model/Vary.v validated by the "
              "differential run incl. the order of the stored vector; moka as a finite map. No axioms.")
TECHNIQUE = "Coq proof (inductive invariant over all histories + refinement of the sorted vector to a finite map) + differential correspondence on kvarn::handle_cache"

REPORT = [b"vary", b"?last-modified"]

# ---- menus -------------------------------------------------------------------------------
NAMES = [b"x-a", b"x-b", b"x-c", b"accept-language", b"x-a", b"x-b"]
ODD_NAMES = [(b"X-Up", b"x-up"), (b"x bad", None), (b"x:y", None), (b"X-A", b"x-a")]   # (rule name, request header name or None)
DEFAULTS = [b"dflt", b"lo", b"hi", b"0", b"", b"en", b"k", b"none", b"zz"]
VALUES = {
    0: [b"en", b"EN", b"sv", b"Sv", b"de", b"fr", b"a", b"zz", b"", b"en-GB", b"b\tc", b"dflt"],
    1: [b"apple", b"Mango", b"zebra", b"Nope", b"", b"m", b"n", b"9", b"hi", b"lo"],
    2: [b"", b"a", b"ab", b"abc", b"abcd", b"abcde", b"zzzzzz"],
    3: [b"x", b"y", b"", b"anything"],
}
NONTEXT = [b"\xe9t\xe9", b"en\xff", b"\x80", b"sv\xc3\xa5"]


def gen_rules(rng, n=None):
    n = rng.choice([0, 1, 1, 2, 2, 2, 3, 3]) if n is None else n
    rules = []   # (rule name, xform, default, request header name or None)
    used = set()
    for _ in range(n):
        if rng.random() < 0.15:
            name, rq = rng.choice(ODD_NAMES)
        else:
            name = rng.choice(NAMES)
            rq = name
        if name in used:      # duplicate rule names are allowed by add_rule; keep them rare
            if rng.random() < 0.7:
                continue
        used.add(name)
        xf = rng.choice([0, 0, 1, 1, 2, 3])
        rules.append((name, xf, rng.choice(DEFAULTS), rq))
    return rules


def page(path, idx, rules):
    """handler (echo transformed tuple, counting) + vary rule set for one page"""
    tup = [((rq if rq is not None else b"zz-never-sent"), xf, d) for (_, xf, d, rq) in rules]
    h = pipe.H(path, kind=3, body=b"T%d" % idx, spref=2, tuple_=tup)
    v = pipe.vary_rule(path, [(n, xf, d) for (n, xf, d, _) in rules])
    return h, v


def rand_value(rng, xf):
    r = rng.random()
    if r < 0.12:
        return rng.choice(NONTEXT)
    return rng.choice(VALUES[xf])


def rand_headers(rng, rules, p_absent=0.25):
    hdrs = []
    for (name, xf, d, rq) in rules:
        if rq is None:
            continue
        if rng.random() < p_absent:
            continue
        hdrs.append((rq, rand_value(rng, xf)))
        if rng.random() < 0.05:       # repeated header: get() returns the first value
            hdrs.append((rq, rand_value(rng, xf)))
    if rng.random() < 0.15:
        hdrs.append((b"accept-encoding", rng.choice([b"gzip", b"br", b"identity", b"zstd, gzip"])))
    if rng.random() < 0.1:
        hdrs.append((b"x-unrelated", b"1"))
    return hdrs


def dump(target):
    return xl(xn(4), xb(target))


def park(target, method=b"GET", addr=1, headers=(), body=b""):
    return xl(xn(5), xn(addr), xb(method), xb(target), xlist([xl(xb(k), xb(v)) for k, v in headers]), xb(body))


def release():
    return xl(xn(6))


def config(pages, cache=True):
    hs, vs = [], []
    for i, (path, rules) in enumerate(pages):
        h, v = page(path, i, rules)
        hs.append(h)
        if rules or i % 2 == 0:
            vs.append(v)
    return pipe.cfg(cache=cache, default_ext=False, handlers=hs, vary=vs, report=[xb(r) for r in REPORT], disable_ims=False)


def history_ops(first, second, pages):
    ops = list(first)
    ops += [dump(p) for p, _ in pages]
    ops += list(second)
    ops += [dump(p) for p, _ in pages]
    return ops


def mk(cfg, ops, kind, spec=True):
    return Case("vary.run", pipe.scenario(cfg, ops), "vary.spec" if spec else None, {"kind": kind})


def request_set(rng, path, rules, k, methods=(b"GET",)):
    return [pipe.req(path + (b"?q=%d" % rng.randrange(3) if rng.random() < 0.1 else b""), method=rng.choice(methods),
                     addr=rng.randrange(1, 4), headers=rand_headers(rng, rules)) for _ in range(k)]


def exhaustive_orders(rng, k, kind, nsets):
    """all arrival orders of k requests to one page"""
    cases = []
    for _ in range(nsets):
        rules = gen_rules(rng, rng.choice([1, 2, 2, 3]))
        pages = [(b"/v", rules)]
        cfg = config(pages)
        reqs = request_set(rng, b"/v", rules, k, methods=(b"GET", b"GET", b"GET", b"HEAD"))
        second = list(reqs)
        rng.shuffle(second)
        for perm in itertools.permutations(range(k)):
            cases.append(mk(cfg, history_ops([reqs[i] for i in perm], second, pages), "orders-%d" % k))
    return cases


def random_history(rng, n_lo, n_hi):
    npages = rng.choice([1, 1, 2, 3])
    paths = [b"/v", b"/w", b"/dir/x"][:npages]
    pages = [(p, gen_rules(rng)) for p in paths]
    cfg = config(pages, cache=rng.random() > 0.04)
    ops = []
    n = rng.randrange(n_lo, n_hi)
    pool = []
    for p, rules in pages:
        pool += request_set(rng, p, rules, rng.randrange(3, 9), methods=(b"GET", b"GET", b"GET", b"GET", b"HEAD", b"POST"))
    for _ in range(n):
        r = rng.random()
        if r < 0.04:
            ops.append(pipe.clear_page(rng.choice(paths)))
        elif r < 0.055:
            ops.append(pipe.clear_all())
        elif r < 0.12:
            ops.append(dump(rng.choice(paths)))
        else:
            ops.append(rng.choice(pool))
    ops += [dump(p) for p in paths]
    return mk(cfg, ops, "random")


def many_variants(rng):
    """one page, >= 4 distinct tuples in adversarial arrival orders (descending, zig-zag, random)"""
    rules = [(b"x-a", 0, rng.choice(DEFAULTS), b"x-a")] + (gen_rules(rng, 1) if rng.random() < 0.5 else [])
    rules = [r for i, r in enumerate(rules) if i == 0 or r[0] != b"x-a"]
    pages = [(b"/v", rules)]
    cfg = config(pages)
    vals = rng.sample(VALUES[0], rng.randrange(4, 9))
    mode = rng.choice(["desc", "asc", "zigzag", "random"])
    if mode == "desc":
        vals.sort(reverse=True)
    elif mode == "asc":
        vals.sort()
    elif mode == "zigzag":
        vals.sort()
        vals = [vals[i // 2] if i % 2 == 0 else vals[-1 - i // 2] for i in range(len(vals))]
    reqs = []
    for v in vals:
        hd = [(b"x-a", v)]
        for (name, xf, d, rq) in rules[1:]:
            if rq is not None and rng.random() < 0.6:
                hd.append((rq, rand_value(rng, xf)))
        reqs.append(pipe.req(b"/v", headers=hd))
    second = list(reqs)
    rng.shuffle(second)
    return mk(cfg, history_ops(reqs, second, pages), "many-" + mode)


def malformed(rng):
    """rule names that add_rule rejects (panic while the host is built), odd header values"""
    bad = rng.choice([b"x\x01a", b"x\x7f", b"caf\xc3\xa9", b"\x00"])
    pages = [(b"/v", [(bad, 0, b"d", None)])]
    cfg = config(pages)
    return mk(cfg, [pipe.req(b"/v"), dump(b"/v")], "malformed-rule-name", spec=False)


def interleaved(rng):
    """a request suspended in its handler while others complete (stale position in handle_vary_missing)"""
    rules = [(b"x-a", 0, b"dflt", b"x-a")]
    pages = [(b"/v", rules)]
    cfg = config(pages)
    vals = rng.sample([b"a", b"b", b"c", b"d", b"e", b"f"], 5)
    pre = [pipe.req(b"/v", headers=[(b"x-a", v)]) for v in vals[:rng.randrange(1, 3)]]
    mid = [pipe.req(b"/v", headers=[(b"x-a", v)]) for v in vals[3:3 + rng.randrange(0, 2)]]
    ops = pre + [park(b"/v", headers=[(b"x-a", vals[2])])] + mid + [release(), dump(b"/v")]
    ops += [pipe.req(b"/v", headers=[(b"x-a", v)]) for v in vals] + [dump(b"/v")]
    return mk(cfg, ops, "interleaved", spec=False)


CORPUS = []


def corpus_cases():
    cases = []
    # three variants arriving in descending order, then re-requested
    rules = [(b"x-a", 0, b"dflt", b"x-a")]
    pages = [(b"/v", rules)]
    cfg = config(pages)
    for order in ([b"c", b"b", b"a"], [b"a", b"c", b"b"], [b"b", b"a", b"c", b"d"], [b"d", b"a", b"c", b"b", b"e"]):
        reqs = [pipe.req(b"/v", headers=[(b"x-a", v)]) for v in order]
        cases.append(mk(cfg, history_ops(reqs, reqs, pages), "corpus"))
    # default applied: absent, non-text, empty value; default equal to a class
    rules = [(b"x-a", 1, b"lo", b"x-a"), (b"x-b", 2, b"0", b"x-b")]
    pages = [(b"/v", rules)]
    cfg = config(pages)
    reqs = [pipe.req(b"/v"), pipe.req(b"/v", headers=[(b"x-a", b"\xe9")]), pipe.req(b"/v", headers=[(b"x-a", b"apple")]),
            pipe.req(b"/v", headers=[(b"x-a", b"")]), pipe.req(b"/v", headers=[(b"x-a", b"zebra"), (b"x-b", b"abc")]),
            pipe.req(b"/v", headers=[(b"x-b", b"\xff\xff\xff")]), pipe.req(b"/v", method=b"HEAD", headers=[(b"x-a", b"Zed")])]
    cases.append(mk(cfg, history_ops(reqs, reqs, pages), "corpus"))
    # mixed-case and non-token rule names
    rules = [(b"X-Up", 0, b"d", b"x-up"), (b"x bad", 0, b"never", None)]
    pages = [(b"/v", rules)]
    cfg = config(pages)
    reqs = [pipe.req(b"/v", headers=[(b"x-up", b"B")]), pipe.req(b"/v", headers=[(b"x-up", b"a")]), pipe.req(b"/v")]
    cases.append(mk(cfg, history_ops(reqs, reqs, pages), "corpus"))
    # a request suspended at the await of handle_vary_missing while the entry is replaced by a shorter one
    # (before the fix: Vec::insert panicked) / while another variant is inserted (before the fix: vector unsorted,
    # the next request for "b" recomputed it and stored it twice)
    rules = [(b"x-a", 0, b"dflt", b"x-a")]
    pages = [(b"/v", rules)]
    cfg = config(pages)

    def R(v):
        return pipe.req(b"/v", headers=[(b"x-a", v)])
    cases.append(mk(cfg, [R(b"b"), R(b"c"), R(b"d"), park(b"/v", headers=[(b"x-a", b"e")]), pipe.clear_page(b"/v"), R(b"a"), release(),
                          dump(b"/v"), R(b"e"), R(b"a"), dump(b"/v")], "corpus-interleaved", spec=False))
    cases.append(mk(cfg, [R(b"a"), park(b"/v", headers=[(b"x-a", b"c")]), R(b"b"), release(), dump(b"/v"), R(b"b"), R(b"c"), R(b"a"),
                          dump(b"/v")], "corpus-interleaved", spec=False))
    cases.append(mk(cfg, [R(b"a"), park(b"/v", headers=[(b"x-a", b"c")]), R(b"c"), release(), dump(b"/v"), R(b"c"), dump(b"/v")],
                    "corpus-interleaved", spec=False))
    return cases


def generate(rng, tier):
    cases = corpus_cases()
    if tier == "quick":
        cases += exhaustive_orders(rng, 3, "orders", 6)      # 6 * 6
        cases += exhaustive_orders(rng, 4, "orders", 4)      # 4 * 24
        cases += exhaustive_orders(rng, 5, "orders", 1)      # 120
        cases += [many_variants(rng) for _ in range(120)]
        cases += [random_history(rng, 6, 22) for _ in range(260)]
        cases += [malformed(rng) for _ in range(4)]
        cases += [interleaved(rng) for _ in range(30)]
    else:
        cases += exhaustive_orders(rng, 2, "orders", 20)
        cases += exhaustive_orders(rng, 3, "orders", 60)
        cases += exhaustive_orders(rng, 4, "orders", 60)
        cases += exhaustive_orders(rng, 5, "orders", 40)     # 4800
        cases += [many_variants(rng) for _ in range(2500)]
        cases += [random_history(rng, 6, 40) for _ in range(6000)]
        cases += [malformed(rng) for _ in range(12)]
        cases += [interleaved(rng) for _ in range(600)]
    return cases


def directed(rng, mismatches):
    cases = exhaustive_orders(rng, 4, "orders", 12)
    cases += [many_variants(rng) for _ in range(600)]
    cases += [random_history(rng, 6, 30) for _ in range(600)]
    return cases


# ---- oracle ------------------------------------------------------------------------------
def _hc(x):
    return [(a[1][0][1], a[1][1][1]) for a in x[1]]


def _dump_ok(i, s):
    """implementation dump (L pq_slot p_slot) vs. the spec's list of seen header lists of the page"""
    try:
        seen = [_hc(h) for h in s[1]]
        slots = i[1]
        if len(slots) != 2 or slots[0][1] != []:
            return False       # fixture pages are stored under the path key only
        if slots[1][1] == []:
            return seen == []
        vec = [_hc(h) for h in slots[1][1][0][1]]
    except Exception:
        return False
    # a finite map: no two stored variants with equal header lists, and exactly the lists seen.  (That the vector is
    # *ascending* for Ord on [Header] is an internal matter: the model's dump shows it and the correspondence compares it.)
    return len(set(map(tuple, vec))) == len(vec) and sorted(vec) == sorted(seen) and len(set(map(tuple, seen))) == len(seen)


def spec_ok(c, impl, spec):
    try:
        a, b = xparse(impl), xparse(spec)
    except Exception:
        return False
    if a[0] != "L" or b[0] != "L" or len(a[1]) != len(b[1]):
        return False
    ops = c.x[1][1][1]
    for o, x, y in zip(ops, a[1], b[1]):
        if o[1][0][1] == 4:
            if not _dump_ok(x, y):
                return False
        elif x != y:
            return False
    return True


def _xf(i, v):
    if i == 0:
        return v.lower()
    if i == 1:
        return b"none" if not v else (b"lo" if b"a" <= v[:1].lower() <= b"m" else b"hi")
    if i == 2:
        return b"%d" % (len(v) % 3)
    return b"k"


def extra_oracle(c, impl):
    """On the implementation's output alone (also for the park/release histories, which have no sequential spec):
    no dumped vector holds two variants with equal header lists and every 200 body is the handler prefix followed
    by the rendering of the request's *own* transformed tuple (Python re-implementation of the menu)."""
    try:
        out = xparse(impl)
        if out == ("L", [("N", 2)]):
            return "handle_cache panicked" if c.meta.get("kind") != "malformed-rule-name" else None
        cfg = {k[1][0][1]: k[1][1] for k in c.x[1][0][1]}
        pages = {}
        for i, h in enumerate(cfg[b"handlers"][1]):
            f = h[1]
            pages[f[0][1]] = (f[3][1], [(t[1][0][1], t[1][1][1], t[1][2][1]) for t in f[9][1]])
        ops = c.x[1][1][1]
        pending = None
        for o, x in zip(ops, out[1]):
            kind = o[1][0][1]
            if kind == 4:
                for slot in x[1]:
                    if slot[1]:
                        vec = [_hc(h) for h in slot[1][0][1]]
                        if len(set(map(tuple, vec))) != len(vec):
                            return "two stored variants have equal transformed header lists: %r" % (vec,)
            req = None
            if kind in (0, 5):
                req = o
                if kind == 5 and x == ("L", []):
                    pending, req = o, None
            elif kind == 6 and pending is not None:
                req, pending = pending, None
            if req is not None and x[0] == "L" and len(x[1]) == 6 and x[1][0][1] == 200:
                path = req[1][3][1].split(b"?")[0]
                if path in pages:
                    prefix, tup = pages[path]
                    hdrs = {}
                    for h in req[1][4][1]:
                        hdrs.setdefault(h[1][0][1], h[1][1][1])
                    want = prefix
                    for (n, xf, d) in tup:
                        v = hdrs.get(n)
                        text = v is not None and all(32 <= b < 127 or b == 9 for b in v)
                        want += b"|" + (_xf(xf, v) if text else d)
                    if x[1][2][1] != want:
                        return "body %r is not the rendering of the request's own transformed tuple %r" % (x[1][2][1], want)
    except Exception as e:  # malformed output is a correspondence matter, not an oracle verdict
        return None
    return None


def _max_variants(m):
    best = 0
    try:
        for x in xparse(m)[1]:
            if x[0] == "L" and len(x[1]) == 2 and all(s[0] == "L" for s in x[1]):
                for s in x[1]:
                    if s[1] and s[1][0][0] == "L":
                        best = max(best, len(s[1][0][1]))
    except Exception:
        pass
    return best


def signature(c, m):
    n = _max_variants(m)
    return "variants=%d" % n if n >= 3 else None


def extra_coverage(cases, impl, model, spec):
    hist = {}
    for c in cases:
        if c.id in model:
            n = _max_variants(model[c.id])
            hist[n] = hist.get(n, 0) + 1
    return {"histories_by_max_variants_on_a_page": {str(k): v for k, v in sorted(hist.items())},
            "histories_with_4_or_more_variants": sum(v for k, v in hist.items() if k >= 4)}


def describe(c):
    ops = c.x[1][1][1]
    return {"component": c.comp, "kind": c.meta.get("kind"), "config": kv.pretty(c.x[1][0], 400), "ops": [kv.pretty(o, 120) for o in ops][:16]}


THEOREM_PINS = [
    ('vary_served_for_equal_tuple',
     "forall (hstate : Type) (compute : hstate -> request -> bool -> fat * hstate * list bytes) (cache_on ims_on : bool) (parse_ims : bytes -> option Z) (sanitize_ok : request -> bool) (prime : request -> request) (negotiate : request -> fat -> option (N * bytes)) (rules_of : bytes -> list rule) (dbg : bool) (ops : list op) (c : vcache) (hs : hstate) (now : N), InvV hstate compute rules_of c -> exists (l : list (obs * list request)) (st' : vstate hstate) (now' : N), runV hstate compute cache_on ims_on parse_ims sanitize_ok prime negotiate rules_of dbg (c, hs) now ops = Ok l /\\ runV_state hstate compute cache_on ims_on parse_ims sanitize_ok prime negotiate rules_of dbg (c, hs) now ops = Ok (st', now') /\\ InvV hstate compute rules_of (fst st') /\\ Forall2 (obs_ok hstate compute ims_on prime negotiate rules_of) ops l"),
    ('variants_sorted',
     "forall (hstate : Type) (compute : hstate -> request -> bool -> fat * hstate * list bytes) (cache_on ims_on : bool) (parse_ims : bytes -> option Z) (sanitize_ok : request -> bool) (prime : request -> request) (negotiate : request -> fat -> option (N * bytes)) (rules_of : bytes -> list rule) (dbg : bool) (ops : list op) (hs : hstate) (now : N), exists (l : list (obs * list request)) (st' : vstate hstate) (now' : N), runV hstate compute cache_on ims_on parse_ims sanitize_ok prime negotiate rules_of dbg ([], hs) now ops = Ok l /\\ runV_state hstate compute cache_on ims_on parse_ims sanitize_ok prime negotiate rules_of dbg ([], hs) now ops = Ok (st', now') /\\ (forall (k : key) (e : ventry), pc_find k (fst st') = Some e -> Sorted.StronglySorted (fun p q : fat * hcoll => cmp_hcoll (snd p) (snd q) = Lt) (vr_resps (ve_var e)) /\\ NoDup (map snd (vr_resps (ve_var e))) /\\ vr_resps (ve_var e) <> [])"),
    ('lookup_refines_map',
     'forall (v : varied fat) (r : request), vsorted (vr_resps v) -> let t := headers_for_request (vr_refs v) r in (exists f : fat, vfind t (vr_resps v) = Some f /\\ In (f, t) (vr_resps v) /\\ vr_get_by_request v r = Ok (Hit (f, t))) \\/ vfind t (vr_resps v) = None /\\ (exists L G : list (fat * hcoll), vr_resps v = L ++ G /\\ vr_get_by_request v r = Ok (Miss (Datatypes.length L) t) /\\ Forall (fun q : fat * hcoll => hlt (snd q) t) L /\\ Forall (fun q : fat * hcoll => hlt t (snd q)) G)'),
    ('insert_refines_map',
     "forall (L G : list (fat * hcoll)) (f : fat) (t t' : hcoll), vsorted (L ++ G) -> Forall (fun q : fat * hcoll => hlt (snd q) t) L -> Forall (fun q : fat * hcoll => hlt t (snd q)) G -> vsorted (L ++ (f, t) :: G) /\\ vfind t' (L ++ (f, t) :: G) = (if hc_eqb t t' then Some f else vfind t' (L ++ G))"),
    ('lookup_never_wrong_variant',
     'forall (v : varied fat) (r : request) (p : fat * hcoll), vr_get_by_request v r = Ok (Hit p) -> In p (vr_resps v) /\\ snd p = headers_for_request (vr_refs v) r'),
    ('vary_refines_map',
     'forall (hstate : Type) (compute : hstate -> request -> bool -> fat * hstate * list bytes) (ims_on : bool) (parse_ims : bytes -> option Z) (sanitize_ok : request -> bool) (prime : request -> request) (negotiate : request -> fat -> option (N * bytes)) (rules_of : bytes -> list rule) (dbg : bool) (ops : list op) (hs : hstate) (now : N), always_stored hstate compute -> Forall (op_ok ims_on sanitize_ok prime) ops -> runV hstate compute true ims_on parse_ims sanitize_ok prime negotiate rules_of dbg ([], hs) now ops = Ok (spec_run hstate compute true ims_on prime negotiate rules_of [] hs ops)'),
    ('computed_once_per_tuple',
     'forall (hstate : Type) (compute : hstate -> request -> bool -> fat * hstate * list bytes) (ims_on : bool) (parse_ims : bytes -> option Z) (sanitize_ok : request -> bool) (prime : request -> request) (negotiate : request -> fat -> option (N * bytes)) (rules_of : bytes -> list rule) (dbg : bool) (ops : list op) (hs : hstate) (now : N), always_stored hstate compute -> Forall (op_ok ims_on sanitize_ok prime) ops -> Forall (gh_req prime) ops -> exists l : list (obs * list request), runV hstate compute true ims_on parse_ims sanitize_ok prime negotiate rules_of dbg ([], hs) now ops = Ok l /\\ NoDup (map (cls rules_of) (calls_of l)) /\\ (forall r0 : request, In (OReq r0) ops -> In (cls rules_of (prime r0)) (map (cls rules_of) (calls_of l)))'),
    ('default_applied',
     'forall (ref : rule) (r : request), (header_get (ru_name ref) r = None -> header_for ref r = (ru_name ref, ru_default ref)) /\\ (forall v : bytes, header_get (ru_name ref) r = Some v -> to_str_ok v = false -> header_for ref r = (ru_name ref, ru_default ref)) /\\ (forall v : bytes, header_get (ru_name ref) r = Some v -> to_str_ok v = true -> header_for ref r = (ru_name ref, ru_xf ref v))'),
    ('vary_header_eq',
     'forall (negotiate : request -> fat -> option (N * bytes)) (rules_of : bytes -> list rule) (r : request) (f : fat) (lm cached : bool), let rp := finishV negotiate r f (own_tuple rules_of r) lm cached in (rp_body rp <> [] -> assoc (B "vary") (rp_headers rp) = Some (B "accept-encoding, range" ++ concat (map (fun ru : rule => B ", " ++ ru_name ru) (rules_of (rq_path r))))) /\\ (rp_body rp = [] -> assoc (B "vary") (rp_headers rp) = match negotiate r f with | Some _ => None | None => assoc (B "vary") (f_headers f) end)'),
    ('stale_position_safe',
     "forall (hstate : Type) (compute : hstate -> request -> bool -> fat * hstate * list bytes) (cache_on ims_on : bool) (negotiate : request -> fat -> option (N * bytes)) (rules_of : bytes -> list rule) (dbg : bool) (c : vcache) (hs : hstate) (now : N) (p : parked), InvV hstate compute rules_of c -> parked_ok rules_of p -> exists (st' : vstate hstate) (rp : reply) (lg : list bytes), serveV_phase2 hstate compute cache_on ims_on negotiate rules_of dbg c hs now p = Ok (st', rp, lg, [parked_req p]) /\\ InvV hstate compute rules_of (fst st') /\\ own_reply hstate compute negotiate rules_of (parked_req p) rp /\\ snd st' = snd (fst (compute hs (parked_req p) (parked_flag p))) /\\ lg = snd (compute hs (parked_req p) (parked_flag p))"),
    ('vector_refines_assoc_list',
     'forall (hstate : Type) (compute : hstate -> request -> bool -> fat * hstate * list bytes) (cache_on ims_on : bool) (parse_ims : bytes -> option Z) (sanitize_ok : request -> bool) (prime : request -> request) (negotiate : request -> fat -> option (N * bytes)) (rules_of : bytes -> list rule) (dbg : bool), (forall (hs : hstate) (r : request) (ok : bool), assoc (B "vary") (f_headers (fst (fst (compute hs r ok)))) = None) -> forall (ops : list op) (cV : vcache) (c : cache) (hs : hstate) (now : N), InvV hstate compute rules_of cV -> cache_rel rules_of cV c -> exists l : list (obs * list request), runV hstate compute cache_on ims_on parse_ims sanitize_ok prime negotiate rules_of dbg (cV, hs) now ops = Ok l /\\ map fst l = run hstate compute cache_on ims_on parse_ims sanitize_ok prime negotiate (vary_tuple_of rules_of) (vary_header_of rules_of) (c, hs) now ops'),
    ('vary_cache_transparent',
     'forall (hstate : Type) (compute : hstate -> request -> bool -> fat * hstate * list bytes) (ims_on : bool) (parse_ims : bytes -> option Z) (sanitize_ok : request -> bool) (prime : request -> request) (negotiate : request -> fat -> option (N * bytes)) (rules_of : bytes -> list rule) (dbg : bool), (forall (hs : hstate) (r : request) (ok : bool), assoc (B "vary") (f_headers (fst (fst (compute hs r ok)))) = None) -> forall cf : request -> bool -> fat, (forall (hs : hstate) (r : request) (ok : bool), fst (fst (compute hs r ok)) = cf r ok) -> (forall r r\' : request, get_or_head (rq_method r) = true -> get_or_head (rq_method r\') = true -> vary_tuple_of rules_of r = vary_tuple_of rules_of r\' -> rq_path r = rq_path r\' -> (qm (cf r true) = true -> path_query r = path_query r\') -> cf r true = cf r\' true) -> (forall r r\' : request, rq_path r = rq_path r\' -> qm (cf r true) = qm (cf r\' true)) -> (forall r : request, f_spref (cf r false) = SP_NONE) -> forall (ops : list op) (hs hsU : hstate) (now : N), Forall (op_no_ims ims_on prime) ops -> exists l : list (obs * list request), runV hstate compute true ims_on parse_ims sanitize_ok prime negotiate rules_of dbg ([], hs) now ops = Ok l /\\ Forall2 obs_equiv (map fst l) (run hstate compute false ims_on parse_ims sanitize_ok prime negotiate (vary_tuple_of rules_of) (vary_header_of rules_of) ([], hsU) now ops)'),
    ('stale_position_v0_refuted',
     '(run_vary_v0 stale_panic_history = XL [XN 2] /\\ run_vary stale_panic_history = stale_panic_history_out) /\\ run_vary_v0 stale_unsorted_history = stale_unsorted_history_out_v0 /\\ run_vary stale_unsorted_history = stale_unsorted_history_out'),
]
THEOREMS = THEOREM_PINS
